"""C04.e2e_corrupt - bounded stand-in: every stored object of small repositories x corruption families
{bit flip in each offset class, truncate to each length class, append, swap the contents of two objects,
replay an object under another name, delete}; oracle: restore raises, or restores the original bytes.
Also run with a snapshot cache in every state (absent, warm, truncated entry)."""
import asyncio
import os
import random
import shutil
import sys
from pathlib import Path

sys.path.insert(0, os.path.dirname(os.path.abspath(__file__)))
import lib  # noqa: E402
from replicat.repository import Repository  # noqa: E402
from replicat.backends.local import Local  # noqa: E402

FAST = {'name': 'scrypt', 'n': 4, 'r': 1, 'p': 1}


async def build(root, encrypted):
    src = root / 'src'
    src.mkdir()
    files = {}
    for i, sz in enumerate((5, 70, 200)):
        p = src / f'f{i}'
        p.write_bytes(lib.content(40 + i, sz))
        files[str(p.resolve())] = p.read_bytes()
    r = Repository(Local(root / 'repo'), concurrent=2, quiet=True, cache_directory=None)
    settings = {'chunking': {'min_length': 8, 'max_length': 64}, 'encryption': {'kdf': dict(FAST)} if encrypted else None}
    with lib.quiet():
        res = await r.init(password=b'pw', settings=settings)
        await r.unlock(password=b'pw', key=r.serialize(res.key) if res.key else None)
        await r.snapshot(paths=[src])
        # a second, older-looking snapshot with other content under the same paths (for replay/swap)
        (src / 'f1').write_bytes(lib.content(77, 70))
        await r.snapshot(paths=[src])
    await r.close()
    files[str((src / 'f1').resolve())] = (src / 'f1').read_bytes()
    return res.key, files


async def try_restore(root, key, files, cache_dir, tag):
    r = Repository(Local(root / 'work'), concurrent=2, quiet=True, cache_directory=cache_dir)
    out = root / f'out_{tag}'
    try:
        with lib.quiet():
            await r.unlock(password=b'pw', key=r.serialize(key) if key else None)
            await r.restore(path=out)
    except Exception as e:
        return 'raised', type(e).__name__
    finally:
        try:
            await r.close()
        except Exception:
            pass
    for k, v in files.items():
        rp = lib.restored_path(out, k)
        if not rp.exists() or rp.read_bytes() != v:
            return 'WRONG', {'file': os.path.basename(k), 'expected_len': len(v), 'got_len': rp.stat().st_size if rp.exists() else None}
    return 'ok', None


def cli_restore(root, key_file, files, tag):
    """the same restore through the COMMAND LINE (a child interpreter running replicat.__main__.main): -> 'failed' (non-zero exit status),
    'ok' (status 0 and every file restored exactly) or 'WRONG' (status 0 - success reported - with different or missing content)"""
    import subprocess
    import sys as _sys
    out = root / f'cliout_{tag}'
    code = ("import sys, time; sys.path.insert(0, %r); time.sleep = lambda s: None; import replicat.__main__ as m; "
            "sys.argv = ['replicat', 'restore', '-r', %r, '--no-cache', '-q', '-p', 'pw'%s, %r]; m.main()"
            % (lib.REPO, str(root / 'work'), (", '-K', %r" % str(key_file)) if key_file else '', str(out)))
    try:
        r = subprocess.run([_sys.executable, '-c', code], capture_output=True, timeout=120, cwd=str(root))
        status = r.returncode
    except subprocess.TimeoutExpired:
        return 'failed', {'status': 'timeout'}
    if status != 0:
        return 'failed', {'status': status}
    for k, v in files.items():
        rp = lib.restored_path(out, k)
        if not rp.exists() or rp.read_bytes() != v:
            return 'WRONG', {'file': os.path.basename(k), 'exit_status': 0, 'stderr': r.stderr.decode('utf-8', 'replace')[-200:]}
    return 'ok', None


async def large_chunk_cases(root):
    """chunks LARGER than any slice / block size used while hashing (1 - 2 MiB), damaged near their END, in an unencrypted repository
    (where the content hash is the only check) with each hash family"""
    out = []
    for hi, hashing in enumerate((None, {'name': 'sha2', 'bits': 256}, {'name': 'sha3', 'bits': 256})):
        src = root / f'lsrc{hi}'
        src.mkdir()
        p = src / 'large'
        p.write_bytes(lib.content(777 + hi, 3 * 2 ** 20 + 11))
        files = {str(p.resolve()): p.read_bytes()}
        r = Repository(Local(root / f'lrepo{hi}'), concurrent=2, quiet=True, cache_directory=None)
        settings = {'chunking': {'min_length': 3 * 2 ** 19, 'max_length': 2 ** 21}, 'encryption': None}
        if hashing:
            settings['hashing'] = dict(hashing)
        with lib.quiet():
            res = await r.init(settings=settings)
            await r.unlock()
            await r.snapshot(paths=[src])
        await r.close()
        chunks = sorted(q for q in (root / f'lrepo{hi}' / 'data').rglob('*') if q.is_file())
        for ci, victim in enumerate(chunks):
            original = victim.read_bytes()
            for kind, damaged in (('flip_last_byte', original[:-1] + bytes([original[-1] ^ 1])), ('flip_at_1MiB_plus', original[:2 ** 20 + 5] + bytes([original[2 ** 20 + 5] ^ 1]) + original[2 ** 20 + 6:] if len(original) > 2 ** 20 + 6 else None),
                                  ('tail_zeroed', original[:-4096] + bytes(4096))):
                if damaged is None or damaged == original:
                    continue
                victim.write_bytes(damaged)
                shutil.rmtree(root / 'work', ignore_errors=True)
                shutil.copytree(root / f'lrepo{hi}', root / 'work')
                victim.write_bytes(original)
                st, detail = await try_restore(root, None, files, None, f'large_{hi}_{ci}_{kind}')
                shutil.rmtree(root / f'out_large_{hi}_{ci}_{kind}', ignore_errors=True)
                out.append((hashing, ci, len(original), kind, st, detail))
    return out


async def big_restore_cases(root, encrypted):
    """a file of ~200 chunks (far more than any window / batch / pool size of restore): one chunk damaged at a time, at several
    positions of the schedule; restore must fail or write the original bytes"""
    src = root / 'bsrc'
    src.mkdir()
    p = src / 'big'
    p.write_bytes(lib.content(4242, 9000))
    files = {str(p.resolve()): p.read_bytes()}
    r = Repository(Local(root / 'brepo'), concurrent=2, quiet=True, cache_directory=None)
    settings = {'chunking': {'min_length': 8, 'max_length': 64}, 'encryption': {'kdf': dict(FAST)} if encrypted else None}
    with lib.quiet():
        res = await r.init(password=b'pw', settings=settings)
        await r.unlock(password=b'pw', key=r.serialize(res.key) if res.key else None)
        await r.snapshot(paths=[src])
    await r.close()
    chunks = sorted(q for q in (root / 'brepo' / 'data').rglob('*') if q.is_file())
    out = []
    for pos in sorted({0, 1, len(chunks) // 5, len(chunks) // 2, len(chunks) - 2, len(chunks) - 1}):
        for kind in ('flip', 'delete'):
            victim = chunks[pos]
            original = victim.read_bytes()
            if kind == 'flip':
                victim.write_bytes(bytes([original[0] ^ 1]) + original[1:])
            else:
                victim.unlink()
            shutil.rmtree(root / 'work', ignore_errors=True)
            shutil.copytree(root / 'brepo', root / 'work')
            victim.write_bytes(original)
            st, detail = await try_restore(root, res.key, files, None, f'big_{pos}_{kind}')
            shutil.rmtree(root / f'out_big_{pos}_{kind}', ignore_errors=True)
            out.append((pos, len(chunks), kind, st, detail))
    return out


def corruptions(objects, rnd, tier):
    """yield (description, mutate(workdir)) for every object x corruption class"""
    names = sorted(objects)
    for n in names:
        data = objects[n]
        ln = len(data)
        offsets = sorted({0, 1, min(11, ln - 1), min(12, ln - 1), ln // 2, ln - 17 if ln > 17 else 0, ln - 1})
        for off in offsets:
            if 0 <= off < ln:
                yield f'flip {n} @{off}', lambda w, n=n, off=off: (w / n).write_bytes(data_flip(objects[n], off))
        for cut in sorted({0, 1, ln // 2, ln - 1}):
            if 0 <= cut < ln:
                yield f'truncate {n} to {cut}', lambda w, n=n, cut=cut: (w / n).write_bytes(objects[n][:cut])
        yield f'append to {n}', lambda w, n=n: (w / n).write_bytes(objects[n] + b'\x00extra')
        if n.startswith('data/'):
            # (a removed SNAPSHOT object cannot be noticed: restore then works from the remaining snapshots)
            yield f'delete {n}', lambda w, n=n: (w / n).unlink()
    same_area = lambda a, b: a.split('/')[0] == b.split('/')[0]
    pairs = [(a, b) for a in names for b in names if a < b and same_area(a, b)]
    rnd.shuffle(pairs)
    for a, b in pairs[: (40 if tier == 'thorough' else 12)]:
        yield f'swap {a} <-> {b}', lambda w, a=a, b=b: ((w / a).write_bytes(objects[b]), (w / b).write_bytes(objects[a]))
        yield f'replay {b} under {a}', lambda w, a=a, b=b: (w / a).write_bytes(objects[b])


def data_flip(d, off):
    b = bytearray(d)
    b[off] ^= 0x10
    return bytes(b)


def main():
    payload = lib.read_payload()
    tier, seed = payload.get('tier', 'quick'), int(payload.get('seed', 0))
    rnd = random.Random(seed)
    import time
    time.sleep = lambda s: None          # no real back-off delays: time is not part of the oracle
    failures, samples, cases, outcomes = [], [], 0, {'raised': 0, 'ok': 0}
    for encrypted in (False, True):
        with lib.scratch('vf_c04_') as root:
            key, files = asyncio.run(build(root, encrypted))
            repo = root / 'repo'
            objects = {str(p.relative_to(repo)): p.read_bytes() for p in repo.rglob('*') if p.is_file() and p.name != 'config'}
            cs = list(corruptions(objects, rnd, tier))
            if tier != 'thorough':
                cs = cs[::3]
            for i, (desc, mutate) in enumerate(cs):
                for cache_state in (('none',) if i % 4 else ('none', 'warm', 'truncated')):
                    cases += 1
                    work = root / 'work'
                    shutil.rmtree(work, ignore_errors=True)
                    shutil.copytree(repo, work)
                    cache = None
                    if cache_state != 'none':
                        cache = root / f'cache_{i}_{cache_state}'
                        st, _ = asyncio.run(try_restore(root, key, files, cache, f'warm{i}'))
                        if cache_state == 'truncated':
                            for p in cache.rglob('*'):
                                if p.is_file():
                                    p.write_bytes(p.read_bytes()[: p.stat().st_size // 2])
                    mutate(work)
                    st, detail = asyncio.run(try_restore(root, key, files, cache, f'{i}_{cache_state}'))
                    shutil.rmtree(root / f'out_{i}_{cache_state}', ignore_errors=True)
                    if st == 'WRONG':
                        failures.append({'id': f'corrupt{cases}', 'class': None, 'case': {'encrypted': encrypted, 'corruption': desc, 'cache': cache_state},
                                         'detail': dict(detail, problem='restore reported success but wrote different content')})
                    else:
                        outcomes[st] += 1
                    if len(samples) < 3:
                        samples.append({'encrypted': encrypted, 'corruption': desc, 'cache': cache_state, 'outcome': st})
                    if cache_state == 'none' and i % 7 == 0:
                        # what the USER sees: the process status of `replicat restore` on the same damaged repository
                        cases += 1
                        key_file = None
                        if key is not None:
                            key_file = root / 'key.json'
                            key_file.write_bytes(Repository(Local(root / 'work'), concurrent=1, quiet=True, cache_directory=None).serialize(key))
                        st2, detail2 = cli_restore(root, key_file, files, f'{i}')
                        shutil.rmtree(root / f'cliout_{i}', ignore_errors=True)
                        if st2 == 'WRONG':
                            failures.append({'id': f'cli_corrupt{cases}', 'class': None, 'case': {'encrypted': encrypted, 'corruption': desc, 'via': 'command line'},
                                             'detail': dict(detail2, problem='the command exited with status 0 (success) but the content differs')})
                        else:
                            outcomes[{'failed': 'raised', 'ok': 'ok'}[st2]] += 1
    for encrypted in (False, True):
        with lib.scratch('vf_c04b_') as root:
            try:
                rows = asyncio.run(big_restore_cases(root, encrypted))
            except Exception as e:
                import traceback
                rows = []
                failures.append({'id': f'big_{int(encrypted)}', 'class': None, 'case': {'encrypted': encrypted}, 'detail': {'problem': 'harness exception', 'tb': traceback.format_exc()[-500:]}})
            for pos, n, kind, st, detail in rows:
                cases += 1
                if st == 'WRONG':
                    failures.append({'id': f'big_{int(encrypted)}_{pos}_{kind}', 'class': None, 'case': {'encrypted': encrypted, 'chunk': pos, 'of': n, 'corruption': kind},
                                     'detail': dict(detail, problem='restore reported success but wrote different content')})
                else:
                    outcomes[st] += 1
    with lib.scratch('vf_c04l_') as root:
        try:
            rows = asyncio.run(large_chunk_cases(root))
        except Exception as e:
            import traceback
            rows = []
            failures.append({'id': 'large_chunks', 'class': None, 'case': {}, 'detail': {'problem': 'harness exception', 'tb': traceback.format_exc()[-500:]}})
        for hashing, ci, size, kind, st, detail in rows:
            cases += 1
            if st == 'WRONG':
                failures.append({'id': f'large_{(hashing or {}).get("name", "default")}_{ci}_{kind}', 'class': None, 'case': {'hashing': hashing, 'chunk_size': size, 'corruption': kind, 'encrypted': False},
                                 'detail': dict(detail, problem='restore reported success but wrote different content')})
            else:
                outcomes[st] += 1
    lib.emit({'status': 'ok', 'cases': cases, 'distinct': cases, 'failures': failures[:10], 'samples': samples, 'outcomes': outcomes,
              'exhaustive': False, 'reproduced': bool(failures)})


if __name__ == '__main__':
    main()
