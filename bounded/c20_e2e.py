"""C20.e2e.window - bounded stand-in: the four rate-limited COMMANDS (snapshot, restore, upload-objects,
download-objects) on a recording backend, under a virtual clock.

`replicat.utils.time` is replaced by a clock whose sleep() adds to the clock.  With concurrency 1 that clock is
exact (one transfer at a time); with N > 1 sleeps of different threads overlap in reality but add up here, so
measured time is an OVER-estimate and the measured rate an under-estimate: a case flagged here is a real
excess, a clean run with N > 1 is weaker evidence (stated in the evidence).  The backend is the real local adapter; every read from / write to the
stream the command hands it is recorded with its virtual instant (so a backend that ignores the chunk size the command
passes shows up as over-sized requests).

Oracle (C20, with the premise that the COMMANDS choose request sizes <= L/4): for every window of recorded transfers
        bytes <= L*T + L*PAUSE_LIMIT + N*L/4
and the data that arrives equals the data that was sent.
Bound: L in {4096, 40000} B/s, N in {1, 2, 3}, ~12 virtual seconds of payload per command, objects/chunks of 3/4 L
(so tails of L/4 ... 3/4 L occur), unencrypted and encrypted."""
import asyncio
import io
import os
import random
import sys
import threading

sys.path.insert(0, os.path.dirname(os.path.abspath(__file__)))
import lib  # noqa: E402
from replicat import utils  # noqa: E402
from replicat.backends.local import Local  # noqa: E402
from replicat.repository import Repository  # noqa: E402


class Clock:
    def __init__(self):
        self.now = 0.0
        self.lock = threading.Lock()

    def perf_counter(self):
        return self.now

    def sleep(self, s):
        with self.lock:
            self.now += max(float(s), 0.0)


class FakeModule:
    def __init__(self, real, **over):
        self._real = real
        self.__dict__.update(over)

    def __getattr__(self, name):
        return getattr(self._real, name)


class Proxy:
    """the stream a command hands to the backend, with every read / write of the BACKEND on it recorded"""

    def __init__(self, inner, record):
        self._inner, self._record = inner, record

    def read(self, n=-1):
        data = self._inner.read(n)
        if data:
            self._record(len(data))
        return data

    def write(self, b):
        k = self._inner.write(b)
        if len(b):
            self._record(len(b))
        return k

    def __getattr__(self, name):
        return getattr(self._inner, name)


class Recording(Local):
    """the REAL local adapter: its own upload_stream / download_stream move the payload (in the pieces IT chooses from the
    chunk size the command passes); only the stream object is wrapped to see those pieces"""

    def __init__(self, path, clock, events):
        super().__init__(path)
        self.clock, self.events = clock, events
        self.sizes = set()

    def _rec(self, n):
        self.events.append((self.clock.now, n))
        self.sizes.add(n)

    def upload_stream(self, name, stream, length, chunk_size=128_000):
        return super().upload_stream(name, Proxy(stream, self._rec), length, chunk_size)

    def download_stream(self, name, stream, chunk_size=128_000):
        return super().download_stream(name, Proxy(stream, self._rec), chunk_size)


def worst_window(events, L, burst):
    events = sorted(events)
    total, best_lo, worst = 0, None, None
    for j, (t, k) in enumerate(events):
        lo = total - L * t
        if best_lo is None or lo < best_lo[0]:
            best_lo = (lo, t)
        total += k
        over = (total - L * t) - best_lo[0] - burst
        if worst is None or over > worst[0]:
            worst = (over, best_lo[1], t, total)
    return worst


async def scenario(root, case):
    L, n, enc = case['limit'], case['concurrent'], case['encrypted']
    clock = Clock()
    real_time = utils.time
    utils.time = FakeModule(real_time, perf_counter=clock.perf_counter, sleep=clock.sleep)
    problems = []
    try:
        piece = (3 * L) // 4
        count = max(int(12 * L / piece), 4)
        src = root / 'src'
        src.mkdir()
        files = {}
        for i in range(count):
            p = src / f'obj{i:02d}'
            p.write_bytes(lib.content(case['seed'] + i, piece))
            files[p] = p.read_bytes()
        burst = L * utils.RateLimitedIO.PAUSE_LIMIT + n * (L // 4)

        def check(what, events):
            w = worst_window(events, L, burst)
            if w and w[0] > 1e-6:
                over, t0, t1, _ = w
                problems.append({'problem': f'{what}: a window exceeds L*T + burst', 'from_s': round(t0, 3), 'to_s': round(t1, 3),
                                 'bytes': int(over + burst + L * (t1 - t0)), 'allowed': int(burst + L * (t1 - t0)),
                                 'request_sizes_seen': sorted(be.sizes)[-3:]})

        events = []
        be = Recording(root / 'repo', clock, events)
        r = Repository(be, concurrent=n, quiet=True, cache_directory=None)
        with lib.quiet():
            await r.init(password=b'pw' if enc else None,
                         settings={'encryption': {'kdf': dict(lib.FAST_KDF)} if enc else None, 'chunking': {'min_length': piece, 'max_length': piece}})
            events.clear()
            await r.snapshot(paths=[src], rate_limit=L)
            check('snapshot', list(events))
            events.clear()
            await r.restore(path=root / 'out', rate_limit=L)
            check('restore', list(events))
            for p, v in files.items():
                rp = lib.restored_path(root / 'out', str(p.resolve()))
                if not rp.exists() or rp.read_bytes() != v:
                    problems.append({'problem': 'restore through the limiter changed the data', 'file': p.name})
                    break
            events.clear()
            cwd = os.getcwd()
            os.chdir(root)
            try:
                await r.upload_objects([src], rate_limit=L)
                check('upload-objects', list(events))
                for p, v in files.items():
                    if be.download(f'src/{p.name}') != v:
                        problems.append({'problem': 'upload-objects through the limiter changed the data', 'file': p.name})
                        break
                events.clear()
                await r.download_objects(path=root / 'dl', object_regex='^src/', rate_limit=L)
                check('download-objects', list(events))
                for p, v in files.items():
                    got = root / 'dl' / 'src' / p.name
                    if not got.exists() or got.read_bytes() != v:
                        problems.append({'problem': 'download-objects through the limiter changed the data', 'file': p.name})
                        break
            finally:
                os.chdir(cwd)
        await r.close()
    finally:
        utils.time = real_time
    return problems


def transparency(seed, n_sequences):
    """the limiter never alters the bytes, and seek / truncate / tell through it act on the underlying stream: random sequences of
    read / write / seek / tell / truncate (explicit sizes incl. 0, and no size) on a wrapped BytesIO against a plain BytesIO"""
    problems = []
    clock = Clock()
    real_time = utils.time
    utils.time = FakeModule(real_time, perf_counter=clock.perf_counter, sleep=clock.sleep)
    try:
        for q in range(n_sequences):
            rnd = random.Random(seed * 7919 + q)
            initial = rnd.randbytes(rnd.choice([0, 10, 100]))
            plain, inner = io.BytesIO(initial), io.BytesIO(initial)
            limited = utils.RateLimitedIO(rnd.choice([1000, 10 ** 6])).wrap(inner)
            trace = []
            for step in range(12):
                op = rnd.choice(['read', 'write', 'seek', 'tell', 'truncate', 'truncate_here'])
                if op == 'read':
                    n = rnd.choice([1, 3, 50, 250])
                    a, b = plain.read(n), limited.read(n)
                elif op == 'write':
                    data = rnd.randbytes(rnd.choice([1, 2, 40]))
                    a, b = plain.write(data), limited.write(data)
                elif op == 'seek':
                    pos = rnd.choice([0, 1, 5, 60])
                    a, b = plain.seek(pos), limited.seek(pos)
                elif op == 'tell':
                    a, b = plain.tell(), limited.tell()
                elif op == 'truncate':
                    size = rnd.choice([0, 0, 1, 7, 80])
                    a, b = plain.truncate(size), limited.truncate(size)
                    op = f'truncate({size})'
                else:
                    a, b = plain.truncate(), limited.truncate()
                trace.append(op)
                if a != b or plain.getvalue() != inner.getvalue() or plain.tell() != inner.tell():
                    problems.append({'problem': 'the wrapped stream behaves differently from the plain one', 'sequence': q, 'operations': trace[-6:],
                                     'returned': [repr(a)[:40], repr(b)[:40]], 'contents_equal': plain.getvalue() == inner.getvalue(),
                                     'positions': [plain.tell(), inner.tell()]})
                    break
            if len(problems) >= 3:
                break
    finally:
        utils.time = real_time
    return problems


def main():
    payload = lib.read_payload()
    tier, seed = payload.get('tier', 'quick'), int(payload.get('seed', 0))
    only = payload.get('only_case')
    if only:
        cases = [only]
    else:
        cases = [{'limit': L, 'concurrent': n, 'encrypted': enc, 'seed': seed}
                 for L in ((4096, 40000) if tier == 'thorough' else (4096,)) for n in (1, 2, 3) for enc in ((False, True) if tier == 'thorough' else (False,))]
    failures, samples = [], []
    # the limit itself: every documented spelling of a rate means the number of BYTES per second it says (SI and binary
    # prefixes in either case, B = bytes, b = bits), recomputed with exact fractions
    from fractions import Fraction
    n_units = 0
    for value in ('1', '7', '2.5', '.5', '10.', '1000', '0.001') if not only else ():
        for prefix, mult in (('', 1), ('k', 1000), ('K', 1000), ('Ki', 1024), ('ki', 1024), ('M', 1000 ** 2), ('m', 1000 ** 2), ('Mi', 1024 ** 2),
                             ('mi', 1024 ** 2), ('G', 1000 ** 3), ('g', 1000 ** 3), ('Gi', 1024 ** 3), ('gi', 1024 ** 3)):
            for unit, um in (('', Fraction(1)), ('B', Fraction(1)), ('b', Fraction(1, 8))):
                for space in ('', ' '):
                    text = f'{value}{space}{prefix}{unit}'
                    if value.endswith('.'):
                        continue          # '10.' is not a documented spelling
                    want = int(Fraction(value if not value.startswith('.') else '0' + value) * mult * um)
                    n_units += 1
                    try:
                        got = utils.human_to_bytes(text)
                    except Exception as e:
                        got = f'{type(e).__name__}'
                    if got != want:
                        failures.append({'id': f'rate_{text}', 'class': None, 'case': {'rate_text': text}, 'detail': {'parsed': got, 'means': want}})
    for i, case in enumerate(cases):
        with lib.scratch('vf_c20e_') as root:
            try:
                probs = asyncio.run(scenario(root, case))
            except Exception as e:
                import traceback
                probs = [{'problem': 'exception', 'type': type(e).__name__, 'text': str(e)[:300], 'tb': traceback.format_exc()[-600:]}]
        if probs:
            failures.append({'id': f'e2e{i}', 'class': None, 'case': case, 'detail': probs[:4]})
        samples.append(case)
    n_seq = 0
    if not only:
        n_seq = 3000 if tier == 'thorough' else 400
        for prob in transparency(seed, n_seq):
            failures.append({'id': f'transparent{prob["sequence"]}', 'class': None, 'case': {'kind': 'positioning through the wrapper', 'sequence': prob['sequence']}, 'detail': prob})
    n_units += n_seq
    lib.emit({'status': 'ok', 'cases': len(cases) * 4 + n_units, 'distinct': len(cases) * 4 + n_units, 'failures': failures[:10], 'samples': samples[:3],
              'exhaustive': False, 'reproduced': bool(failures),
              'note': 'virtual clock: exact for concurrency 1, an over-estimate of elapsed time (weaker check) for concurrency > 1'})
    sys.stdout.flush()
    os._exit(0)


if __name__ == '__main__':
    main()
