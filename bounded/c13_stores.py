"""C13.stores - bounded stand-in: the REAL S3-compatible and B2 adapters against in-memory services written from
the public API descriptions (httpx.MockTransport, no network), compared with a dict model of "a simple object
store" step by step.

Fake S3: path-style bucket; PUT/GET/HEAD/DELETE of keys; ListObjectsV2 with prefix + continuation-token, pages of
PAGE keys in UTF-8 byte order, IsTruncated/NextContinuationToken; 404 for missing keys; DELETE of a missing key = 204.
Fake B2: b2_authorize_account, b2_list_buckets, b2_get_upload_url, upload (x-bz-file-name percent-encoded),
download by name, HEAD, b2_list_file_names (prefix, startFileName, pages of PAGE, nextFileName), b2_hide_file
(400 no_such_file / already_hidden for absent names).

Histories (seeded): <= 14 operations out of upload / upload_stream / delete (also of absent names, twice) / exists /
download / download_stream / list_files(prefix) on <= 9 names that include names which are prefixes of each other,
spaces, '+', non-ASCII, '.tmp'; after EVERY operation list_files('') and list_files(p) for two prefixes are compared
with the model (each live name once, nothing else), on the same adapter object and on a fresh one."""
import asyncio
import base64
import io
import json
import os
import random
import sys
from urllib.parse import unquote, parse_qs, urlsplit

sys.path.insert(0, os.path.dirname(os.path.abspath(__file__)))
import lib  # noqa: E402
import httpx  # noqa: E402
from replicat.backends import s3c, b2  # noqa: E402

PAGE = 3
NAMES = ['data/ab/cd-0001', 'data/ab/cd-0002', 'data/ab', 'data/ab/cd-0001.tmp', 'data/zz/x y', 'data/zz/a+b', 'snapshots/ü/é-1',
         'snapshots/aa/bb', 'config']
PREFIXES = ['', 'data/', 'data/ab', 'data/ab/', 'snapshots/', 'data/zz/', 'nope/', 'config']


def xml_escape(s):
    return s.replace('&', '&amp;').replace('<', '&lt;').replace('>', '&gt;')


class FakeS3:
    def __init__(self):
        self.objects = {}
        self.requests = 0

    async def handler(self, request):
        self.requests += 1
        body = await request.aread()
        parts = urlsplit(str(request.url))
        path = unquote(request.url.raw_path.split(b'?')[0].decode('ascii'))
        assert path.startswith('/bkt'), path
        key = path[len('/bkt/'):] if path.startswith('/bkt/') else ''
        q = {k: v[0] for k, v in parse_qs(request.url.query.decode('ascii'), keep_blank_values=True).items()}
        if request.method == 'GET' and not key and q.get('list-type') == '2':
            prefix = q.get('prefix', '')
            keys = sorted((k for k in self.objects if k.startswith(prefix)), key=lambda k: k.encode())
            start = 0
            if 'continuation-token' in q:
                after = base64.urlsafe_b64decode(q['continuation-token'].encode()).decode()
                keys = [k for k in keys if k.encode() > after.encode()]
            page, rest = keys[:PAGE], keys[PAGE:]
            tok = ''
            if rest:
                tok = '<NextContinuationToken>%s</NextContinuationToken>' % base64.urlsafe_b64encode(page[-1].encode()).decode()
            contents = ''.join('<Contents><Key>%s</Key><Size>%d</Size></Contents>' % (xml_escape(k), len(self.objects[k])) for k in page)
            xml = ('<?xml version="1.0" encoding="UTF-8"?><ListBucketResult xmlns="http://s3.amazonaws.com/doc/2006-03-01/">'
                   '<Name>bkt</Name><IsTruncated>%s</IsTruncated>%s%s</ListBucketResult>' % ('true' if rest else 'false', tok, contents))
            return httpx.Response(200, content=xml.encode())
        if request.method == 'PUT':
            self.objects[key] = body
            return httpx.Response(200)
        if request.method in ('GET', 'HEAD'):
            if key not in self.objects:
                return httpx.Response(404, content=b'<Error><Code>NoSuchKey</Code></Error>')
            return httpx.Response(200, content=self.objects[key] if request.method == 'GET' else b'',
                                  headers={'content-length': str(len(self.objects[key]))} if request.method == 'GET' else {})
        if request.method == 'DELETE':
            self.objects.pop(key, None)
            return httpx.Response(204)
        return httpx.Response(400)

    def client(self):
        c = s3c.S3Compatible('bkt', key_id='AKID', access_key='secret', region='eu-test-1', host='objects.example.test')
        old = c._client
        c._client = httpx.AsyncClient(transport=httpx.MockTransport(self.handler), timeout=None,
                                      event_hooks={'response': [s3c._raise_for_status_hook]})
        return c, old


class FakeB2:
    def __init__(self):
        self.objects = {}

    async def handler(self, request):
        body = await request.aread()
        url = str(request.url)
        path = unquote(request.url.raw_path.split(b'?')[0].decode('ascii'))
        if path.endswith('/b2_authorize_account'):
            return httpx.Response(200, json={'accountId': 'acc', 'authorizationToken': 'tok', 'apiUrl': 'https://api.b2.test',
                                             'downloadUrl': 'https://dl.b2.test', 'allowed': {'bucketId': None, 'bucketName': None}})
        if path.endswith('/b2_list_buckets'):
            return httpx.Response(200, json={'buckets': [{'bucketId': 'other', 'bucketName': 'zzz'}, {'bucketId': 'bid', 'bucketName': 'bkt'}]})
        if path.endswith('/b2_get_upload_url'):
            return httpx.Response(200, json={'uploadUrl': 'https://up.b2.test/upload/bid', 'authorizationToken': 'uptok'})
        if path.startswith('/upload/'):
            name = unquote(request.headers['x-bz-file-name'])
            if int(request.headers['content-length']) != len(body):
                return httpx.Response(400, json={'code': 'bad_request', 'message': 'length'})
            self.objects[name] = body
            return httpx.Response(200, json={'fileName': name})
        if path.endswith('/b2_list_file_names'):
            p = json.loads(body)
            names = sorted((k for k in self.objects if k.startswith(p.get('prefix', ''))), key=lambda k: k.encode())
            if p.get('startFileName') is not None:
                names = [k for k in names if k.encode() >= p['startFileName'].encode()]
            n = min(PAGE, int(p.get('maxFileCount', 100)))
            page, rest = names[:n], names[n:]
            return httpx.Response(200, json={'files': [{'fileName': k, 'contentLength': len(self.objects[k])} for k in page],
                                             'nextFileName': rest[0] if rest else None})
        if path.endswith('/b2_hide_file'):
            p = json.loads(body)
            if p['fileName'] not in self.objects:
                return httpx.Response(400, json={'code': 'no_such_file', 'message': 'File not present', 'status': 400})
            del self.objects[p['fileName']]
            return httpx.Response(200, json={'fileName': p['fileName'], 'action': 'hide'})
        if path.startswith('/file/bkt/'):
            name = path[len('/file/bkt/'):]
            if name not in self.objects:
                return httpx.Response(404, json={'code': 'not_found', 'message': 'x', 'status': 404})
            data = self.objects[name]
            return httpx.Response(200, content=data if request.method == 'GET' else b'', headers={'content-length': str(len(data))} if request.method == 'GET' else {})
        return httpx.Response(400, json={'code': 'bad_request', 'message': path})

    def client(self):
        c = b2.B2('bkt', key_id='kid', application_key='akey')
        old = c._client
        c._client = httpx.AsyncClient(transport=httpx.MockTransport(self.handler), timeout=None,
                                      event_hooks={'response': [b2._raise_for_status_hook]})
        return c, old


import inspect


async def call(fn, *a):
    r = fn(*a)
    if inspect.isawaitable(r):
        r = await r
    return r


async def listing(c, prefix):
    r = c.list_files(prefix)
    if hasattr(r, '__aiter__'):
        return [k async for k in r]
    return list(r)


class LocalStore:
    """the local adapter on a scratch directory; `objects` = what is really on disk (read back, not via the adapter)"""

    def __init__(self, root):
        self.root = root

    @property
    def objects(self):
        out = {}
        for dirpath, _, files in os.walk(self.root):
            for f in files:
                p = os.path.join(dirpath, f)
                out[os.path.relpath(p, self.root).replace(os.sep, '/')] = open(p, 'rb').read()
        return out

    def client(self):
        from replicat.backends.local import Local

        class _C(Local):
            async def close(self_):
                pass
        return _C(self.root), None


async def history(kind, rnd, n_ops, with_tmp=True):
    scratch = None
    if kind == 'local':
        import tempfile
        scratch = tempfile.mkdtemp(prefix='vf_c13s_')
        svc = LocalStore(os.path.join(scratch, 'repo'))
    else:
        svc = FakeS3() if kind == 's3' else FakeB2()
    c, old = svc.client()
    if old is not None:
        await old.aclose()
    model = {}
    problems = []
    trace = []

    async def compare(where, client):
        for prefix in [''] + rnd.sample(PREFIXES[1:], 2):
            got = await listing(client, prefix)
            want = sorted(k for k in model if k.startswith(prefix))
            if sorted(got) != want or len(got) != len(set(got)):
                problems.append({'problem': f'list_files({prefix!r}) differs from the store ({where})', 'got': got[:12], 'want': want[:12], 'after': trace[-3:]})
                return False
        return True

    try:
        for step in range(n_ops):
            op = rnd.choice(['upload', 'upload', 'upload_stream', 'delete', 'delete_absent', 'exists', 'download', 'download_stream', 'list'])
            # local: no object named like a directory; '.tmp' names (known finding D10) only in the first history of a run
            name = rnd.choice(NAMES if kind != 'local' else [n_ for n_ in NAMES if n_ != 'data/ab' and (with_tmp or not n_.endswith('.tmp'))])
            data = lib.content(step + 17, rnd.choice([0, 1, 50, 2500]))
            trace.append((op, name))
            if op == 'upload':
                await call(c.upload, name, data)
                model[name] = data
            elif op == 'upload_stream':
                await call(c.upload_stream, name, io.BytesIO(data), len(data), 1000)
                model[name] = data
            elif op == 'delete':
                await call(c.delete, name)
                model.pop(name, None)
            elif op == 'delete_absent':
                absent = [n for n in NAMES if n not in model and not (kind == 'local' and (n == 'data/ab' or (n.endswith('.tmp') and not with_tmp)))] or [name]
                a = rnd.choice(absent)
                model.pop(a, None)
                await call(c.delete, a)
                await call(c.delete, a)
            elif op == 'exists':
                r = await call(c.exists, name)
                if bool(r) != (name in model):
                    problems.append({'problem': f'exists({name!r}) = {r}', 'stored': name in model})
            elif op in ('download', 'download_stream') and name in model:
                if op == 'download':
                    got = await call(c.download, name)
                else:
                    sink = io.BytesIO(b'stale-bytes-from-an-earlier-attempt' * 100)
                    await call(c.download_stream, name, sink, 1000)
                    got = sink.getvalue()
                if got != model[name]:
                    problems.append({'problem': f'{op}({name!r}) returned different bytes', 'got': len(got), 'want': len(model[name])})
            if dict(svc.objects) != model:
                problems.append({'problem': f'{op}({name!r}): the service holds something else than the model', 'after': trace[-3:]})
                break
            if not await compare('same adapter object', c):
                break
            if step % 4 == 3:
                c2, old2 = svc.client()
                if old2 is not None:
                    await old2.aclose()
                ok = await compare('fresh adapter object', c2)
                await c2.close()
                if not ok:
                    break
    finally:
        await c.close()
        if scratch:
            import shutil
            shutil.rmtree(scratch, ignore_errors=True)
    return problems


def main():
    payload = lib.read_payload()
    tier, seed = payload.get('tier', 'quick'), int(payload.get('seed', 0))
    only = payload.get('only_case')
    n_hist = 40 if tier == 'thorough' else 6
    cases = [only] if only else [{'service': k, 'seed': seed * 100 + i, 'ops': 14, 'tmp_names': k != 'local' or i == 0} for k in ('s3', 'b2', 'local') for i in range(n_hist)]
    failures, samples = [], []
    lib.patch_sleep()
    for idx, case in enumerate(cases):
        rnd = random.Random(case['seed'])
        try:
            probs = lib.run(history(case['service'], rnd, case['ops'], with_tmp=case.get('tmp_names', True)))
        except Exception as e:
            import traceback
            probs = [{'problem': 'exception', 'type': type(e).__name__, 'text': str(e)[:300], 'tb': traceback.format_exc()[-500:]}]
        if probs:
            # names ending in '.tmp' are never listed by the LOCAL adapter (known finding D10): a local listing that differs
            # from the store only by such names belongs to that class
            cls = None
            if case['service'] == 'local' and all(p.get('problem', '').startswith('list_files') and
                                                  sorted(set(p['want']) - set(p['got'])) and all(x.endswith('.tmp') for x in set(p['want']) ^ set(p['got'])) for p in probs):
                cls = 'D10'
            failures.append({'id': f'{case["service"]}{idx}', 'class': cls, 'case': case, 'detail': probs[:3]})
        if len(samples) < 3:
            samples.append(case)
    lib.emit({'status': 'ok', 'cases': len(cases), 'distinct': len(cases), 'failures': failures[:10], 'samples': samples,
              'exhaustive': False, 'reproduced': bool(failures)})


if __name__ == '__main__':
    main()
