"""C09.sched - bounded stand-in: snapshot and restore under perturbed scheduling.
A wrapper backend delays every call by a seeded random amount (sync backend: time.sleep in the executor threads;
async backend: asyncio.sleep), which permutes completion orders; the restore lock is replaced by a lock that
yields the GIL on release.  Checked: the restored tree equals the sequential (concurrent=1) run, no spurious
error, outstanding transfers never exceed the configured concurrency, all slots are free afterwards (also after an
injected permanent failure).  Bound: 3 file sets x N in {1,2,3} x {sync, async} x 2 (thorough: 6) seeds."""
import asyncio
import os
import random
import sys
import threading
import time
from pathlib import Path

sys.path.insert(0, os.path.dirname(os.path.abspath(__file__)))
import lib  # noqa: E402
from replicat.backends.local import Local  # noqa: E402
from replicat.repository import Repository  # noqa: E402
import replicat.repository as repomod  # noqa: E402


class Jitter:
    """wraps Local; counts outstanding transfers (exists/upload/download/delete; listing is not a transfer)"""
    TRANSFERS = ('exists', 'upload', 'upload_stream', 'download', 'download_stream', 'delete')

    def __init__(self, inner, rnd, use_async, fail_on=None, slow_download=0.0, fail_download=None):
        self.inner, self.rnd, self.use_async = inner, rnd, use_async
        self.fail_download, self.downloads = fail_download, 0          # the k-th download_stream (1-based) fails, a little later than its siblings start
        self.slow_download = slow_download
        self.lock = threading.Lock()
        self.outstanding = 0
        self.max_outstanding = 0
        self.calls = 0
        self.fail_on = fail_on
        for name in self.TRANSFERS:
            setattr(self, name, self._wrap(name))

    def _enter(self):
        with self.lock:
            self.outstanding += 1
            self.calls += 1
            self.max_outstanding = max(self.max_outstanding, self.outstanding)
            n = self.calls
            delay = self.rnd.random() * 0.004
        return n, delay

    def _delay_for(self, name, delay):
        return self.slow_download if (self.slow_download and name == 'download_stream') else delay

    def _exit(self):
        with self.lock:
            self.outstanding -= 1

    def _wrap(self, name):
        fn = getattr(self.inner, name)
        if self.use_async:
            async def call(*a, **k):
                n, delay = self._enter()
                try:
                    await asyncio.sleep(self._delay_for(name, delay))
                    if self.fail_on is not None and n >= self.fail_on and name in ('upload_stream', 'download_stream'):
                        raise OSError('injected permanent failure')
                    if name == 'download_stream' and self.fail_download is not None:
                        with self.lock:
                            self.downloads += 1
                            k = self.downloads
                        if k == self.fail_download:
                            await asyncio.sleep(0.05)
                            raise OSError('injected permanent failure of one download')
                        await asyncio.sleep(0.2)          # the siblings hold their slots while the failure happens
                    return fn(*a, **k)
                finally:
                    self._exit()
        else:
            def call(*a, **k):
                n, delay = self._enter()
                try:
                    time.sleep(self._delay_for(name, delay))
                    if self.fail_on is not None and n >= self.fail_on and name in ('upload_stream', 'download_stream'):
                        raise OSError('injected permanent failure')
                    if name == 'download_stream' and self.fail_download is not None:
                        with self.lock:
                            self.downloads += 1
                            k = self.downloads
                        if k == self.fail_download:
                            time.sleep(0.05)
                            raise OSError('injected permanent failure of one download')
                        time.sleep(0.2)                   # the siblings hold their slots while the failure happens
                    return fn(*a, **k)
                finally:
                    self._exit()
        return call

    def list_files(self, prefix=''):
        return self.inner.list_files(prefix)

    def clean(self):
        return self.inner.clean()

    def close(self):
        pass


class YieldingLock:
    def __init__(self):
        self._l = threading.Lock()

    def __enter__(self):
        self._l.acquire()
        return self

    def __exit__(self, *a):
        self._l.release()
        time.sleep(0)

    def acquire(self, *a, **k):
        return self._l.acquire(*a, **k)

    def release(self):
        self._l.release()
        time.sleep(0)

    def locked(self):
        return self._l.locked()


class ThreadingShim:
    Lock = YieldingLock
    Event = threading.Event


CASE_TIMEOUT_S = 45
ON_HANG = None
FILESETS = [[0, 5, 64, 130, 7], [300, 300, 300], [16, 16, 16, 16, 16, 16, 1000]]


class Watchdog:
    """a command that blocks the EVENT LOOP THREAD itself (so that asyncio.wait_for can never fire) is still a hang: a timer thread
    reports it"""

    def __enter__(self):
        self.t = threading.Timer(CASE_TIMEOUT_S + 15, lambda: ON_HANG([{'problem': f'command blocked the event loop for more than {CASE_TIMEOUT_S + 15} s '
                                                                                   '(normal duration: well under a second)', 'hang': True, 'loop_blocked': True}]))
        self.t.daemon = True
        self.t.start()
        return self

    def __exit__(self, *a):
        self.t.cancel()


async def run_case(base, sizes, n, use_async, seed, fail_on=None, identical=False, slow_download=0.0, fail_download=None):
    d = base / f'case_{len(sizes)}_{n}_{int(use_async)}_{seed}_{fail_on}_{slow_download}_{fail_download}'
    (d / 'src').mkdir(parents=True)
    files = {}
    for i, sz in enumerate(sizes):
        p = d / 'src' / f'f{i}'
        p.write_bytes(lib.content(7 if identical else i + seed, sz))
        files[str(p.resolve())] = p.read_bytes()
    rnd = random.Random(seed)
    backend = Jitter(Local(d / 'repo'), rnd, use_async, fail_on, slow_download, fail_download)
    if fail_download is not None:
        fail_on = -1          # a failure is expected to surface
    repo = Repository(backend, concurrent=n, quiet=True, cache_directory=None)
    problems = []
    async def commands():
        await repo.init(settings={'encryption': None, 'chunking': {'min_length': 8, 'max_length': 64}})
        await repo.snapshot(paths=[d / 'src'])
        await repo.restore(path=d / 'out')

    try:
        with lib.quiet():
            # every command ends (with its result or with the backend's error) under every schedule: a command that is
            # still running after CASE_TIMEOUT_S (thousands of times its normal duration) is reported as a hang
            await asyncio.wait_for(commands(), CASE_TIMEOUT_S)
        failed = None
    except asyncio.TimeoutError:
        ON_HANG([{'problem': f'command did not terminate within {CASE_TIMEOUT_S} s (normal duration: well under a second)', 'hang': True,
                 'after_injected_failure': fail_on is not None}])
    except Exception as e:
        failed = f'{type(e).__name__}: {e}'[:200]
    if fail_on is None:
        if failed:
            problems.append({'problem': 'spurious error', 'error': failed})
        else:
            for k, v in files.items():
                rp = lib.restored_path(d / 'out', k)
                if not rp.exists() or rp.read_bytes() != v:
                    problems.append({'problem': 'restored bytes differ from the sequential result', 'file': k})
    elif failed is None:
        problems.append({'problem': 'permanent failure did not surface'})
    # workers that were still in flight when the command failed finish (or are cancelled) on their own: wait for quiescence
    for _ in range(200 if fail_download is None else 2000):
        if repo._slots.qsize() == n and backend.outstanding == 0:
            break
        await asyncio.sleep(0.01)
    if backend.max_outstanding > n:
        problems.append({'problem': f'{backend.max_outstanding} transfers outstanding with concurrency {n}'})
    if repo._slots.qsize() != n:
        problems.append({'problem': f'only {repo._slots.qsize()} of {n} slots available afterwards', 'after_failure': fail_on is not None})
    return problems


def main():
    payload = lib.read_payload()
    tier, seed = payload.get('tier', 'quick'), int(payload.get('seed', 0))
    repomod.threading = ThreadingShim          # restore's glock / flocks become yielding locks (no repo edit)
    global ON_HANG
    failures, samples, cases = [], [], 0
    seeds = range(seed, seed + (16 if tier == 'thorough' else 2))
    with lib.scratch('vf_c09_') as base:
        for sizes in FILESETS:
            for n in (1, 2, 3):
                for use_async in (False, True):
                    for sd in seeds:
                        for fail_on in (None, 6):
                            if fail_on is not None and sd != seed:
                                continue
                            cases += 1
                            case = {'sizes': sizes, 'concurrent': n, 'async_backend': use_async, 'seed': sd, 'fail_on_call': fail_on}
                            def on_hang(probs, case=case):
                                # threads of the hung command never end (asyncio.run would wait for them): report and leave
                                failures.append({'id': f'sched{cases}', 'class': None, 'case': case, 'detail': probs})
                                lib.emit({'status': 'ok', 'cases': cases, 'distinct': cases, 'failures': failures[:10], 'samples': samples,
                                          'exhaustive': False, 'reproduced': True, 'stopped_after_hang': True})
                                sys.stdout.flush()
                                os._exit(0)
                            ON_HANG = on_hang
                            try:
                                with Watchdog():
                                    probs = asyncio.run(run_case(base, sizes, n, use_async, sd, fail_on, identical=(sizes == FILESETS[1])))
                            except Exception as e:
                                probs = [{'problem': 'harness exception', 'error': f'{type(e).__name__}: {e}'[:300]}]
                            if probs:
                                failures.append({'id': f'sched{cases}', 'class': None, 'case': case, 'detail': probs[:3]})
                            if len(samples) < 3:
                                samples.append(case)
        # a SLOW backend (each download takes longer than any polling interval a waiter might use) with more waiters than
        # slots: every waiter still gets its turn and the command ends with the right bytes and all slots back
        for use_async in (False, True):
            cases += 1
            case = {'sizes': [200], 'concurrent': 1, 'async_backend': use_async, 'seed': seed, 'slow_download_s': 1.15}

            def on_hang2(probs, case=case):
                failures.append({'id': f'slow{int(use_async)}', 'class': None, 'case': case, 'detail': probs})
                lib.emit({'status': 'ok', 'cases': cases, 'distinct': cases, 'failures': failures[:10], 'samples': samples,
                          'exhaustive': False, 'reproduced': True, 'stopped_after_hang': True})
                sys.stdout.flush()
                os._exit(0)
            ON_HANG = on_hang2
            try:
                with Watchdog():
                    probs = asyncio.run(run_case(base, [200], 1, use_async, seed, None, slow_download=1.15))
            except Exception as e:
                probs = [{'problem': 'harness exception', 'error': f'{type(e).__name__}: {e}'[:300]}]
            if probs:
                failures.append({'id': f'slow{int(use_async)}', 'class': None, 'case': case, 'detail': probs[:3]})
        # ONE download of a restore fails while its siblings are in flight and further loaders wait for a slot: restore must end with
        # that error (not hang, not succeed) and give every slot back
        for use_async in (False, True):
            for n in (1, 2):
                cases += 1
                case = {'sizes': [300, 200], 'concurrent': n, 'async_backend': use_async, 'seed': seed, 'failing_download': 1}

                def on_hang3(probs, case=case):
                    failures.append({'id': f'dlfail{int(use_async)}_{n}', 'class': None, 'case': case, 'detail': probs})
                    lib.emit({'status': 'ok', 'cases': cases, 'distinct': cases, 'failures': failures[:10], 'samples': samples,
                              'exhaustive': False, 'reproduced': True, 'stopped_after_hang': True})
                    sys.stdout.flush()
                    os._exit(0)
                ON_HANG = on_hang3
                try:
                    with Watchdog():
                        probs = asyncio.run(run_case(base, [300, 200], n, use_async, seed, None, fail_download=1))
                except Exception as e:
                    probs = [{'problem': 'harness exception', 'error': f'{type(e).__name__}: {e}'[:300]}]
                if probs:
                    failures.append({'id': f'dlfail{int(use_async)}_{n}', 'class': None, 'case': case, 'detail': probs[:3]})
    # a restore that fails because SEVERAL downloads fail (half of the chunks are gone), run as a process of its own: the error comes out
    # AND the process ends.  Known finding D20: a loader thread that asked the (already closed) loop for a slot waits for ever and the
    # interpreter cannot exit
    import subprocess
    demo = os.path.join(os.path.dirname(os.path.dirname(os.path.abspath(__file__))), 'selftest', 'findings', 'D20_demo.py')
    tree = os.environ.get('REPO', '/repo')
    hung = 0
    for attempt in range(2 if tier == 'quick' else 5):
        cases += 1
        try:
            r = subprocess.run([sys.executable, demo, '5', '60'], cwd=tree, capture_output=True, text=True, timeout=12,
                               env=dict(os.environ, PYTHONPATH=tree))
            if r.returncode == 0 or 'FileNotFoundError' not in (r.stdout + r.stderr):
                failures.append({'id': 'failed_restore_outcome', 'class': None, 'case': {'missing_chunks': 'every second chunk'},
                                 'detail': [{'problem': 'a restore with missing chunks did not end with the error', 'exit': r.returncode, 'tail': (r.stdout + r.stderr)[-300:]}]})
                break
        except subprocess.TimeoutExpired:
            hung += 1
    if hung:
        failures.append({'id': 'failed_restore_process_exit', 'class': 'D20', 'case': {'missing_chunks': 'every second chunk', 'concurrent': 5, 'files': 60},
                         'detail': [{'problem': 'the process of a failed restore did not exit within 12 s (a run that ends takes about 2 s)', 'runs_that_hung': hung}]})
    lib.emit({'status': 'ok', 'cases': cases, 'distinct': cases, 'failures': failures[:10], 'samples': samples,
              'exhaustive': False, 'reproduced': bool(failures)})


if __name__ == '__main__':
    main()
