"""C12.faults - bounded fault-injection stand-in on the real adapters.
Bound: payloads of 0, 1, 2.5 and 4 stream chunks (chunk = 1000 bytes); one fault position per stream chunk
boundary; fault kinds {OSError on the payload stream, transport ReadError, 500, 429 with retry-after, 401 (B2)};
1..max_tries-1 consecutive faults (must be masked) and persistent faults (must end in an error after a bounded
number of attempts).  backoff/asyncio sleeps are patched out (time is not part of the oracle)."""
import asyncio
import io
import os
import random
import sys
import time

sys.path.insert(0, os.path.dirname(os.path.abspath(__file__)))
import lib  # noqa: E402
import httpx  # noqa: E402
import backoff  # noqa: E402
from replicat.backends import s3c, b2, local  # noqa: E402
from replicat import exceptions  # noqa: E402

CHUNK = 1000


class FaultyStream(io.BytesIO):
    """payload stream whose read() raises OSError on chosen call numbers (once each)"""

    def __init__(self, data, fail_on_calls):
        super().__init__(data)
        self.calls = 0
        self.fail_on = set(fail_on_calls)

    def read(self, n=-1):
        self.calls += 1
        if self.calls in self.fail_on:
            self.fail_on.discard(self.calls)
            raise OSError('injected read fault')
        return super().read(n)


def local_cases(base, rnd, problems):
    n = 0
    be = local.Local(str(base / 'lrepo'))
    for size in (0, 1, 2500, 4000):
        data = lib.content(size + 7, size)
        for k in range(1, 5):                       # faults on the k first attempts (max_tries = 5)
            # the first read of each attempt fails: calls 1, 2, ... (each failed attempt makes exactly one call)
            s = FaultyStream(data, fail_on_calls=range(1, k + 1))
            n += 1
            try:
                be.upload_stream('obj', s, len(data), CHUNK)
            except OSError:
                problems.append({'backend': 'local', 'op': 'upload_stream', 'faults': k, 'problem': 'transient faults not masked'})
                continue
            if be.download('obj') != data:
                problems.append({'backend': 'local', 'op': 'upload_stream', 'faults': k, 'size': size, 'problem': 'stored bytes differ'})
        # mid-transfer fault: second read of the first attempt
        if size > CHUNK:
            s = FaultyStream(data, fail_on_calls=[2])
            n += 1
            be.upload_stream('obj2', s, len(data), CHUNK)
            if be.download('obj2') != data:
                problems.append({'backend': 'local', 'op': 'upload_stream', 'fault': 'mid-transfer', 'size': size,
                                 'problem': 'stored bytes differ (stream not rewound?)', 'got': len(be.download('obj2'))})
        # persistent fault: bounded number of attempts
        s = FaultyStream(data, fail_on_calls=range(1, 1000))
        n += 1
        try:
            be.upload_stream('obj3', s, len(data), CHUNK)
            problems.append({'backend': 'local', 'problem': 'persistent fault did not surface'})
        except OSError:
            if s.calls > 5:
                problems.append({'backend': 'local', 'problem': f'{s.calls} attempts > max_tries'})
        if be.exists('obj3') or [x for x in be.list_files('') if 'obj3' in x]:
            problems.append({'backend': 'local', 'problem': 'half-written object visible after persistent failure'})
        # a fault AFTER the last byte was copied: the rename of the temporary (EBUSY / a Windows PermissionError) or the close
        # (ENOSPC on flush) fails once or twice; the retry must store the whole payload again
        import pathlib
        import errno as _errno
        for where in ('rename', 'close'):
            for k in (1, 2):
                left = {'n': k}
                real_replace = pathlib.Path.replace
                real_open = pathlib.Path.open

                def replace(self, target, left=left):
                    if where == 'rename' and left['n'] > 0 and str(target).endswith('obj4'):
                        left['n'] -= 1
                        raise OSError(_errno.EBUSY, 'Device or resource busy')
                    return real_replace(self, target)

                class ClosingFails:
                    def __init__(self, f):
                        self._f = f

                    def __getattr__(self, name):
                        return getattr(self._f, name)

                    def __enter__(self):
                        self._f.__enter__()
                        return self

                    def __exit__(self, *a):
                        self._f.__exit__(*a)
                        if a[0] is None and left['n'] > 0:
                            left['n'] -= 1
                            raise OSError(_errno.ENOSPC, 'No space left on device')
                        return False

                def open_(self, *a, **kw):
                    f = real_open(self, *a, **kw)
                    if where == 'close' and str(self).endswith('.tmp') and 'obj4' in str(self) and a and 'w' in a[0]:
                        return ClosingFails(f)
                    return f

                pathlib.Path.replace, pathlib.Path.open = replace, open_
                n += 1
                try:
                    be.upload('obj4', b'old contents')
                    be.upload_stream('obj4', io.BytesIO(data), len(data), CHUNK)
                    got = be.download('obj4')
                    if got != data:
                        problems.append({'backend': 'local', 'op': 'upload_stream', 'fault': f'{k} transient failure(s) of the {where} after the copy', 'size': size,
                                         'problem': 'stored bytes differ (stream not rewound?)', 'got': len(got)})
                    if [x for x in (base / 'lrepo').rglob('*.tmp')]:
                        problems.append({'backend': 'local', 'op': 'upload_stream', 'fault': f'{where} after the copy', 'problem': 'temporary left behind'})
                except OSError as e:
                    problems.append({'backend': 'local', 'op': 'upload_stream', 'fault': f'{k} transient failure(s) of the {where} after the copy', 'problem': f'not masked: {e}'})
                finally:
                    pathlib.Path.replace, pathlib.Path.open = real_replace, real_open
    return n


class Faults:
    def __init__(self, kind, count):
        self.kind, self.left, self.requests = kind, count, 0


async def s3_cases(rnd, problems):
    n = 0
    for size in (0, 1, 2500, 4000):
        data = lib.content(size + 3, size)
        for kind in ('read_error', '500', '429'):
            for count in (1, 2, 3, 99):
                for op in ('upload', 'upload_stream', 'download', 'download_stream'):
                    if count == 99 and op not in ('upload_stream', 'download_stream'):
                        continue
                    n += 1
                    store = {'k': data} if op.startswith('download') else {}
                    f = Faults(kind, count)

                    async def handler(request, f=f, store=store):
                        f.requests += 1
                        body = await request.aread()
                        if f.left > 0:
                            f.left -= 1
                            if f.kind == 'read_error':
                                raise httpx.ReadError('injected', request=request)
                            if f.kind == '500':
                                return httpx.Response(500, content=b'err')
                            return httpx.Response(429, headers={'retry-after': '0'}, content=b'slow down')
                        if request.method == 'PUT':
                            store['k'] = body
                            return httpx.Response(200)
                        return httpx.Response(200, content=store['k'])

                    c = s3c.S3Compatible('bkt', key_id='a', access_key='b', region='r', host='h.test')
                    await c._client.aclose()
                    c._client = httpx.AsyncClient(transport=httpx.MockTransport(handler), timeout=None,
                                                  event_hooks={'response': [s3c._raise_for_status_hook]})
                    out = io.BytesIO(b'stale bytes from an earlier attempt' * 200)
                    try:
                        if op == 'upload':
                            await c.upload('k', data)
                        elif op == 'upload_stream':
                            await c.upload_stream('k', io.BytesIO(data), len(data), CHUNK)
                        elif op == 'download':
                            out = io.BytesIO(await c.download('k'))
                        else:
                            await c.download_stream('k', out, CHUNK)
                        ok = True
                    except httpx.HTTPError:
                        ok = False
                    await c.close()
                    case = {'backend': 's3c', 'op': op, 'kind': kind, 'faults': count, 'size': size}
                    if count < 4:
                        if not ok:
                            problems.append(dict(case, problem='transient faults within the budget not masked'))
                        elif op.startswith('upload') and store.get('k') != data:
                            problems.append(dict(case, problem='stored bytes differ', got=len(store.get('k', b''))))
                        elif op.startswith('download') and out.getvalue() != data:
                            problems.append(dict(case, problem='downloaded bytes differ', got=len(out.getvalue())))
                    else:
                        if ok:
                            problems.append(dict(case, problem='persistent fault did not surface'))
                        if f.requests > 4:
                            problems.append(dict(case, problem=f'{f.requests} attempts > max_tries'))
    return n


async def b2_cases(rnd, problems):
    n = 0
    for size in (0, 2500):
        data = lib.content(size + 11, size)
        for kind, count in (('401', 1), ('401', 99), ('500', 1), ('500', 99), ('429', 2), ('read_error', 3)):
            for op in ('upload_stream', 'download_stream'):
                n += 1
                store = {'k': data} if op.startswith('download') else {}
                f = Faults(kind, count)
                auths = {'n': 0}

                async def handler(request, f=f, store=store, auths=auths):
                    url = str(request.url)
                    if 'b2_authorize_account' in url:
                        auths['n'] += 1
                        return httpx.Response(200, json={'apiUrl': 'https://api.test', 'downloadUrl': 'https://dl.test', 'accountId': 'acc',
                                                         'authorizationToken': f'tok{auths["n"]}', 'allowed': {'bucketId': 'bid', 'bucketName': 'bkt'}})
                    if 'b2_get_upload_url' in url:
                        return httpx.Response(200, json={'uploadUrl': 'https://up.test/upload', 'authorizationToken': 'uptok'})
                    f.requests += 1
                    body = await request.aread()
                    if f.left > 0:
                        f.left -= 1
                        if f.kind == 'read_error':
                            raise httpx.ReadError('injected', request=request)
                        if f.kind == '429':
                            return httpx.Response(429, headers={'retry-after': '0'}, content=b'{}')
                        return httpx.Response(int(f.kind), content=b'{}')
                    if 'up.test' in url:
                        store['k'] = body
                        return httpx.Response(200, json={})
                    return httpx.Response(200, content=store['k'])

                c = b2.B2('bkt', key_id='k', application_key='s')
                await c._client.aclose()
                c._client = httpx.AsyncClient(transport=httpx.MockTransport(handler), timeout=None,
                                              event_hooks={'response': [b2._raise_for_status_hook]})
                out = io.BytesIO(b'stale' * 2000)
                try:
                    if op == 'upload_stream':
                        await c.upload_stream('k', io.BytesIO(data), len(data), CHUNK)
                    else:
                        await c.download_stream('k', out, CHUNK)
                    ok = True
                except (httpx.HTTPError, exceptions.ReplicatError, RecursionError) as e:
                    ok = False
                    err = type(e).__name__
                await c.close()
                case = {'backend': 'b2', 'op': op, 'kind': kind, 'faults': count, 'size': size}
                if count < 4:
                    if not ok:
                        problems.append(dict(case, problem='transient faults within the budget not masked', error=err))
                    elif op == 'upload_stream' and store.get('k') != data:
                        problems.append(dict(case, problem='stored bytes differ'))
                    elif op == 'download_stream' and out.getvalue() != data:
                        problems.append(dict(case, problem='downloaded bytes differ', got=len(out.getvalue())))
                else:
                    if ok:
                        problems.append(dict(case, problem='persistent fault did not surface'))
                    elif err == 'RecursionError':
                        problems.append(dict(case, problem='unbounded retries (RecursionError)', requests=f.requests))
                    if f.requests > 64:
                        problems.append(dict(case, problem=f'{f.requests} attempts: not a bounded number', auths=auths['n']))
    return n


def command_level_cases(base, problems):
    """the COMMANDS on top of the adapters: a persistent upload fault while a snapshot has far more chunks to send than are in flight
    or queued must end the command with that error in bounded time (nothing may wait for ever on a queue nobody drains), and a
    transient one within the retry budget must be masked.  The fault is injected below the adapter (shutil.copyfileobj of the local
    backend writes a few bytes, then raises ENOSPC)."""
    import errno
    import shutil as _shutil
    import threading
    import replicat.backends.local as local_mod
    from replicat.repository import Repository
    from replicat.backends.local import Local
    n = 0
    for kind in ('persistent', 'transient', 'transient_rate_limited'):
        n += 1
        root = base / f'cmd_{kind}'
        (root / 'src').mkdir(parents=True)
        data = lib.content(77, 4000)
        (root / 'src' / 'f').write_bytes(data)
        budget = {'left': 10 ** 9 if kind == 'persistent' else 0}
        per_call = {}
        real_copy = _shutil.copyfileobj

        class FakeShutil:
            def __getattr__(self, name):
                return getattr(_shutil, name)

            @staticmethod
            def copyfileobj(src, dst, *a, **k):
                key = getattr(dst, 'name', id(dst))
                if kind.startswith('transient'):
                    # every object: its first two attempts fail after one block of the source has been consumed and written
                    base_name = os.path.basename(str(key))[:200]          # (the random suffix of the temporary may itself contain '_')
                    per_call[base_name] = per_call.get(base_name, 0) + 1
                    if per_call[base_name] <= 2:
                        length = k.get('length', a[0] if a else 16)
                        dst.write(src.read(min(int(length), 16)))
                        raise OSError(errno.ENOSPC, 'No space left on device')
                    return real_copy(src, dst, *a, **k)
                dst.write(b'part')
                raise OSError(errno.ENOSPC, 'No space left on device')

        outcome = {}

        async def go():
            r = Repository(Local(root / 'repo'), concurrent=2, quiet=True, cache_directory=None)
            with lib.quiet():
                await r.init(settings={'encryption': None, 'chunking': {'min_length': 8, 'max_length': 64}})
                await r.unlock()
                local_mod.shutil = FakeShutil()
                try:
                    await asyncio.wait_for(r.snapshot(paths=[root / 'src'], rate_limit=(10 ** 7 if kind.endswith('rate_limited') else None)), 40)
                    outcome['result'] = 'ok'
                except asyncio.TimeoutError:
                    outcome['result'] = 'hang'
                except Exception as e:
                    import traceback
                    outcome['result'] = f'error {type(e).__name__}'
                    outcome['tb'] = traceback.format_exc()[-700:]
                finally:
                    local_mod.shutil = _shutil
                if outcome['result'] == 'ok':
                    await r.restore(path=root / 'out')
            await r.close()

        t = threading.Thread(target=lambda: asyncio.run(go()), daemon=True)
        t.start()
        t.join(70)
        if t.is_alive() or outcome.get('result') == 'hang':
            problems.append({'level': 'command', 'fault': kind, 'problem': 'snapshot did not end within 40 s under an upload fault (normal duration: well under a second)', 'hang': True})
            return n, True
        if kind == 'persistent' and not outcome.get('result', '').startswith('error'):
            problems.append({'level': 'command', 'fault': kind, 'problem': 'a persistent upload fault did not surface', 'outcome': outcome.get('result')})
        if kind.startswith('transient'):
            rp = lib.restored_path(root / 'out', str((root / 'src' / 'f').resolve()))
            if outcome.get('result') != 'ok' or not rp.exists() or rp.read_bytes() != data:
                problems.append({'level': 'command', 'fault': kind, 'problem': 'a transient upload fault within the retry budget was not masked', 'outcome': outcome.get('result'), 'tb': outcome.get('tb')})
    return n, False


def main():
    payload = lib.read_payload()
    seed = int(payload.get('seed', 0))
    rnd = random.Random(seed)
    # time is not part of the oracle: no real sleeping between retries
    time.sleep = lambda s: None
    _real_sleep = asyncio.sleep
    asyncio.sleep = lambda s, *a, **k: _real_sleep(0)
    problems = []
    cases = 0
    with lib.scratch('vf_c12_') as base:
        cases += local_cases(base, rnd, problems)
    cases += lib.run(s3_cases(rnd, problems))
    cases += lib.run(b2_cases(rnd, problems))
    hung = False
    with lib.scratch('vf_c12c_') as base:
        k, hung = command_level_cases(base, problems)
        cases += k
    failures = [{'id': f'fault{i}', 'class': None, 'case': p, 'detail': p.get('problem')} for i, p in enumerate(problems[:15])]
    lib.emit({'status': 'ok', 'cases': cases, 'distinct': cases, 'failures': failures,
              'samples': [{'backend': 's3c', 'op': 'upload_stream', 'kind': '500', 'faults': 2, 'size': 2500}],
              'exhaustive': False, 'reproduced': bool(failures)})
    sys.stdout.flush()
    os._exit(0)          # a hung producer thread of a failed case must not keep the interpreter alive


if __name__ == '__main__':
    main()
