"""C16.wire - bounded stand-in + exhaustive per-byte enumeration.
(1) EXHAUSTIVE: for each of the 256 byte values the encoding the adapter uses for path segments
    (urllib quote, safe='/') and for query components (urlencode(..., quote_via=quote) as called by the adapter)
    equals the AWS URI-encode table (unreserved A-Za-z0-9-_.~ kept, '/' kept in paths only, everything else %XX upper-case).
(2) BOUNDED: requests captured at httpx.MockTransport for every adapter operation over names/prefixes/tokens with
    printable + non-ASCII characters and payloads around the stream chunk size; an independent SigV4 implementation
    recomputes the signature from the bytes on the wire."""
import asyncio
import hashlib
import hmac
import io
import os
import random
import sys
from urllib.parse import unquote_to_bytes

sys.path.insert(0, os.path.dirname(os.path.abspath(__file__)))
import lib  # noqa: E402
import httpx  # noqa: E402
from replicat.backends import s3c  # noqa: E402

UNRESERVED = set(b'ABCDEFGHIJKLMNOPQRSTUVWXYZabcdefghijklmnopqrstuvwxyz0123456789-_.~')


def aws_uri_encode(data: bytes, keep_slash: bool) -> str:
    out = []
    for c in data:
        if c in UNRESERVED or (keep_slash and c == 0x2F):
            out.append(chr(c))
        else:
            out.append('%%%02X' % c)
    return ''.join(out)


def reference_signature(method, raw_target: bytes, headers, secret, region):
    """SigV4 recomputed from what is on the wire (independent of replicat's helpers)"""
    path, _, query = raw_target.partition(b'?')
    canonical_uri = aws_uri_encode(unquote_to_bytes(path), keep_slash=True)
    params = []
    if query:
        for part in query.split(b'&'):
            k, _, v = part.partition(b'=')
            # NB: a '+' on the wire is a literal plus for SigV4 (it must be %2B-encoded), never a space
            params.append((aws_uri_encode(unquote_to_bytes(k), False), aws_uri_encode(unquote_to_bytes(v), False)))
    params.sort()
    canonical_query = '&'.join(f'{k}={v}' for k, v in params)
    auth = headers['authorization']
    signed = auth.split('SignedHeaders=')[1].split(',')[0].split(';')
    canonical_headers = ''.join(f'{h}:{headers[h].strip()}\n' for h in signed)
    payload_hash = headers['x-amz-content-sha256']
    creq = '\n'.join([method, canonical_uri, canonical_query, canonical_headers, ';'.join(signed), payload_hash])
    amzdate = headers['x-amz-date']
    date = amzdate[:8]
    scope = f'{date}/{region}/s3/aws4_request'
    sts = '\n'.join(['AWS4-HMAC-SHA256', amzdate, scope, hashlib.sha256(creq.encode()).hexdigest()])
    k = ('AWS4' + secret).encode()
    for part in (date, region, 's3', 'aws4_request'):
        k = hmac.new(k, part.encode(), hashlib.sha256).digest()
    return hmac.new(k, sts.encode(), hashlib.sha256).hexdigest(), scope


PAGE = '''<?xml version="1.0" encoding="UTF-8"?><ListBucketResult xmlns="http://s3.amazonaws.com/doc/2006-03-01/">
<IsTruncated>%s</IsTruncated>%s%s</ListBucketResult>'''


def check_request(req, body, secret, region, host, problems):
    h = {k.lower(): v for k, v in req.headers.items()}
    sig, scope = reference_signature(req.method, req.url.raw_path, h, secret, region)
    auth = h.get('authorization', '')
    if f'Signature={sig}' not in auth or scope not in auth:
        problems.append({'problem': 'signature mismatch', 'method': req.method, 'target': req.url.raw_path.decode('latin1')})
    if h.get('host') != host:
        problems.append({'problem': 'host header differs from the signed host', 'host': h.get('host')})
    if h['x-amz-content-sha256'] != hashlib.sha256(body).hexdigest():
        problems.append({'problem': 'declared payload hash != body', 'method': req.method})
    if req.method == 'PUT' and int(h.get('content-length', '-1')) != len(body):
        problems.append({'problem': 'content-length != body length'})


class Clock:
    """the adapter's clock: successive requests of ONE client object happen at instants that straddle
    midnight, month and year ends (the property quantifies over all timestamps)"""
    import datetime as _dt
    INSTANTS = [_dt.datetime(2026, 1, 31, 23, 59, 58), _dt.datetime(2026, 2, 1, 0, 0, 1), _dt.datetime(2026, 2, 1, 12, 0, 0),
                _dt.datetime(2026, 12, 31, 23, 59, 59), _dt.datetime(2027, 1, 1, 0, 0, 0), _dt.datetime(2027, 1, 1, 9, 5, 7),
                _dt.datetime(2028, 2, 29, 0, 0, 0)]

    def __init__(self):
        self.n = 0
        real = self._dt.datetime
        clock = self

        class FakeDateTime(real):
            @classmethod
            def utcnow(cls):
                return clock.tick()

            @classmethod
            def now(cls, tz=None):
                t = clock.tick()
                return t.replace(tzinfo=tz) if tz is not None else t
        self.cls = FakeDateTime

    def tick(self):
        t = self.INSTANTS[self.n % len(self.INSTANTS)]
        self.n += 1
        return t


class ShortReads:
    """a stream whose read(n) may return FEWER than n bytes before the end of the data (raw files, pipes, sockets): only b'' means EOF"""

    def __init__(self, data, pattern=(3, 1, 1000, 2)):
        self._data, self._pos, self._pattern, self._k = data, 0, pattern, 0

    def read(self, n=-1):
        left = len(self._data) - self._pos
        if n is None or n < 0:
            n = left
        k = min(n, left, self._pattern[self._k % len(self._pattern)])
        self._k += 1
        out = self._data[self._pos:self._pos + k]
        self._pos += k
        return out

    def seek(self, pos, whence=0):
        self._pos = {0: pos, 1: self._pos + pos, 2: len(self._data) + pos}[whence]
        return self._pos

    def tell(self):
        return self._pos


async def scenario(names, prefix, tokens, payload, chunk_size, host='objects.example.test', scheme='https', flaky=False):
    problems, seen = [], []
    refused = set()
    s3c.datetime = Clock().cls
    secret, region = 'sEcr/et+key', 'eu-test-1'
    pages = list(tokens)

    async def handler(request):
        body = await request.aread()
        seen.append((request.method, request.url.raw_path))
        check_request(request, body, secret, region, host, problems)
        if flaky and (request.method, request.url.raw_path) not in refused:
            # the first attempt of every distinct request is answered 503: the RETRY is a request on the wire like any other
            refused.add((request.method, request.url.raw_path))
            return httpx.Response(503 if len(refused) % 2 else 500)
        if request.method == 'GET' and b'list-type=2' in request.url.raw_path:
            sent = [t for t in pages if ('continuation-token=' + aws_uri_encode(t.encode(), False)).encode() in request.url.raw_path]
            idx = pages.index(sent[0]) + 1 if sent else 0
            more = idx < len(pages)
            keys = ''.join(f'<Contents><Key>{prefix}k{idx}</Key></Contents>')
            tok = f'<NextContinuationToken>{pages[idx].replace("&", "&amp;").replace("<", "&lt;")}</NextContinuationToken>' if more else ''
            return httpx.Response(200, content=(PAGE % ('true' if more else 'false', tok, keys)).encode())
        if request.method == 'GET':
            return httpx.Response(200, content=payload)
        return httpx.Response(200)

    c = s3c.S3Compatible('bkt', key_id='AKID', access_key=secret, region=region, host=host, scheme=scheme)
    await c._client.aclose()
    c._client = httpx.AsyncClient(transport=httpx.MockTransport(handler), timeout=None,
                                  event_hooks={'response': [s3c._raise_for_status_hook]})
    for n in names:
        await c.exists(n)
        await c.upload(n, payload)
        await c.upload_stream(n, io.BytesIO(payload), len(payload), chunk_size)
        await c.upload_stream(n, ShortReads(payload), len(payload), chunk_size)
        await c.download(n)
        await c.download_stream(n, io.BytesIO(), chunk_size)
        await c.delete(n)
    listed = [k async for k in c.list_files(prefix)]
    if len(listed) != len(pages) + 1:
        problems.append({'problem': 'pagination: wrong number of keys', 'listed': listed})
    await c.close()
    return problems, len(seen)


def main():
    payload = lib.read_payload()
    tier, seed = payload.get('tier', 'quick'), int(payload.get('seed', 0))
    rnd = random.Random(seed)
    failures, samples = [], []
    # (1) exhaustive per-byte encoding
    from urllib.parse import quote, urlencode
    enc_cases = 0
    for b in range(256):
        enc_cases += 2
        got_path = quote(bytes([b]))                              # what _prepare_request applies to the path
        if got_path != aws_uri_encode(bytes([b]), True):
            failures.append({'id': f'path_byte_{b:02x}', 'class': None, 'case': {'byte': b}, 'detail': {'got': got_path}})
    # the query encoding is taken from the adapter itself: build a request and read the wire form
    c = s3c.S3Compatible('b', key_id='k', access_key='s', region='r', host='h.test')
    for b in range(256):
        ch = bytes([b]).decode('latin1')
        req = c._prepare_request('GET', '/b', query={'prefix': ch}, payload_digest='0' * 64)
        wire = req.url.raw_path.split(b'prefix=')[1].decode('latin1')
        want = aws_uri_encode(ch.encode('utf-8'), False)
        if wire != want:
            failures.append({'id': f'query_char_{b:02x}', 'class': None, 'case': {'char': b}, 'detail': {'wire': wire, 'aws': want}})
    # (2) bounded wire scenarios
    alphabet = ['plain', 'sp ace', 'pl+us', 'a&b=c', 'ü-ß/€', 'semi;colon', 'tilde~x', "q'uote", 'star*', 'per%cent', 'data/ab/cd-ef']
    sizes = [0, 1, 5, 127_999, 128_000, 128_001] if tier == 'thorough' else [0, 5, 1001]
    n_req = 0
    scen = 0
    for size in sizes:
        names = rnd.sample(alphabet, 4 if tier == 'thorough' else 3)
        prefix = rnd.choice(['data/', 'sp ace/', 'ü/', 'a+b/', ''])
        tokens = rnd.sample(['tok en', 'a+b/c=', 'ü', '1%2F2', 'x&y'], rnd.randint(0, 3))
        scen += 1
        try:
            host, scheme = [('objects.example.test', 'https'), ('minio.local:9000', 'http'), ('s3.eu-test-1.amazonaws.com', 'https'), ('[::1]:9000', 'http')][scen % 4]
            problems, n = lib.run(scenario(names, prefix, tokens, lib.content(seed + size, size), 1000 if size < 5000 else 128_000, host, scheme))
        except Exception as e:
            problems, n = [{'problem': 'exception', 'type': type(e).__name__, 'text': str(e)[:300]}], 0
        n_req += n
        case = {'names': names, 'prefix': prefix, 'tokens': tokens, 'payload': size, 'host': host, 'scheme': scheme}
        if len(samples) < 3:
            samples.append(case)
        if problems:
            failures.append({'id': f'wire{scen}', 'class': None, 'case': case, 'detail': problems[:3]})
    # stream uploads with SMALL chunk sizes (what the commands choose under a low rate limit: rate // (16 * concurrency))
    for cs in (1, 7, 50, 63, 64, 65):
        scen += 1
        try:
            problems, n = lib.run(scenario(['data/ab/cd-small'], 'data/', [], lib.content(seed + cs, 300), cs))
        except Exception as e:
            problems, n = [{'problem': 'exception', 'type': type(e).__name__, 'text': str(e)[:300]}], 0
        n_req += n
        if problems:
            failures.append({'id': f'wire_chunk{cs}', 'class': None, 'case': {'payload': 300, 'stream_chunk_size': cs}, 'detail': problems[:3]})
    # every request is refused once (503 / 500) and sent again by the adapter's retry: the re-sent requests carry valid signatures too
    scen += 1
    import asyncio as _asyncio, time as _time
    _real_sleep, _real_tsleep = _asyncio.sleep, _time.sleep
    _asyncio.sleep = lambda s, *a, **k: _real_sleep(0)
    _time.sleep = lambda s: None
    try:
        problems, n = lib.run(scenario(['data/ab/retried', 'sp ace'], 'data/', ['tok en'], lib.content(seed + 77, 700), 256, flaky=True))
    except Exception as e:
        problems, n = [{'problem': 'exception', 'type': type(e).__name__, 'text': str(e)[:300]}], 0
    finally:
        _asyncio.sleep, _time.sleep = _real_sleep, _real_tsleep
    n_req += n
    if problems:
        failures.append({'id': 'wire_retried', 'class': None, 'case': {'every_request_refused_once': True}, 'detail': problems[:3]})
    # object names with a '.' or '..' path segment: httpx normalises the URL path after it was signed (known finding D19)
    scen += 1
    try:
        problems, n = lib.run(scenario(['data/a/../b', 'data/./c'], 'data/', [], b'payload', 1000))
    except Exception as e:
        problems, n = [{'problem': 'exception', 'type': type(e).__name__, 'text': str(e)[:300]}], 0
    n_req += n
    if problems:
        failures.append({'id': 'wire_dot_segments', 'class': 'D19', 'case': {'names': ['data/a/../b', 'data/./c']}, 'detail': problems[:3]})
    lib.emit({'status': 'ok', 'cases': enc_cases + n_req, 'distinct': 512 + n_req, 'failures': failures[:12], 'samples': samples,
              'exhaustive_part': 'per-byte encoding of path and query components: all 256 byte values',
              'exhaustive': False, 'reproduced': bool(failures)})


if __name__ == '__main__':
    main()
