"""C18.e2e - bounded stand-in: the observable result of list-snapshots / list-files / restore / delete+clean is the
same with the snapshot cache disabled, empty, warm, shared by two keys, shared by two repositories, stale
(snapshots added/deleted by another client), and with every entry cut to each length class (0, 1, half, len-1)."""
import asyncio
import io
import os
import random
import shutil
import sys
from contextlib import redirect_stdout
from pathlib import Path

sys.path.insert(0, os.path.dirname(os.path.abspath(__file__)))
import lib  # noqa: E402
from replicat.repository import Repository  # noqa: E402
from replicat.backends.local import Local  # noqa: E402

FAST = {'name': 'scrypt', 'n': 4, 'r': 1, 'p': 1}


async def make_repo(root, name, encrypted):
    d = root / name
    (d / 'src').mkdir(parents=True)
    r = Repository(Local(d / 'repo'), concurrent=2, quiet=True, cache_directory=None)
    settings = {'chunking': {'min_length': 8, 'max_length': 64}, 'encryption': {'kdf': dict(FAST)} if encrypted else None}
    with lib.quiet():
        res = await r.init(password=b'owner', settings=settings)
    keys = [(b'owner', res.key)]
    if encrypted:
        with lib.quiet():
            k = await r.add_key(password=b'shared', shared=True, settings={'encryption': {'kdf': dict(FAST)}})
        keys.append((b'shared', k.new_key))
    for i, (pw, key) in enumerate(keys):
        for j in range(2):
            for f in (d / 'src').iterdir():
                f.unlink()
            (d / 'src' / 'a').write_bytes(lib.content(i * 10 + j, 90))
            (d / 'src' / f'b{j}').write_bytes(lib.content(i * 10 + j + 5, 30))
            rr = Repository(Local(d / 'repo'), concurrent=2, quiet=True, cache_directory=None)
            with lib.quiet():
                await rr.unlock(password=pw, key=rr.serialize(key) if key else None)
                await rr.snapshot(paths=[d / 'src'])
            await rr.close()
    await r.close()
    return d, keys


async def observe(d, pw, key, cache_dir, tag, regex=None):
    """-> a comparable record of what the commands do with this cache"""
    r = Repository(Local(d / 'repo'), concurrent=2, quiet=True, cache_directory=cache_dir)
    rec = {}
    try:
        buf = io.StringIO()
        with lib.quiet() as (out, err):
            await r.unlock(password=pw, key=r.serialize(key) if key else None)
            await r.list_snapshots(snapshot_regex=regex)
            await r.list_files(snapshot_regex=regex)
            # rows only: the order of rows with equal sort keys follows the completion order of the loader threads
            rec['listing'] = sorted(out.getvalue().splitlines())
        target = d / f'out_{tag}'
        with lib.quiet():
            res = await r.restore(path=target, snapshot_regex=regex)
        rec['restored'] = sorted((str(p.relative_to(target)), p.read_bytes().hex()) for p in target.rglob('*') if p.is_file())
        shutil.rmtree(target, ignore_errors=True)
    except Exception as e:
        rec['error'] = f'{type(e).__name__}'
    await r.close()
    return rec


def cache_states(cache, rnd):
    """mutations of a warm cache directory"""
    files = sorted(p for p in cache.rglob('*') if p.is_file())
    yield 'warm', lambda: None
    for cls, cut in (('empty_entry', lambda n: 0), ('one_byte', lambda n: 1), ('half', lambda n: n // 2), ('all_but_one', lambda n: n - 1)):
        def f(cut=cut):
            for p in files:
                p.write_bytes(p.read_bytes()[: cut(p.stat().st_size)])
        yield f'every_entry_cut_{cls}', f
    yield 'one_entry_missing', lambda: files and files[0].unlink()
    yield 'extra_stale_entry', lambda: files and (files[0].parent / ('f' * 16 + '-' + '0' * 128)).write_bytes(b'{"chunks":[],"data":{}}')
    yield 'entry_bytes_swapped', lambda: len(files) > 1 and (lambda a, b: (files[0].write_bytes(b), files[1].write_bytes(a)))(files[0].read_bytes(), files[1].read_bytes())


KILLER = r"""
import sys, os, asyncio, json
sys.path.insert(0, {repo!r})
sys.path.insert(0, {here!r})
import lib
from replicat.repository import Repository
from replicat.backends.local import Local
cache, k = {cache!r}, {k}
count = [0]
def hook(event, args):
    # file-system MUTATIONS under the cache directory: the process dies just BEFORE the k-th of them
    hit = False
    if event == 'open' and isinstance(args[0], (str, bytes, os.PathLike)) and str(os.fspath(args[0])).startswith(cache):
        mode, flags = args[1], args[2]
        hit = bool(flags & (os.O_WRONLY | os.O_RDWR | os.O_CREAT | os.O_TRUNC | os.O_APPEND)) or (isinstance(mode, str) and any(c in mode for c in 'wax+'))
    elif event in ('os.rename', 'os.remove', 'os.mkdir', 'os.truncate', 'os.link', 'os.symlink') and any(str(a).startswith(cache) for a in args if isinstance(a, (str, bytes, os.PathLike))):
        hit = True
    if hit:
        count[0] += 1
        if count[0] == k:
            os._exit(9)
sys.addaudithook(hook)
async def go():
    r = Repository(Local({repo_dir!r}), concurrent=1, quiet=True, cache_directory={cache!r})
    with lib.quiet():
        await r.unlock(password={pw!r}, key={key!r})
        await r.list_snapshots()
    await r.close()
asyncio.run(go())
os._exit(0)
"""


def killed_while_writing_the_cache(d, pw, key, cache, k):
    """a client with a cold cache lists the snapshots and is killed just before its k-th file-system mutation under the cache directory
    (creating a directory, opening an entry or a temporary for writing, renaming, removing ...).  -> exit status of the child"""
    import subprocess
    rr = Repository(Local(d / 'repo'), concurrent=1, quiet=True, cache_directory=None)
    code = KILLER.format(repo=lib.REPO, here=os.path.dirname(os.path.abspath(__file__)), cache=str(cache), k=k, repo_dir=str(d / 'repo'), pw=pw,
                         key=rr.serialize(key) if key else None)
    return subprocess.run([sys.executable, '-c', code], capture_output=True, timeout=120).returncode


def main():
    payload = lib.read_payload()
    tier, seed = payload.get('tier', 'quick'), int(payload.get('seed', 0))
    rnd = random.Random(seed)
    import time
    time.sleep = lambda s: None
    failures, samples, cases = [], [], 0
    for encrypted in (True, False):
        with lib.scratch('vf_c18_') as root:
            d, keys = asyncio.run(make_repo(root, 'r1', encrypted))
            d2, keys2 = asyncio.run(make_repo(root, 'r2', encrypted))
            for pw, key in keys:
                reference = asyncio.run(observe(d, pw, key, None, 'ref'))
                shared_cache = root / 'cache_shared'
                # warm the shared cache with the OTHER key and the OTHER repository first
                for opw, okey in keys[::-1]:
                    asyncio.run(observe(d, opw, okey, shared_cache, 'w1'))
                asyncio.run(observe(d2, keys2[0][0], keys2[0][1], shared_cache, 'w2'))
                for state, mutate in cache_states(shared_cache, rnd):
                    cases += 1
                    work = root / 'cache_work'
                    shutil.rmtree(work, ignore_errors=True)
                    shutil.copytree(shared_cache, work)
                    # apply the mutation on the copy
                    list(cache_states(work, rnd))  # (build closures for `work`)
                    for st2, m2 in cache_states(work, rnd):
                        if st2 == state:
                            m2()
                    got = asyncio.run(observe(d, pw, key, work, f'c{cases}'))
                    case = {'encrypted': encrypted, 'user': pw.decode(), 'cache_state': state}
                    if got != reference:
                        diff = {k: (str(got.get(k))[:120], str(reference.get(k))[:120]) for k in set(got) | set(reference) if got.get(k) != reference.get(k)}
                        failures.append({'id': f'cache{cases}', 'class': None, 'case': case, 'detail': {'problem': 'result differs from the cache-less run', 'diff': diff}})
                    # and a second run on the (possibly repaired) cache
                    got2 = asyncio.run(observe(d, pw, key, work, f'd{cases}'))
                    if got2 != reference:
                        failures.append({'id': f'cache{cases}b', 'class': None, 'case': dict(case, second_run=True), 'detail': {'problem': 'second run on the same cache differs'}})
                    if len(samples) < 3:
                        samples.append(case)
                # a client KILLED while it fills a cold cache (every point just before one of its file-system mutations there): whatever it
                # leaves behind, later clients using that directory behave like cache-less ones
                if (pw, key) == keys[0]:
                    for k in range(1, 9):
                        cases += 1
                        kc = root / f'cache_killed_{k}'
                        status = killed_while_writing_the_cache(d, pw, key, kc, k)
                        for run in (1, 2):
                            gotk = asyncio.run(observe(d, pw, key, kc, f'k{k}_{run}'))
                            if gotk != reference:
                                failures.append({'id': f'killed{k}_{run}', 'class': None, 'case': {'encrypted': encrypted, 'cache_state': f'left by a client killed before its mutation #{k} of the cache', 'run_after': run},
                                                 'detail': {'problem': 'result differs from the cache-less run', 'with_cache': str(gotk)[:200]}})
                                break
                        if status == 0:
                            break          # the client finished: no further crash points
                # stale cache: another client deletes a snapshot, then we list with the old warm cache
                cases += 1
                r = Repository(Local(d / 'repo'), concurrent=2, quiet=True, cache_directory=None)

                async def delete_one():
                    with lib.quiet():
                        await r.unlock(password=pw, key=r.serialize(key) if key else None)
                        names = [r.parse_snapshot_location(p).name async for p, b in r._load_snapshots() if b['data'] is not None]
                        await r.delete_snapshots(names[:1], confirm=False)
                    await r.close()
                    return names
                names = asyncio.run(delete_one())
                ref2 = asyncio.run(observe(d, pw, key, None, 'ref2'))
                got = asyncio.run(observe(d, pw, key, shared_cache, 'stale'))
                if got != ref2:
                    failures.append({'id': f'stale{cases}', 'class': None, 'case': {'encrypted': encrypted, 'user': pw.decode(), 'cache_state': 'stale after foreign delete'},
                                     'detail': {'problem': 'result differs from the cache-less run'}})
                # the same stale cache with snapshot filters that NAME snapshots in full (the deleted one, a remaining one) or by prefix
                for what, rx in (('full name of the deleted snapshot', names[0] if names else 'ff'), ('full name of a remaining snapshot', names[-1] if len(names) > 1 else 'ee'),
                                 ('prefix of the deleted snapshot', '^' + (names[0][:10] if names else 'ff'))):
                    cases += 1
                    refx = asyncio.run(observe(d, pw, key, None, 'refx', regex=rx))
                    gotx = asyncio.run(observe(d, pw, key, shared_cache, 'stalex', regex=rx))
                    if gotx != refx:
                        failures.append({'id': f'stale_filter{cases}', 'class': None, 'case': {'encrypted': encrypted, 'user': pw.decode(), 'cache_state': 'stale after foreign delete', 'snapshot_filter': what},
                                         'detail': {'problem': 'result differs from the cache-less run', 'with_cache': str(gotx)[:200], 'without': str(refx)[:200]}})
    lib.emit({'status': 'ok', 'cases': cases, 'distinct': cases, 'failures': failures[:10], 'samples': samples,
              'exhaustive': False, 'reproduced': bool(failures)})


if __name__ == '__main__':
    main()
