"""Scenario library for the bounded stand-ins and native replays.  Runs the REAL code
under /venv/bin/python (cwd = the repo under test, so the .so is importable)."""
from __future__ import annotations

import asyncio
import contextlib
import hashlib
import io
import json
import os
import random
import shutil
import sys
import tempfile
import time
from pathlib import Path

REPO = os.environ.get('REPO', '/repo')
if REPO not in sys.path:
    sys.path.insert(0, REPO)
# the compiled chunker lives in /repo's root (git-ignored build product)
for p in (REPO, '/repo'):
    if p not in sys.path:
        sys.path.append(p)

from replicat.repository import Repository  # noqa: E402
from replicat.backends.local import Local  # noqa: E402
from replicat import exceptions  # noqa: E402


def read_payload():
    try:
        return json.loads(sys.stdin.read() or '{}')
    except ValueError:
        return {}


def emit(result):
    # the REAL stdout: a watchdog may report while the code under test runs inside quiet()
    out = sys.__stdout__ if sys.__stdout__ is not None else sys.stdout
    out.write('\n' + json.dumps(result, default=str) + '\n')
    out.flush()


def run(coro):
    return asyncio.run(coro)


@contextlib.contextmanager
def quiet():
    out, err = io.StringIO(), io.StringIO()
    with contextlib.redirect_stdout(out), contextlib.redirect_stderr(err):
        yield out, err


def content(seed, n):
    return random.Random(seed).randbytes(n) if n else b''


FAST_KDF = {'name': 'scrypt', 'n': 4, 'r': 1, 'p': 1}


def settings(encrypted=True, cipher='aes_gcm', hasher=None, min_length=8, max_length=64):
    s = {'chunking': {'min_length': min_length, 'max_length': max_length}}
    if hasher:
        s['hashing'] = dict(hasher)
    if encrypted:
        s['encryption'] = {'cipher': {'name': cipher}, 'kdf': dict(FAST_KDF)}
    else:
        s['encryption'] = None
    return s


class Repo:
    """a repository on the local backend inside a scratch dir"""

    def __init__(self, root, backend=None, concurrent=2, cache_directory=None):
        self.root = Path(root)
        self.backend = backend if backend is not None else Local(self.root / 'repo')
        self.concurrent = concurrent
        self.cache_directory = cache_directory
        self.key = None
        self.password = b'pw'

    def handle(self, backend=None):
        return Repository(backend or self.backend, concurrent=self.concurrent, quiet=True,
                          cache_directory=self.cache_directory)

    async def init(self, **kw):
        r = self.handle()
        with quiet():
            res = await r.init(password=self.password, settings=settings(**kw))
        self.key = res.key
        await r.close()
        return res

    async def open(self, key=None, password=None, backend=None):
        r = self.handle(backend)
        with quiet():
            await r.unlock(password=password or self.password, key=key if key is not None else self.key)
        return r


@contextlib.contextmanager
def scratch(prefix='vf_'):
    d = tempfile.mkdtemp(prefix=prefix)
    try:
        yield Path(d)
    finally:
        shutil.rmtree(d, ignore_errors=True)


def tree_files(root):
    out = {}
    for dp, dn, fn in os.walk(root):
        for f in fn:
            p = Path(dp, f)
            if p.is_file() and not p.is_symlink():
                out[str(p)] = p
    return out


def restored_path(target, original):
    return Path(target, *Path(original).parts[1:])


class Timer:
    def __init__(self, budget):
        self.t0, self.budget = time.time(), budget

    def left(self):
        return self.budget - (time.time() - self.t0)


def patch_sleep():
    """time is not part of the oracle: no real sleeping between retries (backoff, asyncio)"""
    import time
    time.sleep = lambda s: None
    _real_sleep = asyncio.sleep
    asyncio.sleep = lambda s, *a, **k: _real_sleep(0)
