"""History-based bounded stand-in shared by C02, C06, C07, C08 (oracle selected by payload['prop']).
Random histories of snapshot / delete / clean issued by three users of one repository on the local backend:
owner (init), shared (add-key --shared), independent (add-key), or a single user of an unencrypted repository.
Bound: <= 10 operations, <= 4 paths per snapshot drawn from a pool of 6 contents with overlap, min/max chunk 8/64,
2 (thorough: 10) seeded histories per mode."""
import asyncio
import os
import random
import sys
from pathlib import Path

sys.path.insert(0, os.path.dirname(os.path.abspath(__file__)))
import lib  # noqa: E402
from replicat.repository import Repository  # noqa: E402
from replicat.backends.local import Local  # noqa: E402
from replicat import exceptions  # noqa: E402

FAST = {'name': 'scrypt', 'n': 4, 'r': 1, 'p': 1}


class Recording(Local):
    """Local backend that counts payload transfers"""

    def __init__(self, path):
        super().__init__(path)
        self.uploads = []

    def upload_stream(self, name, stream, length, chunk_size=128000):
        self.uploads.append(name)
        return super().upload_stream(name, stream, length, chunk_size)


class User:
    def __init__(self, name, password, key, family):
        self.name, self.password, self.key, self.family = name, password, key, family


HASHING = None           # per history: None (default BLAKE2b-512) | sha2 | sha3 | short blake2b
CACHE_MODE = 'none'      # per history: 'none' | 'per_user' | 'shared' (one directory for all users, as the CLI default does)


def cache_dir(root, user):
    if CACHE_MODE == 'none':
        return None
    return root / ('cache_shared' if CACHE_MODE == 'shared' else f'cache_{user.name}')


async def open_repo(root, user, backend=None, cache=True):
    r = Repository(backend or Local(root / 'repo'), concurrent=2, quiet=True, cache_directory=cache_dir(root, user) if cache else None)
    with lib.quiet():
        await r.unlock(password=user.password, key=r.serialize(user.key) if user.key is not None else None)
    return r


_plain_open = open_repo


async def setup_users(root, encrypted):
    r = Repository(Local(root / 'repo'), concurrent=2, quiet=True, cache_directory=None)
    settings = {'chunking': {'min_length': 8, 'max_length': 64}}
    if HASHING is not None:
        settings['hashing'] = dict(HASHING)
    settings['encryption'] = {'kdf': dict(FAST)} if encrypted else None
    with lib.quiet():
        res = await r.init(password=b'owner', settings=settings)
    users = [User('owner', b'owner', res.key, 'A')]
    if encrypted:
        with lib.quiet():
            k1 = await r.add_key(password=b'shared\n', shared=True, settings={'encryption': {'kdf': dict(FAST)}})
            k2 = await r.add_key(password=b' indep pw\r\n', shared=False, settings={'encryption': {'kdf': dict(FAST)}})
        users.append(User('shared', b'shared\n', k1.new_key, 'A'))
        users.append(User('indep', b' indep pw\r\n', k2.new_key, 'B'))
    await r.close()
    return users


async def loaded(root, user):
    """what this user sees: name -> (readable, chunk digests)"""
    r = await _plain_open(root, user, cache=False)
    out = {}
    with lib.quiet():
        async for path, body in r._load_snapshots():
            out[r.parse_snapshot_location(path).name] = (body['data'] is not None, list(body['chunks']), path)
    locs = {}
    for name, (_, chunks, _) in out.items():
        for d in chunks:
            locs[r._chunk_digest_to_location(d)] = d
    await r.close()
    return out, locs


async def history(root, rnd, encrypted, prop, n_ops, long_lived=False):
    problems = []
    users = await setup_users(root, encrypted)
    if long_lived:
        # one Repository object per user for the whole history (library use), instead of one per command (CLI use)
        cache = {}
        global open_repo
        _open = open_repo

        class Keep:
            def __init__(self, r):
                self._r = r

            def __getattr__(self, n):
                return getattr(self._r, n)

            async def close(self):
                pass

        async def open_cached(root_, user, backend=None):
            if long_lived == 'one_object':
                # ONE Repository object for everybody, re-unlocked with the key of whoever issues the next command
                key = ('everybody', backend is not None)
                if key not in cache:
                    cache[key] = await _open(root_, user, backend)
                else:
                    r = cache[key]
                    with lib.quiet():
                        await r.unlock(password=user.password, key=r.serialize(user.key) if user.key is not None else None)
                return Keep(cache[key])
            key = (user.name, backend is not None)
            if key not in cache:
                cache[key] = await _open(root_, user, backend)
            return Keep(cache[key])
        open_repo = open_cached
    pool = [lib.content(100 + i, sz) for i, sz in enumerate((0, 30, 64, 200, 200, 333))]
    pool[4] = pool[3][:100] + lib.content(999, 100)          # shared prefix with #3
    model = {}                                               # snapshot name -> (user, {path: bytes})
    src = root / 'src'
    src.mkdir()
    rec = Recording(root / 'repo')
    for step in range(n_ops):
        user = rnd.choice(users)
        op = rnd.choice(['snapshot', 'snapshot', 'snapshot', 'delete', 'clean', 'resnap'])
        own = [n for n, (u, _) in model.items() if u.name == user.name]
        if op == 'delete' and not own:
            op = 'snapshot'
        if op == 'resnap' and not own:
            op = 'snapshot'
        family_mates = [n for n, (u, _) in model.items() if u.name != user.name and u.family == user.family]
        if prop == 'C07' and family_mates and rnd.random() < 0.35:
            op = 'resnap_family'          # the same data as a snapshot of ANOTHER user of the same key family
        if op in ('snapshot', 'resnap', 'resnap_family'):
            if op == 'resnap_family':
                files = {os.path.basename(k): v for k, v in model[rnd.choice(family_mates)][1].items()}
            elif op == 'resnap':
                files = {os.path.basename(k): v for k, v in model[rnd.choice(own)][1].items()}
            else:
                files = {}
                for j in range(rnd.randint(1, 4)):
                    files[f'f{rnd.randint(0, 5)}'] = pool[rnd.randint(0, 5)]
                if all(len(v) == 0 for v in files.values()):
                    files['f_nonempty'] = pool[1]            # all-empty trees are known finding D3 (C01)
            for f in src.iterdir():
                f.unlink()
            for k, v in files.items():
                (src / k).write_bytes(v)
            before = set(Local(root / 'repo').list_files('data/'))
            rec.uploads.clear()
            r = await open_repo(root, user, backend=rec)
            with lib.quiet():
                snap = await r.snapshot(paths=[src])
            await r.close()
            model[snap.name] = (user, {str((src / k).resolve()): v for k, v in files.items()})
            if prop == 'C07' and op in ('resnap', 'resnap_family'):
                if rec.uploads:
                    problems.append({'step': step, 'problem': 'a snapshot of data that the family already stores transferred chunk payloads', 'uploads': len(rec.uploads), 'kind': op, 'user': user.name})
            if prop == 'C07':
                dup = [n for n in rec.uploads if n in before]
                if dup:
                    problems.append({'step': step, 'problem': 'payload uploaded for an object that already existed', 'n': len(dup)})
        elif op == 'delete':
            victims = rnd.sample(own, rnd.randint(1, len(own)))

            async def all_referenced():
                out = set()
                for u in users:
                    _, l = await loaded(root, u)
                    out |= set(l)
                return out
            orphans_before = set(Local(root / 'repo').list_files('data/')) - await all_referenced()
            r = await open_repo(root, user)
            with lib.quiet():
                await r.delete_snapshots(victims, confirm=False)
            await r.close()
            for v in victims:
                del model[v]
            if prop in ('C08', 'C07'):
                # when delete completes, every chunk referenced only by the deleted snapshots is gone
                new_orphans = set(Local(root / 'repo').list_files('data/')) - await all_referenced() - orphans_before
                if new_orphans:
                    problems.append({'step': step, 'problem': 'delete left chunks that were referenced only by the deleted snapshots',
                                     'n': len(new_orphans), 'deleted_in_one_call': len(victims)})
        else:
            r = await open_repo(root, user)
            with lib.quiet():
                await r.clean()
            await r.close()
            if prop in ('C08', 'C07'):
                # after clean: the chunk objects owned by the caller's family are exactly those referenced
                seen, locs = await loaded(root, user)
                present = set(Local(root / 'repo').list_files('data/'))
                fam_users = [u for u in users if u.family == user.family]
                fam_locs = set()
                for u in fam_users:
                    _, l = await loaded(root, u)
                    fam_locs |= set(l)
                other_locs = set()
                for u in users:
                    if u.family != user.family:
                        _, l = await loaded(root, u)
                        other_locs |= set(l)
                missing = fam_locs - present
                if missing:
                    problems.append({'step': step, 'problem': 'clean removed referenced chunks of the own family', 'n': len(missing)})
                lost_other = other_locs - present
                if lost_other:
                    problems.append({'step': step, 'problem': 'clean removed chunks of another key family', 'n': len(lost_other)})
                orphans = present - fam_locs - other_locs
                if not encrypted and orphans:
                    problems.append({'step': step, 'problem': 'unreferenced chunks survive clean', 'n': len(orphans)})
                if encrypted and prop == 'C08':
                    # orphans that verify under the caller's MAC key must be gone
                    r = await open_repo(root, user)
                    own_orphans = []
                    for o in orphans:
                        nm, tg = r.parse_chunk_location(o)
                        if r.props.mac(bytes.fromhex(nm)) == bytes.fromhex(tg):
                            own_orphans.append(o)
                    await r.close()
                    if own_orphans:
                        problems.append({'step': step, 'problem': 'own unreferenced chunks survive clean', 'n': len(own_orphans)})
        # ---- invariants after every operation
        listed = set(Local(root / 'repo').list_files('snapshots/'))
        if len(listed) != len(model):
            problems.append({'step': step, 'op': op, 'problem': 'number of stored snapshots differs from the model', 'stored': len(listed), 'model': len(model)})
        if prop in ('C02', 'C08') and op in ('delete', 'clean'):
            # every remaining snapshot of every user restores exactly
            for name, (u, files) in model.items():
                out = root / f'out_{step}_{name[:8]}'
                r = await open_repo(root, u)
                try:
                    with lib.quiet():
                        await r.restore(snapshot_regex=f'^{name}$', path=out)
                    for k, v in files.items():
                        rp = lib.restored_path(out, k)
                        if not rp.exists() or rp.read_bytes() != v:
                            problems.append({'step': step, 'op': op, 'by': user.name, 'problem': 'a remaining snapshot no longer restores exactly', 'snapshot_of': u.name})
                            break
                except Exception as e:
                    problems.append({'step': step, 'op': op, 'by': user.name, 'problem': 'a remaining snapshot can no longer be restored',
                                     'snapshot_of': u.name, 'error': f'{type(e).__name__}: {e}'[:160]})
                await r.close()
        if prop == 'C06' and encrypted:
            for u in users:
                # the view through the objects this history works with (a fresh object per command, one per user, or ONE for everybody)
                rv = await open_repo(root, u)
                seen = {}
                with lib.quiet():
                    async for path, body in rv._load_snapshots():
                        seen[rv.parse_snapshot_location(path).name] = (body['data'] is not None, list(body['chunks']), path)
                await rv.close()
                for name, (owner, _) in model.items():
                    if owner.family != u.family and name in seen:
                        problems.append({'step': step, 'problem': 'an independent-key user sees a foreign snapshot', 'viewer': u.name})
                    if owner.family == u.family and name not in seen:
                        problems.append({'step': step, 'problem': 'a same-family user does not see the snapshot', 'viewer': u.name})
                    if owner.family == u.family and owner.name != u.name and name in seen and seen[name][0]:
                        problems.append({'step': step, 'problem': 'a shared-key user can read the file list of another user', 'viewer': u.name})
                # cannot delete what is not one's own
                foreign = [n for n, (o, _) in model.items() if o.name != u.name]
                if foreign and step % 3 == 0:
                    r = await open_repo(root, u)
                    try:
                        with lib.quiet():
                            await r.delete_snapshots([foreign[0]], confirm=False)
                        problems.append({'step': step, 'problem': 'a user deleted a snapshot that is not theirs', 'by': u.name})
                        model.pop(foreign[0], None)
                    except exceptions.ReplicatError:
                        pass
                    await r.close()
        if problems:
            break
    if long_lived:
        open_repo = _open
        for r in cache.values():
            await r.close()
    return problems


def wrong_password_cases(root):
    async def go():
        users = await setup_users(root, True)
        probs = []
        for u in users:
            for other in users:
                r = Repository(Local(root / 'repo'), concurrent=1, quiet=True, cache_directory=None)
                try:
                    with lib.quiet():
                        await r.unlock(password=other.password, key=r.serialize(u.key))
                    ok = True
                except exceptions.ReplicatError:
                    ok = False
                await r.close()
                if ok != (u.name == other.name):
                    probs.append({'problem': 'unlock with a wrong password / foreign key', 'key_of': u.name, 'password_of': other.name, 'unlocked': ok})
            # near misses: the password is a byte string, every byte counts (line terminators, blanks, a missing last byte)
            for variant in {u.password.rstrip(), u.password.strip(), u.password + b'\n', u.password[:-1], u.password.lower() + b' '} - {u.password}:
                r = Repository(Local(root / 'repo'), concurrent=1, quiet=True, cache_directory=None)
                try:
                    with lib.quiet():
                        await r.unlock(password=variant, key=r.serialize(u.key))
                    probs.append({'problem': 'a password that differs from the key\'s password unlocked it', 'key_of': u.name, 'tried': repr(variant), 'real': repr(u.password)})
                except exceptions.ReplicatError:
                    pass
                await r.close()
        return probs
    return asyncio.run(go())


async def many_orphans(root, encrypted, n_chunks):
    global CACHE_MODE
    CACHE_MODE = 'none'
    users = await setup_users(root, encrypted)
    owner, other = users[0], users[-1]
    src = root / 'src'
    src.mkdir()
    problems = []
    # the other user's (or, unencrypted, an older) snapshot that must survive untouched
    (src / 'keep').write_bytes(lib.content(5, 600))
    r = await _plain_open(root, other, cache=False)
    with lib.quiet():
        await r.snapshot(paths=[src / 'keep'])
    await r.close()
    kept = set(Local(root / 'repo').list_files('data/'))
    (src / 'big').write_bytes(lib.content(77, n_chunks * 40))
    r = await _plain_open(root, owner, cache=False)
    with lib.quiet():
        snap = await r.snapshot(paths=[src / 'big'])
    await r.close()
    # "interrupted before the snapshot object was uploaded": remove the snapshot object behind replicat's back
    be = Local(root / 'repo')
    mine = [p for p in be.list_files('snapshots/') if p.endswith(snap.name)]
    for p in mine:
        be.delete(p)
    orphans = set(be.list_files('data/')) - kept
    if len(orphans) < n_chunks * 0.6:
        problems.append({'problem': 'harness: too few orphans produced', 'orphans': len(orphans)})
    r = await _plain_open(root, owner, cache=False)
    with lib.quiet():
        await r.clean()
    await r.close()
    left = set(be.list_files('data/'))
    if left - kept:
        problems.append({'problem': 'clean left unreferenced chunks of the caller behind', 'left': len(left - kept), 'orphans_before': len(orphans)})
    if kept - left:
        problems.append({'problem': 'clean removed chunks that a remaining snapshot references', 'lost': len(kept - left)})
    return problems


async def reordered_arguments(root, encrypted):
    """unchanged data named in another order: several files of EQUAL size (small enough to share chunks with their neighbours in the
    stream) snapshotted as explicit arguments, then again with the arguments permuted, then as a directory - no chunk object may be added"""
    global CACHE_MODE
    CACHE_MODE = 'none'
    users = await setup_users(root, encrypted)
    owner = users[0]
    src = root / 'src'
    src.mkdir()
    files = []
    for i, nm in enumerate(['m', 'c', 'x', 'a', 'k']):
        f = src / nm
        f.write_bytes(lib.content(30 + i, 37))          # 37 bytes each: below the maximal chunk length, bundled with neighbours
        files.append(f)
    be = Local(root / 'repo')
    problems = []
    r = await _plain_open(root, owner, cache=False)
    with lib.quiet():
        await r.snapshot(paths=list(files))
        first = set(be.list_files('data/'))
        for label, paths in (('reversed arguments', list(reversed(files))), ('rotated arguments', files[2:] + files[:2]), ('the directory', [src])):
            await r.snapshot(paths=paths)
            now = set(be.list_files('data/'))
            if now != first:
                problems.append({'problem': f'unchanged files given as {label}: chunk objects were added', 'added': len(now - first), 'before': len(first)})
                first = now
    await r.close()
    return problems


async def twins(root, encrypted):
    """several snapshots that share chunks ONLY with each other are deleted in one call (pruning snapshots of unchanged data): nothing
    they referenced may stay; then snapshots with pairwise distinct chunk sets deleted in one call, in both name orders"""
    global CACHE_MODE
    CACHE_MODE = 'none'
    problems = []
    users = await setup_users(root, encrypted)
    user = users[0]
    src = root / 'src'
    src.mkdir()
    r = await open_repo(root, user)
    names = []
    with lib.quiet():
        (src / 'a').write_bytes(lib.content(500, 500))
        keep = (await r.snapshot(paths=[src])).name                      # stays
        same_as_keep = (await r.snapshot(paths=[src])).name              # unchanged data: every chunk shared with `keep`
        (src / 'a').write_bytes(lib.content(501, 700))
        for _ in range(2):
            names.append((await r.snapshot(paths=[src])).name)          # two snapshots of unchanged data: chunks shared by exactly these two
        (src / 'a').write_bytes(lib.content(502, 650))
        names.append((await r.snapshot(paths=[src])).name)              # distinct content
        (src / 'a').write_bytes(lib.content(503, 600))
        names.append((await r.snapshot(paths=[src])).name)              # distinct content
        import builtins
        for victims in ([names[0], names[1]], [names[3], names[2]], [same_as_keep]):
            if victims == [same_as_keep]:
                # the INTERACTIVE path (`delete` without --yes, answered y): same result as the unattended one
                real_input, builtins.input = builtins.input, (lambda *a, **k: 'y')
                try:
                    await r.delete_snapshots(victims, confirm=True)
                finally:
                    builtins.input = real_input
            else:
                await r.delete_snapshots(victims, confirm=False)
            _, locs = await loaded(root, user)
            present = set(Local(root / 'repo').list_files('data/'))
            if present - set(locs):
                problems.append({'problem': 'delete of several snapshots in one call left chunks only they referenced', 'n': len(present - set(locs)),
                                 'deleted_in_one_call': len(victims)})
            if set(locs) - present:
                problems.append({'problem': 'delete of several snapshots in one call removed chunks a remaining snapshot references', 'n': len(set(locs) - present)})
        try:
            await r.restore(snapshot_regex=f'^{keep}$', path=root / 'out_twins')
        except Exception as e:
            problems.append({'problem': 'the snapshot that stays cannot be restored after the deletes', 'error': f'{type(e).__name__}: {e}'[:160]})
    await r.close()
    return problems


async def clean_twice(root, encrypted):
    """two cleans in ONE process (library use, a long-lived caller), by the same object and by a fresh one: between them a snapshot object
    disappears without its chunks (an interrupted delete), so chunks that were referenced during the first clean are orphans for the
    second - which must remove exactly them"""
    global CACHE_MODE
    CACHE_MODE = 'none'
    problems = []
    users = await setup_users(root, encrypted)
    user = users[0]
    src = root / 'src'
    src.mkdir()
    store = Local(root / 'repo')
    for fresh_object in (False, True):
        r = await open_repo(root, user)
        with lib.quiet():
            (src / 'a').write_bytes(lib.content(900 + fresh_object, 900))
            keep = (await r.snapshot(paths=[src])).name
            (src / 'a').write_bytes(lib.content(910 + fresh_object, 1100))
            victim = (await r.snapshot(paths=[src])).name
            await r.clean()                                        # nothing to do; whatever it remembers must not matter later
            gone = [n for n in store.list_files('snapshots/') if n.endswith(victim)]
            assert len(gone) == 1, 'harness: snapshot object of the victim not found'
            for n in gone:
                store.delete(n)                                    # the snapshot object goes, its chunks stay (delete interrupted after phase 1)
            if fresh_object:
                await r.close()
                r = await open_repo(root, user)
            await r.clean()
            _, locs = await loaded(root, user)
            present = set(store.list_files('data/'))
            mine = present                                         # single key family in this repository besides the other users' (none wrote)
            if mine - set(locs):
                problems.append({'problem': 'second clean in one process left orphaned chunks', 'n': len(mine - set(locs)), 'fresh_object': fresh_object,
                                 'snapshot_object_removed': bool(gone)})
            if set(locs) - present:
                problems.append({'problem': 'second clean in one process removed referenced chunks', 'n': len(set(locs) - present)})
            await r.restore(snapshot_regex=f'^{keep}$', path=root / f'out_clean_twice_{int(fresh_object)}')
        await r.close()
    return problems


async def many_snapshots(root, encrypted, n_snapshots):
    """MORE snapshots than any window / batch / pool of the loader holds: every one of them is loaded (listed), and a clean by a
    shared-key user (or the owner) removes nothing that any of them references"""
    global CACHE_MODE
    CACHE_MODE = 'none'
    problems = []
    users = await setup_users(root, encrypted)
    owner = users[0]
    cleaner = next((u for u in users if u.family == owner.family and u.name != owner.name), owner)
    src = root / 'src'
    src.mkdir()
    r = await open_repo(root, owner)
    names = []
    with lib.quiet():
        for i in range(n_snapshots):
            (src / 'f').write_bytes(lib.content(9000 + i, 70))          # every snapshot has chunks of its own
            names.append((await r.snapshot(paths=[src])).name)
    await r.close()
    seen, locs = await loaded(root, cleaner)
    if len([n for n in names if n in seen]) != n_snapshots:
        problems.append({'problem': 'not every snapshot of the family is loaded', 'loaded': len([n for n in names if n in seen]), 'stored': n_snapshots})
    seen_o, locs_o = await loaded(root, owner)
    rc = await open_repo(root, cleaner)
    with lib.quiet():
        await rc.clean()
    await rc.close()
    present = set(Local(root / 'repo').list_files('data/'))
    # the truth about references is read WITHOUT the loader: every snapshot object is opened directly
    ro = await open_repo(root, owner)
    referenced = set()
    for path in Local(root / 'repo').list_files('snapshots/'):
        body = ro._decrypt_snapshot_body(Local(root / 'repo').download(path))
        referenced |= {ro._chunk_digest_to_location(d) for d in body['chunks']}
    await ro.close()
    if referenced - present:
        problems.append({'problem': 'clean removed chunks that a stored snapshot references', 'n': len(referenced - present), 'snapshots': n_snapshots, 'cleaned_by': cleaner.name})
    return problems


async def transient_listing_fault(root, encrypted):
    """ONE transient I/O error while the local backend walks snapshots/ during a delete: the command either fails having removed
    nothing, or completes having removed exactly what a fault-free delete removes"""
    import errno
    import replicat.backends.local as local_mod
    import replicat.utils.fs as fs_mod
    global CACHE_MODE
    CACHE_MODE = 'none'
    problems = []
    users = await setup_users(root, encrypted)
    user = users[0]
    src = root / 'src'
    src.mkdir()
    r = await open_repo(root, user)
    snaps = []
    snap_dir = (root / 'repo' / 'snapshots').resolve()
    with lib.quiet():
        for i in range(40):
            (src / 'a').write_bytes(lib.content(601 + i, 300))
            snaps.append(await r.snapshot(paths=[src]))
            if i >= 3 and len([p for p in snap_dir.iterdir() if p.is_dir()]) >= 3:
                break
    await r.close()
    # the walk visits the sub-directories of snapshots/ in os.scandir order: the snapshot to delete lives in the FIRST one visited,
    # the error hits the LAST one (so whatever was listed before the error has already been handed to the command)
    order = [Path(e.path).resolve() for e in os.scandir(snap_dir) if e.is_dir()]
    s1 = next(sn for sn in snaps if any(sn.name in f.name for f in order[0].iterdir()))
    for which, victim_dir in enumerate([order[-1]]):
        fired = {'n': 0}
        real_scandir = os.scandir

        def scandir(path='.'):
            p = Path(os.fspath(path)).resolve()
            if p == victim_dir and fired['n'] == 0:
                fired['n'] = 1
                raise OSError(errno.EIO, 'Input/output error', str(p))
            return real_scandir(path)

        class FakeOS:
            def __getattr__(self, name):
                return scandir if name == 'scandir' else getattr(os, name)

        before = set(Local(root / 'repo').list_files('data/'))
        rd = await open_repo(root, user)
        local_mod.os, fs_mod.os = FakeOS(), FakeOS()
        completed = True
        try:
            with lib.quiet():
                await rd.delete_snapshots([s1.name], confirm=False)
        except BaseException:
            completed = False
        finally:
            local_mod.os, fs_mod.os = os, os
        await rd.close()
        after = set(Local(root / 'repo').list_files('data/'))
        listed = [p for p in Local(root / 'repo').list_files('snapshots/')]
        gone = not any(s1.name in p for p in listed)
        _, locs = await loaded(root, user)
        if completed or gone:
            if after - set(locs):
                problems.append({'problem': 'delete completed under a transient listing fault but left chunks only the deleted snapshot referenced', 'n': len(after - set(locs))})
            if set(locs) - after:
                problems.append({'problem': 'delete under a transient listing fault removed referenced chunks', 'n': len(set(locs) - after)})
            break
        elif after != before:
            problems.append({'problem': 'a failed delete removed chunks', 'n': len(before - after)})
    return problems


def main():
    payload = lib.read_payload()
    tier, seed, prop = payload.get('tier', 'quick'), int(payload.get('seed', 0)), payload.get('prop', 'C02')
    failures, samples, cases = [], [], 0
    n_hist = 40 if tier == 'thorough' else 5
    for encrypted in (True, False):
        for h in range(n_hist):
            rnd = random.Random(seed * 1000 + h + (500 if encrypted else 0))
            with lib.scratch('vf_hist_') as root:
                cases += 1
                global CACHE_MODE, HASHING
                CACHE_MODE = ('per_user', 'shared', 'none')[h % 3]
                HASHING = (None, {'name': 'sha3', 'bits': 256}, {'name': 'sha2', 'bits': 384}, {'name': 'blake2b', 'length': 32}, None)[h % 5]
                lifetime = (False, True, False, 'one_object')[h % 4]
                if lifetime == 'one_object' and CACHE_MODE == 'per_user':
                    CACHE_MODE = 'shared'          # one object has one cache directory
                case = {'encrypted': encrypted, 'history': h, 'seed': seed, 'ops': 10, 'prop': prop, 'long_lived_objects': lifetime,
                        'snapshot_cache': CACHE_MODE, 'hashing': HASHING}
                try:
                    probs = asyncio.run(history(root, rnd, encrypted, prop, 10, long_lived=lifetime))
                except Exception as e:
                    import traceback
                    probs = [{'problem': 'exception in history', 'error': f'{type(e).__name__}: {e}'[:300], 'tb': traceback.format_exc()[-600:]}]
                if probs:
                    failures.append({'id': f'hist_{int(encrypted)}_{h}', 'class': None, 'case': case, 'detail': probs[:3]})
                if len(samples) < 3:
                    samples.append(case)
    if prop in ('C06', 'C08', 'C02'):
        for encrypted in ((True, False) if prop != 'C06' else (True,)):
            with lib.scratch('vf_hist_') as root:
                cases += 1
                try:
                    probs = asyncio.run(many_snapshots(root, encrypted, 45 if tier == 'thorough' else 21))
                except Exception as e:
                    import traceback
                    probs = [{'problem': 'exception', 'error': f'{type(e).__name__}: {e}'[:300], 'tb': traceback.format_exc()[-600:]}]
                if probs:
                    failures.append({'id': f'many_snapshots_{int(encrypted)}', 'class': None, 'case': {'encrypted': encrypted, 'scenario': 'more snapshots than any loader window'}, 'detail': probs[:3]})
    if prop in ('C08', 'C02'):
        for encrypted in (False,):
            with lib.scratch('vf_hist_') as root:
                cases += 1
                try:
                    probs = asyncio.run(transient_listing_fault(root, encrypted))
                except Exception as e:
                    import traceback
                    probs = [{'problem': 'exception', 'error': f'{type(e).__name__}: {e}'[:300], 'tb': traceback.format_exc()[-600:]}]
                if probs:
                    failures.append({'id': 'transient_listing_fault', 'class': None, 'case': {'encrypted': encrypted, 'scenario': 'one I/O error while listing snapshots/ during delete'}, 'detail': probs[:3]})
    if prop in ('C07', 'C08', 'C02'):
        for encrypted in (True, False):
            with lib.scratch('vf_hist_') as root:
                cases += 1
                try:
                    probs = asyncio.run(twins(root, encrypted))
                except Exception as e:
                    import traceback
                    probs = [{'problem': 'exception', 'error': f'{type(e).__name__}: {e}'[:300], 'tb': traceback.format_exc()[-600:]}]
                if probs:
                    failures.append({'id': f'twins_{int(encrypted)}', 'class': None, 'case': {'encrypted': encrypted, 'scenario': 'several snapshots deleted in one call'}, 'detail': probs[:3]})
    if prop == 'C07':
        for encrypted in (True, False):
            with lib.scratch('vf_hist_') as root:
                cases += 1
                try:
                    probs = asyncio.run(reordered_arguments(root, encrypted))
                except Exception as e:
                    import traceback
                    probs = [{'problem': 'exception', 'error': f'{type(e).__name__}: {e}'[:300], 'tb': traceback.format_exc()[-600:]}]
                if probs:
                    failures.append({'id': f'reordered_{int(encrypted)}', 'class': None, 'case': {'encrypted': encrypted, 'scenario': 'equal-sized unchanged files named in another order'}, 'detail': probs[:3]})
    if prop == 'C08':
        for encrypted in (True, False):
            with lib.scratch('vf_hist_') as root:
                cases += 1
                try:
                    probs = asyncio.run(clean_twice(root, encrypted))
                except Exception as e:
                    import traceback
                    probs = [{'problem': 'exception', 'error': f'{type(e).__name__}: {e}'[:300], 'tb': traceback.format_exc()[-600:]}]
                if probs:
                    failures.append({'id': f'clean_twice_{int(encrypted)}', 'class': None, 'case': {'encrypted': encrypted, 'scenario': 'two cleans in one process around an interrupted delete'}, 'detail': probs[:3]})
        # completeness at scale: a snapshot interrupted just before its snapshot object was written leaves MANY orphans (more than
        # any plausible batch / page / pool size); one clean must remove all of them and nothing of the other users
        for encrypted in (True, False):
            with lib.scratch('vf_hist_') as root:
                cases += 1
                try:
                    probs = asyncio.run(many_orphans(root, encrypted, 1200 if tier == 'thorough' else 700))
                except Exception as e:
                    import traceback
                    probs = [{'problem': 'exception', 'error': f'{type(e).__name__}: {e}'[:300], 'tb': traceback.format_exc()[-600:]}]
                if probs:
                    failures.append({'id': f'orphans_{int(encrypted)}', 'class': None, 'case': {'encrypted': encrypted, 'orphans': '>= 700'}, 'detail': probs[:3]})
    if prop == 'C06':
        with lib.scratch('vf_hist_') as root:
            cases += 9
            for p in wrong_password_cases(root):
                failures.append({'id': 'unlock', 'class': None, 'case': {'prop': prop}, 'detail': p})
    lib.emit({'status': 'ok', 'cases': cases, 'distinct': cases, 'failures': failures[:10], 'samples': samples,
              'exhaustive': False, 'reproduced': bool(failures)})


if __name__ == '__main__':
    main()
    # a history step that failed inside restore can leave loader threads of the code under test waiting for ever (known finding D20):
    # the report is out, do not wait for them
    sys.stdout.flush()
    sys.__stdout__.flush()
    os._exit(0)
