"""C10.so_conformance - bounded stand-in: the SHIPPED _replicat_adapters*.so (which the proof cannot see)
is run through the real Python adapter against the proved contract.
Bound: all 1 <= min <= max <= 12 with an aligned length in [min,max]; stream lengths <= 3*max+2;
ALL segmentations of streams <= 7 bytes and seeded random segmentations above; 3 keys."""
import itertools
import os
import random
import sys

sys.path.insert(0, os.path.dirname(os.path.abspath(__file__)))
import lib  # noqa: E402
from replicat.utils import adapters  # noqa: E402


def segmentations(data, rnd, limit):
    n = len(data)
    if n <= 7:
        for mask in range(1 << max(n - 1, 0)):
            cuts = [i + 1 for i in range(n - 1) if mask >> i & 1]
            yield [data[a:b] for a, b in zip([0] + cuts, cuts + [n])]
        yield [b'', data, b'']
        yield []if n == 0 else [data[:1], b'', data[1:]]
    else:
        yield [data]
        yield [data[i:i + 1] for i in range(n)]
        for _ in range(limit):
            k = rnd.randint(1, min(6, n))
            cuts = sorted(rnd.sample(range(1, n), k - 1)) if k > 1 else []
            segs = [data[a:b] for a, b in zip([0] + cuts, cuts + [n])]
            if rnd.random() < 0.3:
                segs.insert(rnd.randint(0, len(segs)), b'')
            yield segs


def check(m, M, key, data, segs):
    ch = adapters.gclmulchunker(min_length=m, max_length=M)
    out = list(ch(iter(segs), params=key))
    out2 = list(ch(iter(segs), params=key))
    problems = []
    if b''.join(out) != data:
        problems.append('not lossless')
    if any(len(c) == 0 for c in out):
        problems.append('empty chunk')
    if out != out2:
        problems.append('non-deterministic for the same segmentation')
    pos = 0
    for c in out:
        if len(data) - pos >= 2 * M:          # begins outside the tail zone
            if not (m <= len(c) <= M and len(c) % 4 == 0):
                problems.append(f'chunk at {pos} of length {len(c)} violates bounds/alignment')
        pos += len(c)
    return out, problems


def main():
    payload = lib.read_payload()
    tier, seed = payload.get('tier', 'quick'), int(payload.get('seed', 0))
    rnd = random.Random(seed)
    keys = [None, b'\x01' * 16, bytes(range(1, 17))]
    maxM = 12 if tier == 'thorough' else 9
    cases, failures, samples, distinct = 0, [], [], set()
    for M in range(1, maxM + 1):
        for m in range(1, M + 1):
            if (m + 3) // 4 * 4 > M:
                continue
            for n in sorted({0, 1, m, M - 1, M, M + 1, 2 * M - 1, 2 * M, 2 * M + 1, 3 * M + 2} | set(range(0, 8))):
                if n < 0:
                    continue
                data = random.Random(seed * 1000 + n).randbytes(n)
                for key in (keys if tier == 'thorough' else keys[:2]):
                    ref = None
                    for segs in segmentations(data, rnd, 6 if tier == 'thorough' else 2):
                        cases += 1
                        distinct.add((m, M, n, key, tuple(map(len, segs))))
                        out, problems = check(m, M, key, data, segs)
                        # segmentation independence outside the tail zone
                        lens = []
                        pos = 0
                        for c in out:
                            if n - pos >= 2 * M:
                                lens.append(len(c))
                            pos += len(c)
                        if ref is None:
                            ref = lens
                        elif ref[:min(len(ref), len(lens))] != lens[:min(len(ref), len(lens))]:
                            problems.append('chunks outside the tail zone depend on the segmentation')
                        if problems:
                            failures.append({'id': f'm{m}M{M}n{n}', 'class': 'D4' if M % 4 else None,
                                             'case': {'m': m, 'M': M, 'n': n, 'key': key.hex() if key else None,
                                                      'segments': [len(s) for s in segs]}, 'detail': problems})
                        if len(samples) < 3 and n > 8:
                            samples.append({'m': m, 'M': M, 'n': n, 'segments': [len(s) for s in segs], 'chunks': [len(c) for c in out]})
    # LARGE pieces at round sizes (powers of two, multiples of 1 MiB / 4 MiB, the repository's 16 MiB read block): any slicing, batching
    # or staging threshold inside the adapter lies on such a size
    big = random.Random(seed + 77).randbytes(2 ** 24 + 5)
    for (m, M) in ((64, 256), (4096, 65536)):
        for P in (2 ** 16, 2 ** 20, 2 ** 22, 2 ** 22 - 4, 2 ** 23, 3 * 2 ** 22, 2 ** 24, 10 ** 6, 1_024_000):
            data = big[:P + 5]
            ref = None
            for segs in ([data[:P], data[P:]], [data[:P // 2], data[P // 2:P], data[P:]], [data]):
                cases += 1
                distinct.add((m, M, len(data), None, tuple(map(len, segs))))
                out, problems = check(m, M, None, data, segs)
                lens, pos = [], 0
                for c in out:
                    if len(data) - pos >= 2 * M:
                        lens.append(len(c))
                    pos += len(c)
                if ref is None:
                    ref = lens
                elif ref[:min(len(ref), len(lens))] != lens[:min(len(ref), len(lens))]:
                    problems.append('chunks outside the tail zone depend on the segmentation')
                if problems:
                    failures.append({'id': f'big_m{m}M{M}P{P}', 'class': None, 'case': {'m': m, 'M': M, 'n': len(data), 'segments': [len(x) for x in segs]}, 'detail': problems})
    # LARGE maximum lengths (above the default 5 120 000): thresholds derived from the DEFAULT instead of the configured maximum show only here
    huge = random.Random(seed + 78).randbytes(30_000_000 + 3)
    for (m, M) in ((1_000_000, 8_000_000), (4_000_000, 12_000_000)):
        ref = None
        for piece in (3_500_001, 2 ** 24, len(huge)):
            segs = [huge[j:j + piece] for j in range(0, len(huge), piece)]
            cases += 1
            distinct.add((m, M, len(huge), None, piece))
            out, problems = check(m, M, None, huge, segs)
            lens, pos = [], 0
            for c in out:
                if len(huge) - pos >= 2 * M:
                    lens.append(len(c))
                pos += len(c)
            if ref is None:
                ref = lens
            elif ref[:min(len(ref), len(lens))] != lens[:min(len(ref), len(lens))]:
                problems.append('chunks outside the tail zone depend on the segmentation')
            if problems:
                failures.append({'id': f'huge_m{m}M{M}P{piece}', 'class': None, 'case': {'m': m, 'M': M, 'n': len(huge), 'piece': piece}, 'detail': problems[:4]})
    del huge
    # INTERLEAVED runs (two snapshots in one process, a run abandoned half way): each run's output is a function of its own bytes
    # and parameters only - never of other runs, whether on the same adapter object or on another one
    for (m, M) in ((8, 64), (64, 256)):
        for share_adapter in (False, True):
            cases += 1
            streams = [random.Random(seed + 900 + i).randbytes(3000 + 17 * i) for i in range(3)]
            segs = [[s_[j:j + 333] for j in range(0, len(s_), 333)] for s_ in streams]
            alone = [list(adapters.gclmulchunker(min_length=m, max_length=M)(iter(sg), params=keys[1])) for sg in segs]
            first = adapters.gclmulchunker(min_length=m, max_length=M)
            gens = [(first if share_adapter else adapters.gclmulchunker(min_length=m, max_length=M))(iter(sg), params=keys[1]) for sg in segs]
            abandoned = (first if share_adapter else adapters.gclmulchunker(min_length=m, max_length=M))(iter(segs[0]), params=keys[1])
            next(abandoned, None)                                    # a run that is started and never finished
            outs = [[] for _ in gens]
            live = list(range(len(gens)))
            while live:
                for gi in list(live):
                    try:
                        outs[gi].append(next(gens[gi]))
                    except StopIteration:
                        live.remove(gi)
            problems = []
            for i in range(len(gens)):
                if outs[i] != alone[i]:
                    problems.append(f'stream {i}: interleaved run differs from the run alone ({len(outs[i])} vs {len(alone[i])} chunks, lossless={b"".join(outs[i]) == streams[i]})')
            if problems:
                failures.append({'id': f'interleaved_m{m}M{M}_{"same" if share_adapter else "separate"}_adapter', 'class': None,
                                 'case': {'m': m, 'M': M, 'streams': [len(s_) for s_ in streams], 'one_adapter_object': share_adapter}, 'detail': problems})
    seen = set()
    uniq = []
    for f in failures:
        if f['id'] not in seen:
            seen.add(f['id'])
            uniq.append(f)
    lib.emit({'status': 'ok', 'cases': cases, 'distinct': len(distinct), 'failures': uniq[:20], 'samples': samples,
              'exhaustive': False, 'reproduced': bool(uniq)})


if __name__ == '__main__':
    main()
