"""C11.resync - bounded statistical stand-in on the shipped chunker: after aligned local edits of
high-entropy streams the boundaries re-synchronise within a bounded distance; different keys give
different boundaries; streams sharing a suffix share chunks from the first common boundary
(up to the tail zone).  Bound: streams of 24-64 KiB, min=64, max=1024 (min <= max/16), seeded."""
import os
import random
import sys

sys.path.insert(0, os.path.dirname(os.path.abspath(__file__)))
import lib  # noqa: E402
from replicat.utils import adapters  # noqa: E402

M_MIN, M_MAX = 64, 1024
RESYNC_FACTOR = 8


def boundaries(data, key, piece=4096):
    ch = adapters.gclmulchunker(min_length=M_MIN, max_length=M_MAX)
    out, pos = [], 0
    for c in ch((data[i:i + piece] for i in range(0, len(data), piece)), params=key):
        pos += len(c)
        out.append(pos)
    return out


def main():
    payload = lib.read_payload()
    tier, seed = payload.get('tier', 'quick'), int(payload.get('seed', 0))
    rnd = random.Random(seed)
    n_cases = 300 if tier == 'thorough' else 16
    failures, samples, cases = [], [], 0
    for c in range(n_cases):
        n = rnd.choice([24, 32, 64]) * 1024
        data = rnd.randbytes(n)
        key = rnd.randbytes(16)
        base = boundaries(data, key)
        kind = rnd.choice(['insert', 'delete', 'overwrite'])
        at = rnd.randrange(0, n - 8192, 4)
        ln = rnd.choice([4, 8, 64, 256, 1024])
        if kind == 'insert':
            edited = data[:at] + rnd.randbytes(ln) + data[at:]
            shift = ln
        elif kind == 'delete':
            edited = data[:at] + data[at + ln:]
            shift = -ln
        else:
            edited = data[:at] + rnd.randbytes(ln) + data[at + ln:]
            shift = 0
        eb = boundaries(edited, key)
        cases += 1
        # boundaries of the edited stream mapped back into original coordinates, after the edit window
        limit = at + max(ln, 0) + RESYNC_FACTOR * M_MAX
        tail = n - 2 * M_MAX
        a = {x for x in base if limit <= x <= tail}
        b = {x - shift for x in eb if limit <= x - shift <= tail}
        case = {'n': n, 'kind': kind, 'at': at, 'len': ln, 'seed': seed, 'case': c}
        if a != b:
            failures.append({'id': f'resync{c}', 'class': None, 'case': case,
                             'detail': {'only_original': sorted(a - b)[:5], 'only_edited': sorted(b - a)[:5]}})
        # prefix before the edit window is untouched
        pa = [x for x in base if x <= at - M_MAX]
        pb = [x for x in eb if x <= at - M_MAX]
        if pa != pb:
            failures.append({'id': f'prefix{c}', 'class': None, 'case': case, 'detail': 'boundaries before the edit changed'})
        # different key -> different boundaries
        other = boundaries(data, rnd.randbytes(16))
        if other == base:
            failures.append({'id': f'key{c}', 'class': None, 'case': case, 'detail': 'two random keys gave identical boundaries'})
        # shared suffix: P1+S and P2+S agree from the first common boundary up to the tail zone
        p2 = rnd.randbytes(rnd.randrange(0, 4096, 4))
        cut = rnd.randrange(0, n // 2, 4)
        s2 = boundaries(p2 + data[cut:], key)
        sa = [x - cut for x in base if x >= cut]
        sb = [x - len(p2) for x in s2 if x >= len(p2)]
        common = sorted(set(sa) & set(sb))
        if common:
            f0 = common[0]
            ta = [x for x in sa if f0 <= x <= n - cut - 2 * M_MAX]
            tb = [x for x in sb if f0 <= x <= n - cut - 2 * M_MAX]
            if ta != tb:
                failures.append({'id': f'suffix{c}', 'class': None, 'case': case, 'detail': 'chunks differ after a common boundary'})
        if len(samples) < 3:
            samples.append(dict(case, boundaries=len(base)))
    lib.emit({'status': 'ok', 'cases': cases, 'distinct': cases, 'failures': failures[:10], 'samples': samples,
              'exhaustive': False, 'reproduced': bool(failures)})


if __name__ == '__main__':
    main()
