"""C11.resync - bounded statistical stand-in on the shipped chunker: after aligned local edits of
high-entropy streams the boundaries re-synchronise within a bounded distance; different keys give
different boundaries; streams sharing a suffix share chunks from the first common boundary
(up to the tail zone).  Bound: streams of 24-64 KiB, min=64, max=1024 (min <= max/16), seeded."""
import os
import random
import sys

sys.path.insert(0, os.path.dirname(os.path.abspath(__file__)))
import lib  # noqa: E402
from replicat.utils import adapters  # noqa: E402

M_MIN, M_MAX = 64, 1024
RESYNC_FACTOR = 8


def boundaries(data, key, piece=4096):
    ch = adapters.gclmulchunker(min_length=M_MIN, max_length=M_MAX)
    out, pos = [], 0
    for c in ch((data[i:i + piece] for i in range(0, len(data), piece)), params=key):
        pos += len(c)
        out.append(pos)
    return out


def repository_level(rnd):
    import asyncio
    from replicat.repository import Repository
    from replicat.backends.local import Local
    data = rnd.randbytes(60_000)
    problems = []

    async def lengths(root, encrypted, tag):
        r = Repository(Local(root / tag), concurrent=2, quiet=True, cache_directory=None)
        with lib.quiet():
            res = await r.init(password=b'pw' if encrypted else None,
                               settings={'encryption': {'kdf': dict(lib.FAST_KDF)} if encrypted else None, 'chunking': {'min_length': M_MIN, 'max_length': M_MAX}})
            r2 = Repository(Local(root / tag), concurrent=2, quiet=True, cache_directory=None)
            await r2.unlock(password=b'pw' if encrypted else None, key=r.serialize(res.key) if encrypted else None)
            (root / f'{tag}.bin').write_bytes(data)
            snap = await r2.snapshot(paths=[root / f'{tag}.bin'])
            key = r2.props.private['chunker_params'] if encrypted else None
            await r2.close()
        await r.close()
        parts = sorted(snap.data['files'][0]['chunks'], key=lambda c: c['counter'])
        got, pos = [], 0
        for c in parts:
            pos += c['range'][1] - c['range'][0]
            got.append(pos)
        want = boundaries(data, key)
        if got != want:
            problems.append({'problem': 'the repository does not cut where its own chunker key cuts', 'repository': tag, 'encrypted': encrypted,
                             'first_cuts': got[:4], 'key_cuts': want[:4]})
        return got

    async def shared_user_cuts(root):
        # a shared-key user (key written by add-key, opened by a fresh object from the key FILE contents) cuts exactly like the owner
        r = Repository(Local(root / 'fam'), concurrent=2, quiet=True, cache_directory=None)
        with lib.quiet():
            res = await r.init(password=b'pw', settings={'encryption': {'kdf': dict(lib.FAST_KDF)}, 'chunking': {'min_length': M_MIN, 'max_length': M_MAX}})
            k1 = r.serialize(res.key)
            k2 = r.serialize((await r.add_key(password=b'pw2', shared=True, settings={'encryption': {'kdf': dict(lib.FAST_KDF)}})).new_key)
        await r.close()
        out = []
        for pw, kb in ((b'pw', k1), (b'pw2', k2)):
            u = Repository(Local(root / 'fam'), concurrent=2, quiet=True, cache_directory=None)
            with lib.quiet():
                await u.unlock(password=pw, key=kb)
                out.append([len(c) for c in u.props.chunkify(iter([data]))])
            await u.close()
        if out[0] != out[1]:
            problems.append({'problem': 'a shared-key user cuts the same data differently from the owner of the family', 'owner_first': out[0][:4], 'shared_first': out[1][:4]})

    with lib.scratch('vf_c11_') as root:
        asyncio.run(shared_user_cuts(root))
        a = asyncio.run(lengths(root, True, 'a'))
        b = asyncio.run(lengths(root, True, 'b'))
        c = asyncio.run(lengths(root, False, 'plain'))
        if a == b or a == c:
            problems.append({'problem': 'repositories with different chunker keys cut the same data identically', 'a_equals_b': a == b, 'a_equals_plain': a == c})
    return problems


def multi_file_resync(rnd):
    """repository level, SEVERAL files: an edit that changes the length of an earlier file (by a non-multiple of the alignment) must not
    re-chunk the unchanged files that follow it in the stream (files are padded to the alignment inside the stream).  Sizes around
    1 MiB / 2 MiB so that any bundling / buffering threshold of the stream is crossed by an unaligned file."""
    import asyncio
    from replicat.repository import Repository
    from replicat.backends.local import Local
    problems = []

    async def go(root, middle_size):
        r = Repository(Local(root / 'repo'), concurrent=2, quiet=True, cache_directory=None)
        src = root / 'src'
        src.mkdir()
        (src / 'small').write_bytes(rnd.randbytes(1001))
        (src / 'middle').write_bytes(rnd.randbytes(middle_size))
        (src / 'zlarge').write_bytes(rnd.randbytes(3 * 2 ** 20 + 3))
        with lib.quiet():
            await r.init(settings={'encryption': None, 'chunking': {'min_length': 2048, 'max_length': 32768}})
            await r.unlock()
            s1 = await r.snapshot(paths=[src])
            with open(src / 'middle', 'ab') as f:
                f.write(b'!')
            s2 = await r.snapshot(paths=[src])
        await r.close()

        def chunks_of(snap, name):
            f = next(x for x in snap.data['files'] if x['path'].endswith(name))
            return [snap.chunks[c['index']] for c in f['chunks']]
        old, new = set(chunks_of(s1, 'zlarge')), chunks_of(s2, 'zlarge')
        fresh = [c for c in new if c not in old]
        if len(fresh) > 6:
            problems.append({'problem': 'one byte appended to an earlier file re-chunked an unchanged later file', 'middle_size': middle_size,
                             'new_chunks_of_the_unchanged_file': len(fresh), 'of': len(new)})

    for middle in (300_001, 2 ** 20 - 1001 - 3 + 2, 2 ** 20 + 1, 2 ** 21 + 3):
        with lib.scratch('vf_c11m_') as root:
            asyncio.run(go(root, middle))

    async def many(root, n_files):
        # MORE files than any batch / slice of the stream holds: one tiny file added at the front of the stream must not re-chunk
        # files far behind it
        r = Repository(Local(root / 'repo'), concurrent=2, quiet=True, cache_directory=None)
        src = root / 'src'
        src.mkdir()
        for i in range(n_files):
            (src / f'f{i:05d}').write_bytes(rnd.randbytes(40 + (i % 7)))
        with lib.quiet():
            await r.init(settings={'encryption': None, 'chunking': {'min_length': 8, 'max_length': 128}})
            await r.unlock()
            s1 = await r.snapshot(paths=[src])
            (src / 'a_first').write_bytes(b'!')
            s2 = await r.snapshot(paths=[src])
        await r.close()
        old = set(s1.chunks)
        order = sorted(s2.data['files'], key=lambda f: (sum(c['range'][1] - c['range'][0] for c in f['chunks']), f['path']))
        far = []
        for rank, f in enumerate(order):
            if rank > 200 and any(s2.chunks[c['index']] not in old for c in f['chunks']):
                far.append(rank)
        if far:
            problems.append({'problem': 'a one-byte file added at the front of the stream re-chunked files far behind it', 'middle_size': f'{n_files} files',
                             'stream_ranks_touched': far[:6], 'files': n_files})

    with lib.scratch('vf_c11n_') as root:
        asyncio.run(many(root, 2300))
    return problems


def main():
    payload = lib.read_payload()
    tier, seed = payload.get('tier', 'quick'), int(payload.get('seed', 0))
    rnd = random.Random(seed)
    n_cases = 300 if tier == 'thorough' else 16
    failures, samples, cases = [], [], 0
    for c in range(n_cases):
        n = rnd.choice([24, 32, 64]) * 1024
        data = rnd.randbytes(n)
        key = rnd.randbytes(16)
        base = boundaries(data, key)
        kind = rnd.choice(['insert', 'delete', 'overwrite'])
        at = rnd.randrange(0, n - 8192, 4)
        ln = rnd.choice([4, 8, 64, 256, 1024])
        if kind == 'insert':
            edited = data[:at] + rnd.randbytes(ln) + data[at:]
            shift = ln
        elif kind == 'delete':
            edited = data[:at] + data[at + ln:]
            shift = -ln
        else:
            edited = data[:at] + rnd.randbytes(ln) + data[at + ln:]
            shift = 0
        eb = boundaries(edited, key)
        cases += 1
        # boundaries of the edited stream mapped back into original coordinates, after the edit window
        limit = at + max(ln, 0) + RESYNC_FACTOR * M_MAX
        tail = n - 2 * M_MAX
        a = {x for x in base if limit <= x <= tail}
        b = {x - shift for x in eb if limit <= x - shift <= tail}
        case = {'n': n, 'kind': kind, 'at': at, 'len': ln, 'seed': seed, 'case': c}
        if a != b:
            failures.append({'id': f'resync{c}', 'class': None, 'case': case,
                             'detail': {'only_original': sorted(a - b)[:5], 'only_edited': sorted(b - a)[:5]}})
        # prefix before the edit window is untouched
        pa = [x for x in base if x <= at - M_MAX]
        pb = [x for x in eb if x <= at - M_MAX]
        if pa != pb:
            failures.append({'id': f'prefix{c}', 'class': None, 'case': case, 'detail': 'boundaries before the edit changed'})
        # different key -> different boundaries
        other = boundaries(data, rnd.randbytes(16))
        if other == base:
            failures.append({'id': f'key{c}', 'class': None, 'case': case, 'detail': 'two random keys gave identical boundaries'})
        # shared suffix: P1+S and P2+S agree from the first common boundary up to the tail zone
        p2 = rnd.randbytes(rnd.randrange(0, 4096, 4))
        cut = rnd.randrange(0, n // 2, 4)
        s2 = boundaries(p2 + data[cut:], key)
        sa = [x - cut for x in base if x >= cut]
        sb = [x - len(p2) for x in s2 if x >= len(p2)]
        common = sorted(set(sa) & set(sb))
        if common:
            f0 = common[0]
            ta = [x for x in sa if f0 <= x <= n - cut - 2 * M_MAX]
            tb = [x for x in sb if f0 <= x <= n - cut - 2 * M_MAX]
            if ta != tb:
                failures.append({'id': f'suffix{c}', 'class': None, 'case': case, 'detail': 'chunks differ after a common boundary'})
        if len(samples) < 3:
            samples.append(dict(case, boundaries=len(base)))
    # repository level: the boundaries a REPOSITORY cuts are the ones its own chunker key gives (checked against the adapter
    # driven directly with the key's chunker_params), so independent keys and unencrypted repositories cut differently
    try:
        for prob in repository_level(rnd):
            failures.append({'id': 'repository_key', 'class': None, 'case': {'level': 'repository'}, 'detail': prob})
        cases += 3
    except Exception as e:
        import traceback
        failures.append({'id': 'repository_key', 'class': None, 'case': {'level': 'repository'},
                         'detail': {'problem': 'exception', 'error': f'{type(e).__name__}: {e}'[:200], 'tb': traceback.format_exc()[-500:]}})
    try:
        for prob in multi_file_resync(rnd):
            failures.append({'id': f'multi_file_{prob["middle_size"]}', 'class': None, 'case': {'level': 'repository, several files'}, 'detail': prob})
        cases += 4
    except Exception as e:
        import traceback
        failures.append({'id': 'multi_file', 'class': None, 'case': {'level': 'repository, several files'},
                         'detail': {'problem': 'exception', 'error': f'{type(e).__name__}: {e}'[:200], 'tb': traceback.format_exc()[-500:]}})
    lib.emit({'status': 'ok', 'cases': cases, 'distinct': cases, 'failures': failures[:10], 'samples': samples,
              'exhaustive': False, 'reproduced': bool(failures)})


if __name__ == '__main__':
    main()
