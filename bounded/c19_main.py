"""C19.main.precedence - bounded stand-in on the real main(): CLI > environment > profile > default section >
built-in default, for every option, every subset of the sources in which it is set (complete), for the commands
snapshot / restore / init and the backends local, s3c and a custom backend found through the namespace package.
`_cmd_handler` is replaced by a recorder; argparse, config and cli are the real code."""
import asyncio
import itertools
import os
import sys
import textwrap
from pathlib import Path

sys.path.insert(0, os.path.dirname(os.path.abspath(__file__)))
import lib  # noqa: E402

CUSTOM = '''
from replicat.backends.base import Backend
class Custom(Backend):
    def __init__(self, connection_string, *, token='builtin-token', level=3, flag=False, legacy: bool = True, secret: str = 'builtin-secret', timeout=30):
        self.connection_string, self.token, self.level, self.flag = connection_string, token, level, flag
        self.legacy, self.secret = legacy, secret
        self.timeout = timeout
    async def exists(self, name): return False
    async def upload(self, name, data): pass
    async def upload_stream(self, name, stream, length, chunk_size=1): pass
    async def download(self, name): return b''
    async def download_stream(self, name, stream, chunk_size=1): pass
    async def list_files(self, prefix=''): return []
    async def delete(self, name): pass
Client = Custom
'''

SOURCES = ('cli', 'env', 'profile', 'default')

# option -> per source: how to set it, and the python value it must produce
OPTIONS = {
    'concurrent': {
        'cli': (['-c', '11'], 11), 'profile': ('concurrent = 7', 7), 'default': ('concurrent = 3', 3), 'builtin': 5,
        'get': lambda rec: rec['args'].concurrent},
    'quiet': {
        'cli': (['-q'], True), 'profile': ('hide-progress = true', True), 'default': ('hide-progress = true', True), 'builtin': False,
        'get': lambda rec: rec['args'].quiet},
    'cache_directory': {
        'cli': (['--cache-directory', '/c/cli'], Path('/c/cli')), 'profile': ('cache-directory = "/c/profile"', Path('/c/profile')),
        'default': ('cache-directory = "/c/default"', Path('/c/default')), 'builtin': 'DEFAULT_CACHE',
        'get': lambda rec: rec['args'].cache_directory},
    'password': {
        'cli': (['-p', 'pw-cli'], b'pw-cli'), 'env': ({'REPLICAT_PASSWORD': 'pw-env'}, b'pw-env'),
        'profile': ('password = "pw-profile"', b'pw-profile'), 'default': ('password = "pw-default"', b'pw-default'), 'builtin': None,
        'get': lambda rec: rec['args'].password},
    # one spelling per option inside the file: the default section is INHERITED by the profile, so `password` there plus
    # `password-file` in the profile (or key / key-file) is the documented "cannot be used together" case, not a precedence case
    'key_file': {
        'cli': (['-K', '@TMP@/kf_cli'], b'key-cli'), 'profile': ('key-file = "@TMP@/kf_profile"', b'key-profile-file'),
        'default': ('key-file = "@TMP@/kf_default"', b'key-default'), 'builtin': None,
        'get': lambda rec: rec['args'].key},
    'key_inline': {
        'cli': (['-K', '@TMP@/kf_cli'], b'key-cli'), 'profile': ('key = "key-profile"', b'key-profile'),
        'default': ('key = "key-default-inline"', b'key-default-inline'), 'builtin': None,
        'get': lambda rec: rec['args'].key},
    'password_file': {
        'cli': (['-P', '@TMP@/pf_cli'], b'pw-file-cli\n'), 'env': ({'REPLICAT_PASSWORD': 'pw-env2'}, b'pw-env2'),
        'profile': ('password-file = "@TMP@/pf_profile"', b'pw-file-profile\r\n'), 'default': ('password-file = "@TMP@/pf_default"', b'pw-file-default\n'), 'builtin': None,
        'get': lambda rec: rec['args'].password},
    'no_cache': {  # the option `no-cache` itself (how it combines with `cache-directory` is not a precedence question)
        'cli': (['--no-cache'], None), 'profile': ('no-cache = true', None),
        'default': ('no-cache = false', 'DEFAULT_CACHE'), 'builtin': 'DEFAULT_CACHE',
        'get': lambda rec: rec['args'].cache_directory},
    'repository': {
        'cli': (['-r', 'custom:conn-cli'], 'conn-cli'), 'env': ({'REPLICAT_REPOSITORY': 'custom:conn-env'}, 'conn-env'),
        'profile': ('repository = "custom:conn-profile"', 'conn-profile'), 'default': ('repository = "custom:conn-default"', 'conn-default'),
        'builtin': 'CWD', 'get': lambda rec: rec['connection_string']},
    'token': {     # custom backend option (string)
        'cli': (['--token', 'tok-cli'], 'tok-cli'), 'env': ({'CUSTOM_TOKEN': 'tok-env'}, 'tok-env'),
        'profile': ('token = "tok-profile"', 'tok-profile'), 'default': ('token = "tok-default"', 'tok-default'), 'builtin': 'builtin-token',
        'get': lambda rec: rec['backend'].token, 'backend': 'custom'},
    'level': {     # custom backend option (typed: the same coercion whichever source supplied it)
        'cli': (['--level', '17'], 17), 'env': ({'CUSTOM_LEVEL': '18'}, 18),
        'profile': ('level = 19', 19), 'default': ('level = "20"', 20), 'builtin': 3,
        'get': lambda rec: rec['backend'].level, 'backend': 'custom'},
    'flag': {
        'cli': (['--flag', 'true'], True), 'env': ({'CUSTOM_FLAG': 'True'}, True),
        'profile': ('flag = true', True), 'default': ('flag = "true"', True), 'builtin': False,
        'get': lambda rec: rec['backend'].flag, 'backend': 'custom'},
    'legacy': {    # ANNOTATED custom options: the text of a value means the same whichever source supplied it
        'cli': (['--legacy', 'false'], False), 'env': ({'CUSTOM_LEGACY': 'False'}, False),
        'profile': ('legacy = false', False), 'default': ('legacy = "false"', False), 'builtin': True,
        'get': lambda rec: rec['backend'].legacy, 'backend': 'custom'},
    'secret': {
        'cli': (['--secret', '4455'], 4455), 'env': ({'CUSTOM_SECRET': '4466'}, 4466),
        'profile': ('secret = 4477', 4477), 'default': ('secret = "4488"', 4488), 'builtin': 'builtin-secret',
        'get': lambda rec: rec['backend'].secret, 'backend': 'custom'},
    'timeout': {   # the text `none` is a VALUE (None) wherever it is given, not "option absent"
        'cli': (['--timeout', 'none'], None), 'env': ({'CUSTOM_TIMEOUT': 'None'}, None),
        'profile': ('timeout = 9', 9), 'default': ('timeout = "none"', None), 'builtin': 30,
        'get': lambda rec: rec['backend'].timeout, 'backend': 'custom'},
    'region': {    # s3c backend option
        'cli': (['--region', 'r-cli'], 'r-cli'), 'env': ({'S3C_REGION': 'r-env'}, 'r-env'),
        'profile': ('region = "r-profile"', 'r-profile'), 'default': ('region = "r-default"', 'r-default'), 'builtin': 'REQUIRED',
        'get': lambda rec: rec['backend'].region, 'backend': 's3c'},
    # the environment names of the other built-in adapters are the documented ones (README: S3_REGION, B2_KEY_ID): an adapter that
    # derives from another named adapter still reads ITS OWN variables
    's3-region': {
        'cli': (['--region', 'r-cli'], 'r-cli'), 'env': ({'S3_REGION': 'r-env'}, 'r-env'),
        'profile': ('region = "r-profile"', 'r-profile'), 'default': ('region = "r-default"', 'r-default'), 'builtin': 'REQUIRED',
        'get': lambda rec: rec['backend'].region, 'backend': 's3'},
    'b2-key-id': {
        'cli': (['--key-id', 'k-cli'], 'k-cli'), 'env': ({'B2_KEY_ID': 'k-env'}, 'k-env'),
        'profile': ('key-id = "k-profile"', 'k-profile'), 'default': ('key-id = "k-default"', 'k-default'), 'builtin': 'REQUIRED',
        'get': lambda rec: rec['backend'].key_id, 'backend': 'b2'},
}
COMMANDS = {'snapshot': ['snapshot', 'some/path'], 'restore': ['restore'], 'init': ['init']}


def subst(how, tmp):
    if isinstance(how, str):
        return how.replace('@TMP@', str(tmp))
    if isinstance(how, list):
        return [subst(x, tmp) for x in how]
    if isinstance(how, dict):
        return {k: subst(v, tmp) for k, v in how.items()}
    return how


def run_main(argv, env, config_text, tmp):
    # a fresh parser state per run: argparse set_defaults() mutates the shared parent actions, which
    # only matters because this harness calls main() many times in one process
    import importlib
    import replicat.utils.cli as _cli
    importlib.reload(_cli)
    import replicat.__main__ as m
    importlib.reload(m)
    from replicat.utils import config as cfgmod
    rec = {}

    async def handler(backend_type, connection_string, args, settings):
        rec.update(backend_type=backend_type, connection_string=connection_string, args=args, settings=settings)
        rec['backend'] = m._instantiate_backend(backend_type, connection_string, vars(args))

    cfg = tmp / 'replicat.toml'
    cfg.write_text(config_text)
    old_env, old_argv, old_handler = dict(os.environ), sys.argv, m._cmd_handler
    for k in list(os.environ):
        if k.startswith(('REPLICAT_', 'CUSTOM_', 'Custom_', 'S3C_', 'S3_', 'B2_')):
            del os.environ[k]
    os.environ.update(env)
    sys.argv = ['replicat'] + argv
    m._cmd_handler = handler
    try:
        with lib.quiet():
            m.main()
        return rec, None
    except SystemExit as e:
        return rec, f'SystemExit({e.code})'
    except Exception as e:
        return rec, f'{type(e).__name__}: {e}'[:200]
    finally:
        sys.argv = old_argv
        m._cmd_handler = old_handler
        os.environ.clear()
        os.environ.update(old_env)
        b = rec.get('backend')
        if b is not None and hasattr(b, '_client'):
            try:
                asyncio.run(b._client.aclose())
            except Exception:
                pass


def main():
    payload = lib.read_payload()
    tier = payload.get('tier', 'quick')
    failures, samples, cases, distinct = [], [], 0, set()
    with lib.scratch('vf_c19_') as tmp:
        ns = tmp / 'ns' / 'replicat' / 'backends'
        ns.mkdir(parents=True)
        (ns / 'custom.py').write_text(CUSTOM)
        for fname, content in (('kf_cli', b'key-cli'), ('kf_default', b'key-default'), ('kf_profile', b'key-profile-file'), ('pf_cli', b'pw-file-cli\n'),
                               ('pf_profile', b'pw-file-profile\r\n'), ('pf_default', b'pw-file-default\n')):
            (tmp / fname).write_bytes(content)
        sys.path.insert(0, str(tmp / 'ns'))
        import replicat
        if str(tmp / 'ns' / 'replicat') not in list(replicat.__path__):
            replicat.__path__.append(str(tmp / 'ns' / 'replicat'))
        import replicat.backends
        if str(ns) not in list(replicat.backends.__path__):
            replicat.backends.__path__.append(str(ns))
        from replicat.utils import config as cfgmod
        commands = COMMANDS if tier == 'thorough' else {'snapshot': COMMANDS['snapshot'], 'init': COMMANDS['init']}
        for opt, spec in OPTIONS.items():
            avail = [s for s in SOURCES if s in spec]
            backend = spec.get('backend', 'custom' if opt == 'repository' else 'local')
            for r in range(len(avail) + 1):
                for subset in itertools.combinations(avail, r):
                    for cmd, cmd_argv in commands.items():
                        argv_front, env, prof, dflt = [], {}, [], []
                        base_repo = {'local': 'local:some/dir', 'custom': 'custom:conn-base', 's3c': 's3c:bucket', 's3': 's3:bucket', 'b2': 'b2:bucket'}[backend]
                        if opt != 'repository':
                            dflt.append(f'repository = "{base_repo}"')
                        if backend == 's3c':
                            argv_tail = ['--key-id', 'k', '--access-key', 's', '--host', 'h.test']
                        elif backend == 's3':
                            argv_tail = ['--key-id', 'k', '--access-key', 's']
                        elif backend == 'b2':
                            argv_tail = ['--application-key', 'a']
                        else:
                            argv_tail = []
                        for s in subset:
                            how, _ = spec[s]
                            how = subst(how, tmp)
                            if s == 'cli':
                                (argv_tail if opt in ('token', 'level', 'flag', 'region', 'legacy', 'secret', 'timeout', 's3-region', 'b2-key-id') else argv_front).extend(how)
                            elif s == 'env':
                                env.update(how)
                            elif s == 'profile':
                                prof.append(how)
                            else:
                                dflt.append(how)
                        text = '\n'.join(dflt) + '\n[prof]\n' + '\n'.join(prof) + '\n'
                        argv = ['--config', str(tmp / 'replicat.toml'), '--profile', 'prof'] + [a for a in argv_front if a in ('-r',) or True and a.startswith('-r')][:0]
                        # initial-parser options (-r) must precede the sub-command, the rest follows it
                        pre = [a for i, a in enumerate(argv_front) if a == '-r' or (i and argv_front[i - 1] == '-r')]
                        post = [a for i, a in enumerate(argv_front) if not (a == '-r' or (i and argv_front[i - 1] == '-r'))]
                        argv = cmd_argv[:1] + ['--config', str(tmp / 'replicat.toml'), '--profile', 'prof'] + pre + post + argv_tail + cmd_argv[1:]
                        rec, err = run_main(argv, env, text, tmp)
                        cases += 1
                        distinct.add((opt, subset, cmd))
                        want = next((spec[s][1] for s in SOURCES if s in subset), spec['builtin'])
                        case = {'option': opt, 'set_in': list(subset), 'command': cmd, 'backend': backend}
                        if want == 'REQUIRED':
                            if err is None:
                                failures.append({'id': f'{opt}-{"+".join(subset)}-{cmd}', 'class': None, 'case': case,
                                                 'detail': 'a required backend option that is set nowhere was not reported'})
                            continue
                        if err is not None:
                            failures.append({'id': f'{opt}-{"+".join(subset)}-{cmd}', 'class': None, 'case': case, 'detail': {'error': err}})
                            continue
                        try:
                            got = spec['get'](rec)
                        except Exception as e:
                            failures.append({'id': f'{opt}-{"+".join(subset)}-{cmd}', 'class': None, 'case': case, 'detail': {'error': f'{type(e).__name__}: {e}', 'backend': type(rec.get('backend')).__name__}})
                            continue
                        if want == 'DEFAULT_CACHE':
                            want = cfgmod.DEFAULT_CACHE_DIRECTORY
                        if want == 'CWD':
                            want = os.getcwd()
                        if got != want or type(got) is not type(want):
                            failures.append({'id': f'{opt}-{"+".join(subset)}-{cmd}', 'class': None, 'case': case,
                                             'detail': {'effective': repr(got), 'expected': repr(want)}})
                        if len(samples) < 3 and len(subset) >= 2:
                            samples.append(dict(case, effective=repr(got)))
        # mutually exclusive options are rejected
        for argv, text, what in (
            (['snapshot', '-p', 'a', '-P', '/dev/null', 'x'], '', 'cli -p with -P'),
            (['snapshot', '--no-cache', '--cache-directory', '/x', 'x'], '', 'cli --no-cache with --cache-directory'),
            (['snapshot', 'x'], 'key = "k"\nkey-file = "/dev/null"\n', 'file key with key-file'),
            (['snapshot', 'x'], 'password = "k"\npassword-file = "/dev/null"\n', 'file password with password-file'),
        ):
            rec, err = run_main(argv[:1] + ['--config', str(tmp / 'replicat.toml')] + argv[1:], {}, text, tmp)
            cases += 1
            distinct.add(what)
            if err is None:
                failures.append({'id': f'exclusive-{what}', 'class': None, 'case': {'what': what}, 'detail': 'mutually exclusive options were accepted'})
        # custom settings of init / add-key: the flat CLI spelling means the documented nested structure (README "Custom settings")
        for argv, want in (
            (['init', '--encryption.cipher.key-bits', '128', '--hashing.name', 'sha2', '--hashing.bits', '256', '--encryption.kdf.n', '4'],
             {'encryption': {'cipher': {'key_bits': 128}, 'kdf': {'n': 4}}, 'hashing': {'name': 'sha2', 'bits': 256}}),
            (['init', '--encryption.cipher.key_bits', '192'], {'encryption': {'cipher': {'key_bits': 192}}}),
            (['init', '--encryption', 'none'], {'encryption': None}),
            (['init', '--chunking.min-length', '128_000', '--chunking.max_length', '5120000'], {'chunking': {'min_length': 128000, 'max_length': 5120000}}),
            (['add-key', '--encryption.kdf.name', 'blake2b', '--encryption.kdf.length', '32'], {'encryption': {'kdf': {'name': 'blake2b', 'length': 32}}}),
            (['init'], None),
        ):
            rec, err = run_main(argv[:1] + ['--config', str(tmp / 'replicat.toml'), '-r', 'custom:conn'] + argv[1:], {}, '', tmp)
            cases += 1
            distinct.add(' '.join(argv))
            got = rec.get('settings', 'NO-HANDLER-CALL')
            if err is not None or got != want:
                failures.append({'id': 'settings-' + '_'.join(argv[1:3] or ['none']), 'class': None, 'case': {'argv': argv},
                                 'detail': {'error': err, 'settings': repr(got), 'documented': repr(want)}})
        # a flat key that is both a value and a parent is a conflict, not a silent choice
        rec, err = run_main(['init', '--config', str(tmp / 'replicat.toml'), '-r', 'custom:conn', '--encryption', 'none', '--encryption.cipher.key-bits', '128'], {}, '', tmp)
        cases += 1
        if err is None:
            failures.append({'id': 'settings-conflict', 'class': None, 'case': {'what': '--encryption none with --encryption.cipher.key-bits'},
                             'detail': {'settings': repr(rec.get('settings'))}})
    lib.emit({'status': 'ok', 'cases': cases, 'distinct': len(distinct), 'failures': failures[:15], 'samples': samples,
              'exhaustive': False, 'exhaustive_part': 'all subsets of the sources of each listed option', 'reproduced': bool(failures)})


if __name__ == '__main__':
    main()
