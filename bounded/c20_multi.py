"""C20.multi.window - bounded stand-in on the real RateLimitedIO with real threads and real time.
Bound: 1-4 streams on one limiter, L = 40_000 B/s, request size L/16, about 1 s per case.
(a) one stream: bytes identical, rate <= L*T + allowance;  (b) N streams over instantaneous sources;
(c) N streams whose underlying reads take d/L each (known finding D11: every stream credits the same
wall-clock interval, so the aggregate rate approaches N*L)."""
import io
import os
import random
import sys
import threading
import time

sys.path.insert(0, os.path.dirname(os.path.abspath(__file__)))
import lib  # noqa: E402
from replicat import utils  # noqa: E402

L = 40_000
D = L // 16


class Slow(io.BytesIO):
    def __init__(self, data, latency):
        super().__init__(data)
        self.latency = latency

    def read(self, n=-1):
        if self.latency:
            time.sleep(self.latency)
        return super().read(n)


def run(n_streams, latency, duration=1.0, seed=0):
    limiter = utils.RateLimitedIO(L)
    datas = [random.Random(seed + i).randbytes(int(L * duration * 3)) for i in range(n_streams)]
    got = [bytearray() for _ in range(n_streams)]
    stop = time.perf_counter() + duration

    def worker(i):
        w = limiter.wrap(Slow(datas[i], latency))
        while time.perf_counter() < stop:
            chunk = w.read(D)
            if not chunk:
                break
            got[i] += chunk

    ts = [threading.Thread(target=worker, args=(i,)) for i in range(n_streams)]
    t0 = time.perf_counter()
    for t in ts:
        t.start()
    for t in ts:
        t.join()
    elapsed = time.perf_counter() - t0
    total = sum(len(g) for g in got)
    intact = all(bytes(g) == datas[i][:len(g)] for i, g in enumerate(got))
    return total, elapsed, intact


def main():
    payload = lib.read_payload()
    seed = int(payload.get('seed', 0))
    tier = payload.get('tier', 'quick')
    failures, samples, cases = [], [], 0
    plan = [(1, 0.0, None), (3, 0.0, None), (4, D / L, 'D11')]
    if tier == 'thorough':
        plan += [(1, D / L, None), (2, 0.0, None), (2, D / L, 'D11'), (3, D / L / 2, 'D11')]
    for n, lat, cls in plan:
        total, elapsed, intact = run(n, lat, seed=seed)
        cases += 1
        allowance = L * elapsed + L * (0.5 + 0.25) + D * n          # burst allowance + one request in flight per stream
        case = {'streams': n, 'latency': lat, 'bytes': total, 'elapsed': round(elapsed, 3), 'allowed': int(allowance)}
        samples.append(case)
        if not intact:
            failures.append({'id': f'data{n}', 'class': None, 'case': case, 'detail': 'bytes altered/reordered'})
        if total > allowance:
            failures.append({'id': f'rate{n}_{lat:.3f}', 'class': cls, 'case': case,
                             'detail': f'{total} bytes in {elapsed:.2f}s exceed L*T + allowance = {int(allowance)}'})
    lib.emit({'status': 'ok', 'cases': cases, 'distinct': cases, 'failures': failures, 'samples': samples[:3],
              'exhaustive': False, 'reproduced': bool(failures)})


if __name__ == '__main__':
    main()
