"""Replay of a solver counter-model against the REAL function (for units whose parameters are scalars, so that the model IS
an input).  stdin: {"oracle": name, "model": {z3 constant name: printed value}}; stdout: one JSON line with
{"reproduced": bool, "input": {...}, "observed": ...}.  Run under /venv/bin/python with REPO on the path."""
import io
import json
import os
import re
import sys
from fractions import Fraction

sys.path.insert(0, os.path.dirname(os.path.abspath(__file__)))
import lib  # noqa: E402


def as_int(s):
    s = s.strip()
    if s.startswith('-') or s.lstrip('-').isdigit():
        return int(s.replace(' ', ''))
    raise ValueError(s)


def as_str(s):
    s = s.strip()
    if len(s) >= 2 and s[0] == '"' and s[-1] == '"':
        body = s[1:-1].replace('""', '"')
        # z3 prints non-printable characters as \u{..}
        return re.sub(r'\\u\{([0-9a-fA-F]+)\}', lambda m: chr(int(m.group(1), 16)), body)
    return s


def call(fn, *a, **k):
    try:
        return ('ok', fn(*a, **k))
    except BaseException as e:          # noqa
        return ('raise', type(e).__name__ + ': ' + str(e)[:120])


def chunker_ctor(model):
    from replicat.utils import adapters
    mn, mx = as_int(model['min_length']), as_int(model['max_length'])
    kind, v = call(adapters.gclmulchunker, min_length=mn, max_length=mx)
    return {'input': {'min_length': mn, 'max_length': mx}, 'observed': kind if kind == 'ok' else v,
            'reproduced': kind == 'ok' and not (1 <= mn <= mx)}


def blake2b_ctor(model):
    from replicat.utils import adapters
    ln = as_int(model['length'])
    kind, v = call(adapters.blake2b, length=ln)
    return {'input': {'length': ln}, 'observed': kind if kind == 'ok' else v, 'reproduced': kind == 'ok' and not (1 <= ln <= 64)}


def bits_ctor(model):
    from replicat.utils import adapters
    cls = model['__class__']
    name = 'key_bits' if cls == 'aes_gcm' else 'bits'
    bits = as_int(model[name])
    kind, v = call(getattr(adapters, cls), **{name: bits})
    allowed = (128, 192, 256) if cls == 'aes_gcm' else (224, 256, 384, 512)
    return {'input': {name: bits}, 'observed': kind if kind == 'ok' else v, 'reproduced': kind == 'ok' and bits not in allowed}


def parse_repository(model):
    from replicat import utils
    uri = as_str(model['uri'])
    kind, v = call(utils.parse_repository, uri)
    if ':' in uri:
        head, tail = uri.split(':', 1)
        want = ('ok', (head, tail)) if head.isidentifier() else ('raise', None)
    else:
        want = ('ok', ('local', uri))
    bad = (kind != want[0]) or (kind == 'ok' and tuple(v) != want[1])
    return {'input': {'uri': uri}, 'observed': v if kind == 'raise' else list(v), 'reproduced': bool(bad)}


def stream_hexdigest(model):
    import hashlib
    import inspect
    from replicat.backends import s3c
    cs = as_int(model.get('chunk_size', '1'))
    data = lib.content(7, 300)
    fn = s3c._get_stream_hexdigest
    args = (io.BytesIO(data), cs) if len(inspect.signature(fn).parameters) > 1 else (io.BytesIO(data),)
    kind, v = call(fn, *args)
    return {'input': {'chunk_size': cs, 'payload_bytes': len(data)}, 'observed': v,
            'reproduced': kind != 'ok' or v != hashlib.sha256(data).hexdigest()}


def ref_bytes_to_human(value, prec=2):
    """the documented meaning: decimal units B / K / M / G (G is the largest: everything from 10**9 up is counted in G), the number
    rounded to `prec` digits and printed in the shortest %g form"""
    from fractions import Fraction as F
    if value < 10 ** 3:
        d, u = 1, 'B'
    elif value < 10 ** 6:
        d, u = 10 ** 3, 'K'
    elif value < 10 ** 9:
        d, u = 10 ** 6, 'M'
    else:
        d, u = 10 ** 9, 'G'
    return f'{round(value / d, prec):g}{u}'


def bytes_to_human(model):
    from replicat import utils
    v = as_int(model['value'])
    prec = as_int(model.get('prec', '2'))
    kind, got = call(utils.bytes_to_human, v, prec) if 'prec' in model else call(utils.bytes_to_human, v)
    want = ref_bytes_to_human(v, prec)
    return {'input': {'value': v, 'prec': prec}, 'observed': got, 'expected': want, 'reproduced': kind != 'ok' or got != want}


ORACLES = {f.__name__: f for f in (chunker_ctor, blake2b_ctor, bits_ctor, parse_repository, stream_hexdigest, bytes_to_human)}


def main():
    payload = json.loads(sys.stdin.read() or '{}')
    try:
        r = ORACLES[payload['oracle']](dict(payload.get('model') or {}, **payload.get('extra', {})))
        r['status'] = 'ok'
    except Exception as e:
        r = {'status': 'error', 'reproduced': False, 'error': f'{type(e).__name__}: {e}'[:300]}
    sys.stdout.write('\n' + json.dumps(r, default=str) + '\n')


if __name__ == '__main__':
    main()
