"""C13.local.list_names - bounded stand-in on the real Local backend: for every spelling of the repository
path and every stored name, list_files(prefix) returns exactly the stored names that start with prefix,
each once; upload replaces atomically, delete is idempotent, exists/download agree with a dict model.
Bound: 9 spellings x 8 names (incl. '.tmp' suffix, spaces, non-ASCII) x all prefixes of those names;
plus seeded random operation sequences (<= 25 ops) against a dict."""
import os
import random
import shutil
import sys
from pathlib import Path

sys.path.insert(0, os.path.dirname(os.path.abspath(__file__)))
import lib  # noqa: E402
from replicat.backends.local import Local  # noqa: E402

# 'nf/cafe\u0301' and 'nf/caf\u00e9' are canonically equivalent but DIFFERENT names (decomposed / composed): a store keeps them apart and
# lists each as it was given
NAMES = ['data/ab/cd-ef', 'data/ab/zz-11', 'data/b/c', 'snapshots/aa/bb-cc', 'config', 'x/y.tmp', 'sp ace/ü/ß', 'data/abc',
         'nf/cafe\u0301', 'nf/caf\u00e9']


def spellings(base: Path):
    r = base / 'r'
    return {
        'abs': lambda: str(r), 'rel': lambda: 'r', 'dot_rel': lambda: './r', 'trailing': lambda: 'r/',
        'double_trailing': lambda: 'r//', 'dotdot': lambda: f'../{base.name}/r', 'r_dotdot_r': lambda: 'r/../r',
        'dot': lambda: '.', 'dot_slash': lambda: './',
    }


def list_case(base, spelling_name, make):
    cwd = os.getcwd()
    problems = []
    try:
        root = base / 'r'
        shutil.rmtree(root, ignore_errors=True)
        root.mkdir(parents=True)
        os.chdir(root if spelling_name in ('dot', 'dot_slash') else base)
        b = Local(make())
        for n in NAMES:
            b.upload(n, n.encode())
        prefixes = {''} | {n[:i] for n in NAMES for i in range(1, len(n) + 1)}
        for p in sorted(prefixes):
            got = sorted(b.list_files(p))
            want = sorted(n for n in NAMES if n.startswith(p))
            if got != want:
                problems.append({'prefix': p, 'missing': sorted(set(want) - set(got))[:3], 'unexpected': sorted(set(got) - set(want))[:3],
                                 'duplicates': len(got) != len(set(got))})
    finally:
        os.chdir(cwd)
    return problems


def model_case(base, rnd, n_ops):
    root = base / 'm'
    shutil.rmtree(root, ignore_errors=True)
    b = Local(str(root))
    model = {}
    names = ['a/b', 'a/c', 'a/bb/c', 'd', 'e/f g', 'h/ü']
    for step in range(n_ops):
        op = rnd.choice(['upload', 'upload_stream', 'delete', 'exists', 'download', 'download_stream', 'list', 'clean'])
        n = rnd.choice(names)
        data = rnd.randbytes(rnd.choice([0, 1, 7, 300]))
        import io
        if op == 'clean':
            if root.exists():           # house-keeping of the adapter (a no-op of the map); replicat runs it on initialised repositories only
                b.clean()
        elif op == 'upload':
            b.upload(n, data); model[n] = data
        elif op == 'upload_stream':
            b.upload_stream(n, io.BytesIO(data), len(data), rnd.choice([1, 64, 128_000])); model[n] = data
        elif op == 'delete':
            b.delete(n); model.pop(n, None)
        elif op == 'exists':
            if b.exists(n) != (n in model):
                return {'step': step, 'op': op, 'name': n}
        elif op == 'download' and n in model:
            if b.download(n) != model[n]:
                return {'step': step, 'op': op, 'name': n}
        elif op == 'download_stream' and n in model:
            s = io.BytesIO(b'old contents that are longer than anything' * 10)
            b.download_stream(n, s, rnd.choice([1, 64, 128_000]))
            if s.getvalue() != model[n]:
                return {'step': step, 'op': op, 'name': n, 'got_len': len(s.getvalue()), 'want_len': len(model[n])}
        elif op == 'list':
            p = rnd.choice(['', 'a/', 'a/b', 'e/', 'zz'])
            if sorted(b.list_files(p)) != sorted(k for k in model if k.startswith(p)):
                return {'step': step, 'op': op, 'prefix': p}
    return None


def main():
    payload = lib.read_payload()
    tier, seed = payload.get('tier', 'quick'), int(payload.get('seed', 0))
    rnd = random.Random(seed)
    failures, samples, cases = [], [], 0
    with lib.scratch('vf_c13_') as base:
        for name, make in spellings(base).items():
            cases += 1
            try:
                probs = list_case(base, name, make)
            except Exception as e:
                # an operation a plain map always performs raised in the adapter
                probs = [{'prefix': None, 'missing': [], 'unexpected': [], 'duplicates': False, 'raised': f'{type(e).__name__}: {e}'[:200]}]
            # names ending in '.tmp' are hidden by design of the adapter: known finding D10
            tmp_only = [p for p in probs if set(p['missing']) <= {'x/y.tmp'} and not p['unexpected'] and not p['duplicates'] and not p.get('raised')]
            other = [p for p in probs if p not in tmp_only]
            if tmp_only:
                failures.append({'id': f'list_{name}_tmp', 'class': 'D10', 'case': {'spelling': name}, 'detail': tmp_only[:2]})
            if other:
                failures.append({'id': f'list_{name}', 'class': None, 'case': {'spelling': name}, 'detail': other[:3]})
            samples.append({'spelling': name, 'names': len(NAMES)})
        # names with a '.' or '..' path segment alias other objects on a file system (known finding D18)
        cases += 1
        try:
            root = base / 'dots'
            shutil.rmtree(root, ignore_errors=True)
            b = Local(str(root))
            b.upload('d/b', b'old')
            b.upload('d/a/../b', b'NEW')
            probs = []
            if b.download('d/b') != b'old':
                probs.append('an upload under another name replaced the object')
            if sorted(b.list_files('d/')) != ['d/a/../b', 'd/b']:
                probs.append('the listing differs from the names uploaded')
            if probs:
                failures.append({'id': 'dot_segments', 'class': 'D18', 'case': {'names': ['d/b', 'd/a/../b']}, 'detail': probs})
        except Exception as e:
            failures.append({'id': 'dot_segments', 'class': 'D18', 'case': {'names': ['d/b', 'd/a/../b']}, 'detail': [f'{type(e).__name__}: {e}'[:200]]})
        for i in range(200 if tier == 'thorough' else 10):
            cases += 1
            try:
                f = model_case(base, rnd, 25)
            except Exception as e:
                f = {'problem': 'an operation of the history raised', 'error': f'{type(e).__name__}: {e}'[:200]}
            if f:
                failures.append({'id': f'model{i}', 'class': None, 'case': {'seed': seed, 'run': i}, 'detail': f})
    lib.emit({'status': 'ok', 'cases': cases, 'distinct': cases, 'failures': failures[:12], 'samples': samples[:3],
              'exhaustive': False, 'reproduced': bool(failures)})


if __name__ == '__main__':
    main()
