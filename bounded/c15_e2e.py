"""C15.e2e - bounded stand-in: random histories of <= 5 snapshots over <= 4 paths that appear, change and
disappear; every filter combination from a small regex pool; restore must write exactly the newest matching
version of every matching path; list-snapshots / list-files must show exactly the readable snapshots/files,
newest first, with true counts, sizes and digests, and the printed names must be accepted by delete and -S."""
import asyncio
import hashlib
import os
import random
import re
import shutil
import sys
from pathlib import Path

sys.path.insert(0, os.path.dirname(os.path.abspath(__file__)))
import lib  # noqa: E402
from replicat.repository import Repository  # noqa: E402
from replicat.backends.local import Local  # noqa: E402
from replicat.utils import SnapshotListColumn as SC, FileListColumn as FC  # noqa: E402


def bytes_to_human(n):
    """the documented humanised size, written independently of replicat: decimal units, two decimals, no trailing zeros"""
    unit, div = 'B', 1
    for u, d in (('K', 1000), ('M', 1000 ** 2), ('G', 1000 ** 3)):
        if n >= d:
            unit, div = u, d
    return ('%g' % round(n / div, 2)) + unit


class NightClock:
    """the UTC clock of the code under test stepped through a night in which the LOCAL zone changes its offset (daylight saving):
    snapshot times are UTC and must be ordered as such whatever the zone of the machine is"""

    def __init__(self, tz, start, step_minutes=25):
        import datetime as _dt
        self.tz, self.t, self.step = tz, start, _dt.timedelta(minutes=step_minutes)

    def __enter__(self):
        import datetime as _dt
        import time as _time
        import replicat.repository as repo_mod
        clock = self
        real = repo_mod.datetime

        class FakeDatetime(real):
            @classmethod
            def utcnow(cls):
                clock.t += clock.step
                return cls(*clock.t.timetuple()[:6], clock.t.microsecond)

            @classmethod
            def now(cls, tz=None):
                u = cls.utcnow().replace(tzinfo=_dt.timezone.utc)
                return u.astimezone(tz) if tz is not None else u.astimezone().replace(tzinfo=None)

        self._real, self._old_tz = real, os.environ.get('TZ')
        repo_mod.datetime = FakeDatetime
        os.environ['TZ'] = self.tz
        _time.tzset()
        return self

    def __exit__(self, *a):
        import time as _time
        import replicat.repository as repo_mod
        repo_mod.datetime = self._real
        if self._old_tz is None:
            os.environ.pop('TZ', None)
        else:
            os.environ['TZ'] = self._old_tz
        _time.tzset()


async def run_history(root, rnd, scripted=False):
    problems = []
    src = root / 'src'
    src.mkdir()
    r = Repository(Local(root / 'repo'), concurrent=2, quiet=True, cache_directory=None)
    with lib.quiet():
        await r.init(settings={'encryption': None, 'chunking': {'min_length': 8, 'max_length': 64}, 'hashing': {'name': 'sha2', 'bits': 256}})
    # 'cafe\u0301.txt' is spelt with a DECOMPOSED accent (as macOS hands names out): filters are matched against the recorded path as it is
    names = ['a.txt', 'b.bin', 'sub/c.txt', 'sub/d', 'cafe\u0301.txt']
    current = {}
    snaps = []       # (name, {abs path: bytes}) oldest first
    # scripted history: paths that are present / absent / present again (the version of the NEWEST snapshot containing
    # the path wins, however many snapshots without it lie in between), incl. a newer version that is a prefix of an older one
    # ... and a snapshot of an EMPTY tree with an EMPTY note (a count of 0 is "0" and an empty note is empty - not the placeholder)
    script = [{'a.txt': 200, 'b.bin': 128, 'sub/c.txt': 70}, {'a.txt': 10}, {'a.txt': 33, 'b.bin': 64}, {'sub/d': 5}, {'sub/c.txt': 9, 'a.txt': 1}, {}]
    notes = {}
    for i in range(len(script) if scripted else rnd.randint(3, 5)):
        if scripted:
            base = lib.content(4242, 400)
            current = {n: base[:sz] for n, sz in script[i].items()}
        for n in ([] if scripted else names):
            roll = rnd.random()
            if roll < 0.35:
                current[n] = lib.content(rnd.randint(0, 10 ** 6), rnd.choice([0, 5, 64, 150, 1200]))
            elif roll < 0.5:
                current.pop(n, None)
        if not scripted and (not current or all(len(v) == 0 for v in current.values())):
            current['a.txt'] = lib.content(i, 33)
        shutil.rmtree(src)
        src.mkdir()
        for n, v in current.items():
            (src / n).parent.mkdir(parents=True, exist_ok=True)
            (src / n).write_bytes(v)
        with lib.quiet():
            notes[i] = (f'note {i}' if i % 2 else None) if not (scripted and not current) else ''
            s = await r.snapshot(paths=[src], note=notes[i])
        snaps.append((s.name, {str((src / n).resolve()): v for n, v in current.items()}))
    snap_filters = [None, '^' + snaps[-1][0] + '$', '^' + snaps[0][0] + '$', '|'.join(s[0][:12] for s in snaps[:2]), 'zzzz',
                    snaps[-1][0][:16].upper() if snaps[-1][0][:16].upper() != snaps[-1][0][:16] else 'Z']
    file_filters = [None, r'\.txt$', 'sub/', 'b\\.bin|d$', 'nomatch', r'\.TXT$|SUB/D', 'e\u0301\\.txt$', 'caf\u00e9']
    for sf in snap_filters:
        for ff in file_filters:
            out = root / 'out'
            shutil.rmtree(out, ignore_errors=True)
            with lib.quiet():
                res = await r.restore(snapshot_regex=sf, file_regex=ff, path=out)
            expect = {}
            for name, files in snaps:                      # oldest first: newer overwrite
                if sf is not None and re.search(sf, name) is None:
                    continue
                for p, v in files.items():
                    if ff is None or re.search(ff, p):
                        expect[p] = v
            got = {str(p): p.read_bytes() for p in out.rglob('*') if p.is_file()} if out.exists() else {}
            want = {str(lib.restored_path(out, p).resolve()): v for p, v in expect.items()}
            got = {str(Path(k).resolve()): v for k, v in got.items()}
            if got != want:
                problems.append({'problem': 'restore selection differs', 'snapshot_regex': sf, 'file_regex': ff,
                                 'missing': len(set(want) - set(got)), 'extra': len(set(got) - set(want)),
                                 'different': sum(1 for k in want if k in got and got[k] != want[k])})
            if sorted(res.files) != sorted(expect):
                problems.append({'problem': 'reported file list differs', 'snapshot_regex': sf, 'file_regex': ff})
    # listings
    with lib.quiet() as (o, e):
        await r.list_snapshots(columns=[SC.NAME, SC.FILE_COUNT, SC.SIZE, SC.NOTE], header=False)
        rows = [l.split('\t') for l in o.getvalue().splitlines()]
    want_rows = [[n, str(len(f)), bytes_to_human(sum(len(v) for v in f.values())), ('--' if notes[i] is None else notes[i])]
                 for i, (n, f) in enumerate(snaps)][::-1]
    got_rows = [[c.strip() for c in row] for row in rows]
    if got_rows != want_rows:
        problems.append({'problem': 'list-snapshots rows differ (newest first, counts, sizes, notes)', 'got': got_rows[:2], 'want': want_rows[:2]})
    with lib.quiet() as (o, e):
        await r.list_files(columns=[FC.SNAPSHOT_NAME, FC.PATH, FC.SIZE, FC.DIGEST, FC.CHUNK_COUNT], header=False, file_regex=r'\.txt$')
        frows = [[c.strip() for c in l.split('\t')] for l in o.getvalue().splitlines()]
    want_f = sorted([n, p, bytes_to_human(len(v)), hashlib.sha256(v).hexdigest()] for n, f in snaps for p, v in f.items() if re.search(r'\.txt$', p))
    if sorted(x[:4] for x in frows) != want_f:
        problems.append({'problem': 'list-files rows differ (name, path, size, digest)', 'got': len(frows), 'want': len(want_f)})
    order = [x[0] for x in frows]
    rank = {n: i for i, (n, _) in enumerate(snaps)}
    if any(rank[a] < rank[b] for a, b in zip(order, order[1:])):
        problems.append({'problem': 'list-files is not newest first'})
    # printed names are accepted by delete
    try:
        with lib.quiet():
            await r.delete_snapshots([got_rows[-1][0]], confirm=False)
    except Exception as e:
        problems.append({'problem': 'a printed snapshot name is not accepted by delete', 'error': str(e)[:100]})
    try:
        with lib.quiet():
            await r.delete_snapshots(['0' * 64], confirm=False)
        problems.append({'problem': 'delete accepted an unknown snapshot name'})
    except Exception:
        pass
    await r.close()
    return problems


def main():
    payload = lib.read_payload()
    tier, seed = payload.get('tier', 'quick'), int(payload.get('seed', 0))
    failures, samples, cases = [], [], 0
    for h in range(40 if tier == 'thorough' else 3):
        rnd = random.Random(seed * 100 + h)
        with lib.scratch('vf_c15_') as root:
            cases += 1
            try:
                probs = asyncio.run(run_history(root, rnd, scripted=(h == 0)))
            except Exception as e:
                import traceback
                probs = [{'problem': 'exception', 'error': f'{type(e).__name__}: {e}'[:200], 'tb': traceback.format_exc()[-500:]}]
            if probs:
                failures.append({'id': f'hist{h}', 'class': None, 'case': {'seed': seed, 'history': h}, 'detail': probs[:3]})
            samples.append({'seed': seed, 'history': h, 'filter_combinations': 25})
    # the scripted history again, taken during the two nights of a year in which the machine's zone changes its offset (POSIX TZ rule,
    # no tzdata needed): UTC stamps 25 minutes apart across the local gap (spring) and the local fold (autumn)
    import datetime as _dt
    for label, tz, start in (('spring-forward', 'CET-1CEST,M3.5.0,M10.5.0/3', _dt.datetime(2024, 3, 31, 1, 30, 0, 250000)),
                             ('fall-back', 'CET-1CEST,M3.5.0,M10.5.0/3', _dt.datetime(2024, 10, 27, 0, 5, 0, 250000)),
                             ('spring-forward-west', 'EST5EDT,M3.2.0,M11.1.0', _dt.datetime(2024, 3, 10, 1, 30, 0, 0))):
        with lib.scratch('vf_c15_') as root:
            cases += 1
            try:
                with NightClock(tz, start):
                    probs = asyncio.run(run_history(root, random.Random(seed), scripted=True))
            except Exception as e:
                import traceback
                probs = [{'problem': 'exception', 'error': f'{type(e).__name__}: {e}'[:200], 'tb': traceback.format_exc()[-500:]}]
            if probs:
                failures.append({'id': f'night-{label}', 'class': None, 'case': {'seed': seed, 'zone': tz, 'first_utc_stamp': str(start)}, 'detail': probs[:3]})
    lib.emit({'status': 'ok', 'cases': cases * 25, 'distinct': cases * 25, 'failures': failures[:10], 'samples': samples[:3],
              'exhaustive': False, 'reproduced': bool(failures)})


if __name__ == '__main__':
    main()
