"""C20.sim.window - bounded stand-in on the real RateLimitedIO / _RateLimitedFileWrapper under a VIRTUAL clock
and a deterministic scheduler (every schedule is reproducible from its seed).

The code under test runs in real threads, but exactly one runs at a time: `replicat.utils.time` is replaced by
a clock whose `sleep` parks the thread until the virtual instant, `replicat.utils.threading.Lock` by a FIFO lock
whose contention parks the thread, and `perf_counter` is an optional preemption point (seeded).  Virtual time
advances only when every thread is parked.  The wrapped streams record (virtual instant, bytes) per transfer.

Oracle (the statement of C20): for every window [t_i, t_j] of recorded transfers
        bytes(window) <= L * (t_j - t_i) + L * PAUSE_LIMIT + n_streams * d_max
(fixed burst: the debt not yet slept, at most PAUSE_LIMIT seconds, plus one request per stream passed through but
not yet accounted) and each stream delivers exactly the bytes of its source, in order.

Bound: 1..4 streams, reads and writes, request sizes <= L/4 (fixed or varying per request), optional think time
between requests, optional latency of the underlying stream (> 0 with >= 2 streams is the class of the known
finding D11), 20 (thorough: 60) virtual seconds per case, 10 (thorough: 200) seeded schedules."""
import io
import os
import random
import sys
import threading

sys.path.insert(0, os.path.dirname(os.path.abspath(__file__)))
import lib  # noqa: E402
from replicat import utils  # noqa: E402


class Sim:
    class Task:
        def __init__(self, ident):
            self.ident = ident
            self.go = threading.Event()
            self.wake = 0.0
            self.blocked = False
            self.done = False

    def __init__(self, rnd, preempt):
        self.now = 0.0
        self.rnd, self.preempt = rnd, preempt
        self.tasks, self.current = [], None
        self.failed = None
        self.finished = threading.Event()
        self.switches = 0

    def spawn(self, fn):
        t = self.Task(len(self.tasks))
        self.tasks.append(t)

        def body():
            t.go.wait()
            try:
                fn()
            except BaseException as e:          # noqa
                self.failed = e
            t.done = True
            self._dispatch()
        threading.Thread(target=body, daemon=True).start()

    def _dispatch(self):
        ready = [t for t in self.tasks if not t.done and not t.blocked]
        if not ready:
            if not all(t.done for t in self.tasks):
                self.failed = RuntimeError('deadlock: every live stream waits for a lock')
            self.finished.set()
            return
        runnable = [t for t in ready if t.wake <= self.now]
        if not runnable:
            self.now = min(t.wake for t in ready)
            runnable = [t for t in ready if t.wake <= self.now]
        nxt = self.rnd.choice(runnable)
        self.current = nxt
        self.switches += 1
        nxt.go.set()

    def _park(self):
        me = self.current
        me.go.clear()
        self._dispatch()
        me.go.wait()

    def run(self, limit_s=120):
        self._dispatch()
        if not self.finished.wait(limit_s):
            raise RuntimeError('simulation did not finish')
        if self.failed is not None:
            raise self.failed

    # ---- what the code under test sees
    def perf_counter(self):
        if self.preempt and self.rnd.random() < self.preempt:
            self.current.wake = self.now         # let another runnable stream go first; no time passes
            self._park()
        return self.now

    def sleep(self, seconds):
        self.current.wake = self.now + max(float(seconds), 0.0)
        self._park()


class SimLock:
    def __init__(self, sim):
        self.sim, self.owner, self.waiters = sim, None, []

    def acquire(self, blocking=True, timeout=-1):
        me = self.sim.current
        if self.owner is None:
            self.owner = me
            return True
        if not blocking:
            return False
        me.blocked = True
        self.waiters.append(me)
        self.sim._park()
        return True

    def release(self):
        if self.waiters:
            nxt = self.waiters.pop(0)
            self.owner = nxt
            nxt.blocked = False
            nxt.wake = self.sim.now
        else:
            self.owner = None

    def locked(self):
        return self.owner is not None

    __enter__ = acquire

    def __exit__(self, *exc):
        self.release()


class FakeModule:
    def __init__(self, real, **over):
        self._real = real
        self.__dict__.update(over)

    def __getattr__(self, name):
        return getattr(self._real, name)


def scenario(case):
    rnd = random.Random(case['seed'])
    sim = Sim(rnd, case['preempt'])
    L, n, mode, horizon = case['limit'], case['streams'], case['mode'], case['horizon']
    real_time, real_threading = utils.time, utils.threading
    utils.time = FakeModule(real_time, perf_counter=sim.perf_counter, sleep=sim.sleep)
    utils.threading = FakeModule(real_threading, Lock=lambda: SimLock(sim), RLock=lambda: SimLock(sim))
    problems = []
    events = []
    try:
        limiter = utils.RateLimitedIO(L)
        latency, think = case['latency'], case['think']

        class Rec(io.BytesIO):
            def read(self, k=-1):
                if latency:
                    sim.sleep(latency)
                data = super().read(k)
                events.append((sim.now, len(data)))
                return data

            def write(self, b):
                if latency:
                    sim.sleep(latency)
                k = super().write(b)
                events.append((sim.now, k))
                return k

        def make(i):
            srnd = random.Random(case['seed'] * 131 + i)
            sizes = case['sizes']

            def worker():
                src = srnd.randbytes(4096) * (int(horizon * L / 4096) + 8)
                if mode == 'r':
                    raw = Rec(src)
                    w = limiter.wrap(raw)
                    got = []
                    while sim.now < horizon:
                        d = sizes[srnd.randrange(len(sizes))]
                        got.append(w.read(d))
                        if think:
                            sim.sleep(think * srnd.random())
                    got = b''.join(got)
                    if got != src[:len(got)]:
                        problems.append({'problem': 'bytes read through the limiter differ from the source', 'stream': i})
                else:
                    raw = Rec()
                    w = limiter.wrap(raw)
                    pos = 0
                    while sim.now < horizon:
                        d = sizes[srnd.randrange(len(sizes))]
                        k = w.write(src[pos:pos + d])
                        if k != d:
                            problems.append({'problem': 'write returned a different count', 'stream': i})
                        pos += d
                        if think:
                            sim.sleep(think * srnd.random())
                    if raw.getvalue() != src[:pos]:
                        problems.append({'problem': 'bytes written through the limiter differ from what was written', 'stream': i})
            return worker

        for i in range(n):
            sim.spawn(make(i))
        sim.run()
    finally:
        utils.time, utils.threading = real_time, real_threading
    # ---- window oracle, O(m): bytes(i..j) - L*(t_j - t_i) <= burst  for all i <= j
    burst = L * utils.RateLimitedIO.PAUSE_LIMIT + n * max(case['sizes'])
    events.sort(key=lambda e: e[0])
    total = 0
    best_lo = None           # min over i of (S_{i-1} - L*t_i), with the index
    worst = None
    for j, (t, k) in enumerate(events):
        lo = total - L * t
        if best_lo is None or lo < best_lo[0]:
            best_lo = (lo, j, t)
        total += k
        over = (total - L * t) - best_lo[0] - burst
        if worst is None or over > worst[0]:
            worst = (over, best_lo[1], j, best_lo[2], t)
    if worst and worst[0] > 1e-6:
        o, i, j, ti, tj = worst
        problems.append({'problem': 'window exceeds L*T + burst', 'from_s': round(ti, 4), 'to_s': round(tj, 4),
                         'bytes': int(o + burst + L * (tj - ti)), 'allowed': int(burst + L * (tj - ti)),
                         'transfers': j - i + 1})
    return problems, len(events), sim.switches


def main():
    payload = lib.read_payload()
    tier, seed = payload.get('tier', 'quick'), int(payload.get('seed', 0))
    only = payload.get('only_case')
    rnd = random.Random(seed)
    cases = []
    if only:
        cases = [only]
    else:
        n_sched = 200 if tier == 'thorough' else 10
        for k in range(n_sched):
            L = rnd.choice([40_000, 100_000, 4096])
            n = 1 + k % 4
            dmax = max(L // 4, 1)
            shape = rnd.choice(['sixteenth', 'quarter', 'mixed', 'tiny'])
            sizes = {'sixteenth': [max(L // 16, 1)], 'quarter': [dmax], 'tiny': [max(L // 400, 1)],
                     'mixed': sorted({max(1, rnd.randrange(1, dmax + 1)) for _ in range(4)} | {dmax})}[shape]
            lat = rnd.choice([0.0, 0.0, 0.0, sizes[0] / L, sizes[0] / L / 3])
            cases.append({'seed': seed * 1000 + k, 'limit': L, 'streams': n, 'mode': 'rw'[k % 2], 'sizes': sizes,
                          'think': rnd.choice([0.0, 0.0, 0.02, 0.3]), 'latency': lat,
                          'preempt': rnd.choice([0.0, 0.3]), 'horizon': 60.0 if tier == 'thorough' else 20.0})
    failures, samples, transfers = [], [], 0
    for idx, case in enumerate(cases):
        try:
            problems, m, sw = scenario(case)
        except Exception as e:
            problems, m = [{'problem': 'exception', 'type': type(e).__name__, 'text': str(e)[:200]}], 0
        transfers += m
        if len(samples) < 3:
            samples.append(case)
        rate_only = problems and all(p['problem'].startswith('window') for p in problems)
        cls = 'D11' if rate_only and case['streams'] >= 2 and case['latency'] > 0 else None
        if problems:
            failures.append({'id': f'sched{idx}', 'class': cls, 'case': case, 'detail': problems[:3]})
    lib.emit({'status': 'ok', 'cases': len(cases), 'distinct': len(cases), 'transfers': transfers, 'failures': sorted(failures, key=lambda f: f['class'] is not None)[:12],
              'samples': samples, 'exhaustive': False, 'reproduced': bool(failures)})
    sys.stdout.flush()
    os._exit(0)


if __name__ == '__main__':
    main()
