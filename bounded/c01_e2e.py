"""C01.e2e - bounded stand-in: restore(snapshot(T)) == T on the real Repository (local backend).
Bound: <= 4 files, sizes from the boundary family around alignment/min/max/2*max (max <= 64),
argument lists with repeats/overlaps/symlinks, pre-existing targets {absent, shorter, equal, longer},
encrypted x cipher x hasher, concurrency {1,2,5}.  Labelled BOUNDED; never counted as proved."""
import itertools
import os
import random
import sys
from pathlib import Path

sys.path.insert(0, os.path.dirname(os.path.abspath(__file__)))
import lib  # noqa: E402


def size_family(mn, mx, a=4):
    s = {0, 1, a - 1, a, a + 1, mn - 1, mn, mn + 1, mx - 1, mx, mx + 1, 2 * mx - 1, 2 * mx, 2 * mx + 1, 3 * mx + 3}
    return sorted(x for x in s if x >= 0)


async def one_case(case):
    """-> None if the contract holds, else a dict describing the failure"""
    with lib.scratch('vf_c01_') as d:
        src = d / 'src'
        src.mkdir()
        files = {}
        for i, sz in enumerate(case['sizes']):
            sub = src / ('d%d' % (i % 2)) if case.get('nested') else src
            sub.mkdir(exist_ok=True)
            name = case.get('names', ['f%d.bin' % j for j in range(8)])[i]
            p = sub / name
            data = lib.content(case['seed'] * 100 + i, sz) if not case.get('identical') else lib.content(case['seed'], sz)
            if case.get('blocks'):
                # repeated blocks in a chosen order (fixed-size chunks: every letter is one chunk, equal letters equal chunks)
                data = b''.join(lib.content(case['seed'] * 7 + ord(ch), case['max']) for ch in case['blocks'][i])
            p.write_bytes(data)
            os.utime(p, ns=(1_600_000_000_000_000_000 + i * 1_000_003, 1_500_000_000_123_456_789 + i * 7_000_001))
            if case.get('epoch') and i == 0:
                os.utime(p, ns=(0, 0))                  # a file dated exactly 1970-01-01T00:00:00 (0 ns)
            if case.get('epoch') and i == 1:
                os.utime(p, ns=(1, 999_999_999))        # and one a nanosecond later
            files[str(p.resolve())] = data
        alias = {}
        if case.get('alias'):
            # a second route to a directory of the tree: src/alias -> src/d0 (replicat follows directory symlinks inside a
            # directory argument, so the files are part of the tree under BOTH routes)
            (src / 'alias').symlink_to(src / 'd0', target_is_directory=True)
            for k, v in files.items():
                if k.startswith(str((src / 'd0').resolve()) + os.sep):
                    alias[str(src.resolve() / 'alias' / os.path.basename(k))] = v
        args = []
        for a in case['args']:
            if a == 'dir':
                args.append(src)
            elif a == 'symlink_dir':
                ln = d / 'ln_dir'
                if not ln.exists():
                    ln.symlink_to(src, target_is_directory=True)
                args.append(ln)
            elif a.startswith('file'):
                args.append(Path(sorted(files)[int(a[4:]) % len(files)]))
            elif a.startswith('symlink_file'):
                tgt = Path(sorted(files)[int(a[12:]) % len(files)])
                ln = d / ('ln_file%s' % a[12:])
                if not ln.exists():
                    ln.symlink_to(tgt)
                args.append(ln)
        expected = {}
        for a in args:
            ra = a.resolve()
            if ra.is_dir():
                for k, v in list(files.items()) + list(alias.items()):
                    if str(k).startswith(str(ra) + os.sep):
                        expected[k] = v
            else:
                expected[str(ra)] = files[str(ra)]
        backend = None
        if case.get('slow_backend'):
            # a backend with latency: every stream upload takes longer than any polling interval / put timeout inside snapshot, and
            # there are more chunks than any queue between the producer and the workers holds
            from replicat.backends.local import Local as _Local
            import time as _time

            class Slow(_Local):
                def upload_stream(self, name, stream, length, chunk_size=128000):
                    _time.sleep(case['slow_backend'])
                    return super().upload_stream(name, stream, length, chunk_size)
            backend = Slow(d / 'repo')
        repo = lib.Repo(d, backend=backend, concurrent=case['concurrent'])
        await repo.init(encrypted=case['encrypted'], cipher=case.get('cipher', 'aes_gcm'),
                        hasher=case.get('hasher'), min_length=case['min'], max_length=case['max'])
        r = await repo.open()
        with lib.quiet():
            snap = await r.snapshot(paths=args)
        await r.close()
        target = d / 'out'
        target.mkdir()
        pre = case.get('pre', 'absent')
        for k, v in expected.items():
            rp = lib.restored_path(target, k)
            if pre != 'absent':
                rp.parent.mkdir(parents=True, exist_ok=True)
                n = {'shorter': max(len(v) - 3, 0), 'equal': len(v), 'longer': len(v) + 37}[pre]
                rp.write_bytes(b'\xAA' * n)
        bystanders = {}
        if case.get('bystanders'):
            # unrelated files that already live in the target next to the files to be restored, under names a restore might want for
            # its own scratch work: "pre-existing files elsewhere are untouched"
            for k in expected:
                rp = lib.restored_path(target, k)
                rp.parent.mkdir(parents=True, exist_ok=True)
                for j, nm in enumerate((rp.name + '.part', rp.name + '.tmp', rp.name + '.partial', rp.name + '.bak', rp.name + '~',
                                        '.' + rp.name + '.swp', '.' + rp.name + '.tmp', rp.name + '.download', rp.name + '.new')):
                    q = rp.with_name(nm)
                    if str(q.resolve()) in {str(lib.restored_path(target, e).resolve()) for e in expected}:
                        continue
                    q.write_bytes(b'bystander %d of %s' % (j, rp.name.encode('utf-8', 'surrogateescape')))
                    bystanders[str(q.resolve())] = q.read_bytes()
        r2 = await repo.open()
        with lib.quiet():
            res = await r2.restore(path=target)
        await r2.close()
        got = lib.tree_files(target)
        problems = []
        for q, v in bystanders.items():
            if q not in got:
                problems.append({'path': q, 'problem': 'an unrelated pre-existing file of the target vanished'})
            elif Path(q).read_bytes() != v:
                problems.append({'path': q, 'problem': 'an unrelated pre-existing file of the target was changed'})
        got = [g for g in got if g not in bystanders]
        for k, v in expected.items():
            rp = lib.restored_path(target, k).resolve()
            if str(rp) not in got:
                problems.append({'path': k, 'problem': 'missing', 'size': len(v)})
                continue
            data = rp.read_bytes()
            if data != v:
                problems.append({'path': k, 'problem': 'content', 'expected_len': len(v), 'got_len': len(data)})
            elif os.stat(rp).st_mtime_ns != os.stat(k).st_mtime_ns:
                problems.append({'path': k, 'problem': 'mtime', 'expected': os.stat(k).st_mtime_ns, 'got': os.stat(rp).st_mtime_ns})
        want = {str(lib.restored_path(target, k).resolve()) for k in expected}
        extra = sorted(set(got) - want)
        if extra:
            problems.append({'problem': 'extra files', 'paths': extra[:5]})
        recorded = sorted(f['path'] for f in snap.data['files'])
        if sorted(expected) != recorded:
            problems.append({'problem': 'recorded paths differ', 'recorded': recorded[:6], 'expected': sorted(expected)[:6]})
        if problems:
            return {'problems': problems[:4], 'snapshotted_sizes': [len(v) for v in expected.values()]}
    return None


def classify(case, failure):
    """known-finding classes (witness predicates over the case)"""
    # D3: the files that were snapshotted (the arguments may select a subset of the tree) are all empty
    sizes = failure.get('snapshotted_sizes') if isinstance(failure, dict) and failure.get('snapshotted_sizes') is not None else case['sizes']
    if sizes and all(s == 0 for s in sizes):
        return 'D3'
    if any(a.startswith('symlink_file') for a in case['args']):
        return 'D14'
    return None


def cases(tier, seed):
    rnd = random.Random(seed)
    out = []
    fam = size_family(8, 64)
    base = dict(min=8, max=64, concurrent=2, encrypted=False, seed=seed, args=['dir'], pre='absent')
    # single files of every boundary size, plain and encrypted
    for sz in fam:
        out.append(dict(base, sizes=[sz]))
    for sz in fam[::2]:
        out.append(dict(base, sizes=[sz], encrypted=True, cipher='chacha20_poly1305'))
    # pre-existing targets
    for pre in ('shorter', 'equal', 'longer'):
        for sz in (0, 5, 64, 130):
            out.append(dict(base, sizes=[sz, 9], pre=pre))
    # several files: pairs around boundaries, identical content, empties at each position
    for a, b in [(0, 0), (0, 5), (5, 0), (3, 64), (64, 64), (65, 1), (129, 0), (0, 129), (4, 4), (63, 65)]:
        out.append(dict(base, sizes=[a, b]))
    out.append(dict(base, sizes=[0, 0, 0]))
    out.append(dict(base, sizes=[0, 7, 0, 200]))
    out.append(dict(base, sizes=[64, 64, 64], identical=True))
    out.append(dict(base, sizes=[100, 100], identical=True, encrypted=True))
    # repeated chunks that are NOT adjacent, within a file and across files (fixed-size chunks)
    for blocks in (['XYX'], ['XYXZYX'], ['XY', 'ZX', 'XY'], ['XXYXX', 'Y']):
        for enc in (False, True):
            out.append(dict(base, min=16, max=16, sizes=[16 * len(b) for b in blocks], blocks=blocks, encrypted=enc))
    out.append(dict(base, sizes=[40, 70, 9], epoch=True))
    out.append(dict(base, sizes=[40, 0], epoch=True, encrypted=True))
    # files around the 16 MiB read size of the snapshot stream (exactly one read, one read plus a tail, two reads)
    out.append(dict(base, min=1 << 20, max=1 << 21, sizes=[(1 << 24) + 70001, 3, 1 << 24], concurrent=3))
    # ... and with chunks much smaller than the read block (hundreds of chunks complete while the file is still being read)
    out.append(dict(base, min=1 << 15, max=1 << 16, sizes=[(1 << 24) + 70001, 5, (1 << 20) + 1], concurrent=2))
    # a SLOW backend and more chunks than the producer/worker queue holds (10 x concurrency)
    out.append(dict(base, sizes=[2500, 900], concurrent=1, slow_backend=0.04))
    out.append(dict(base, sizes=[3000, 5, 700], concurrent=2, slow_backend=0.06, encrypted=True))
    # a directory reachable by two routes inside the argument (symlinked sibling)
    out.append(dict(base, sizes=[30, 70, 5, 0], nested=True, alias=True))
    out.append(dict(base, sizes=[64, 1], nested=True, alias=True, encrypted=True, concurrent=1))
    # argument lists: repeats, overlaps, symlinks
    for args in (['file0', 'file0'], ['dir', 'file1'], ['dir', 'dir'], ['symlink_dir'], ['symlink_dir', 'dir'],
                 ['symlink_file0'], ['file0', 'symlink_file0'], ['file1', 'file0']):
        out.append(dict(base, sizes=[30, 70, 5], args=args))
    # configurations
    for hasher in ({'name': 'sha2', 'bits': 256}, {'name': 'sha3', 'bits': 224}, {'name': 'blake2b', 'length': 16}):
        out.append(dict(base, sizes=[10, 150], hasher=hasher, encrypted=True))
    for mn, mx in ((1, 4), (4, 4), (5, 8), (1, 12), (16, 16)):
        for sz in size_family(mn, mx)[::3]:
            out.append(dict(base, min=mn, max=mx, sizes=[sz, 3]))
    for conc in (1, 5):
        out.append(dict(base, sizes=[200, 3, 0, 77], concurrent=conc, encrypted=True))
    # names that look like somebody's scratch files next to the file they would belong to, and bystanders of such names in the target
    out.append(dict(base, sizes=[300, 120, 80, 60, 40], names=['report', 'report.part', 'report.tmp', 'report~', '.report.swp']))
    out.append(dict(base, sizes=[300, 120], names=['report.part', 'report'], concurrent=1))
    out.append(dict(base, sizes=[200, 0, 90], bystanders=True))
    out.append(dict(base, sizes=[200, 90], bystanders=True, pre='longer'))
    # non-ASCII names, nested directories
    out.append(dict(base, sizes=[12, 40], names=['naïve 文.bin', 'sp ace.tmp'], nested=True))
    # names that are NOT valid UTF-8 (Latin-1 / Shift-JIS bytes: Python hands them out with surrogate escapes), plain and encrypted
    for enc in (False, True):
        out.append(dict(base, sizes=[9, 33, 5], names=[os.fsdecode(b'caf\xe9.txt'), os.fsdecode(b'\x83\x65\x83\x58\x83\x67'), 'ascii.bin'], encrypted=enc))
    if tier == 'thorough':
        for _ in range(600):
            n = rnd.randint(1, 4)
            out.append(dict(base, sizes=[rnd.choice(fam) for _ in range(n)], encrypted=rnd.random() < 0.5,
                            concurrent=rnd.choice([1, 2, 5]), pre=rnd.choice(['absent', 'shorter', 'longer']),
                            seed=rnd.randint(0, 10 ** 6), nested=rnd.random() < 0.5,
                            args=rnd.choice([['dir'], ['dir', 'file0'], ['file0', 'file1', 'file0']])))
    return out


def main():
    payload = lib.read_payload()
    tier, seed = payload.get('tier', 'quick'), int(payload.get('seed', 0))
    if payload.get('only_case'):
        cs = [payload['only_case']]
    else:
        cs = cases(tier, seed)
    failures, samples, distinct = [], [], set()
    for i, c in enumerate(cs):
        key = repr(sorted((k, str(v)) for k, v in c.items()))
        distinct.add(key)
        try:
            f = lib.run(one_case(c))
        except Exception as e:  # an unexpected exception of snapshot/restore is a contract failure too
            f = {'problems': [{'problem': 'exception', 'type': type(e).__name__, 'text': str(e)[:300]}]}
        if f is not None:
            failures.append({'id': f'case{i}', 'class': classify(c, f), 'case': c, 'detail': f})
        if i < 3:
            samples.append(c)
    lib.emit({'status': 'ok', 'cases': len(cs), 'distinct': len(distinct), 'failures': failures, 'samples': samples,
              'exhaustive': False, 'reproduced': bool(failures)})


if __name__ == '__main__':
    main()
