"""C17.lattice - bounded stand-in: the settings lattice on the real init/add_key.
accepted => a FRESH Repository object unlocks with the emitted key, snapshots and restores a 3-file tree;
rejected => the backend holds no object.  Keys: chains of add-key (independent / shared) of depth <= 3, each key
unlocks with its own password and with no other.
Bound: 3 hashes x sizes (valid/invalid), 2 ciphers x key/nonce sizes, 2 KDFs x parameters (incl. non-powers of 2),
chunker bounds incl. 0, negative, float, string, min>max, unknown keys/adapters."""
import itertools
import os
import random
import sys
from pathlib import Path

sys.path.insert(0, os.path.dirname(os.path.abspath(__file__)))
import lib  # noqa: E402
from replicat.repository import Repository  # noqa: E402
from replicat.backends.local import Local  # noqa: E402
from replicat import exceptions  # noqa: E402

FAST = {'name': 'scrypt', 'n': 4, 'r': 1, 'p': 1}


def lattice(tier):
    hashing = [None, {'name': 'blake2b', 'length': 64}, {'name': 'blake2b', 'length': 1}, {'name': 'blake2b', 'length': 65},
               {'name': 'blake2b', 'length': 0}, {'name': 'blake2b', 'length': 'x'}, {'name': 'sha2', 'bits': 256},
               {'name': 'sha2', 'bits': 100}, {'name': 'sha3', 'bits': 512}, {'name': 'md5'}, {'name': 'sha2', 'size': 3},
               # values that EQUAL a documented one without being it (CLI / TOML typing: 256.0, 5.12e2, True)
               {'name': 'sha2', 'bits': 256.0}, {'name': 'sha3', 'bits': 5.12e2}, {'name': 'sha3', 'bits': '384'}, {'name': 'blake2b', 'length': 32.0},
               {'name': 'blake2b', 'length': True}, {'name': 'sha2', 'bits': 384}, {'name': 'sha3', 'bits': 224},
               # adapters that EXIST but are of another kind (cipher / KDF / chunker named as the hash)
               {'name': 'aes_gcm'}, {'name': 'chacha20_poly1305'}, {'name': 'scrypt'}, {'name': 'gclmulchunker'}]
    chunking = [None, {'min_length': 8, 'max_length': 64}, {'min_length': 0, 'max_length': 4}, {'min_length': -4, 'max_length': 8},
                {'min_length': 8.5, 'max_length': 64}, {'min_length': '8', 'max_length': 64}, {'min_length': 65, 'max_length': 64},
                {'min_length': 1, 'max_length': 1}, {'min_length': 4, 'max_length': 4}, {'min_length': 5, 'max_length': 8},
                # equal bounds that do NOT divide the length of the stream (the tail is shorter than a chunk)
                {'min_length': 48, 'max_length': 48}, {'min_length': 64, 'max_length': 64}, {'min_length': 100, 'max_length': 100},
                {'name': 'nochunker'}, {'min_length': 8, 'max_length': 64, 'extra': 1}, {'name': 'sha2'}, {'name': 'blake2b'}, {'name': 'aes_gcm'}]
    ciphers = [None, {'name': 'aes_gcm', 'key_bits': 128.0}, {'name': 'aes_gcm', 'key_bits': 192}, {'name': 'aes_gcm', 'key_bits': 128}, {'name': 'aes_gcm', 'key_bits': 100}, {'name': 'aes_gcm', 'key_bits': 256, 'nonce_bits': 96},
               {'name': 'aes_gcm', 'nonce_bits': 0}, {'name': 'aes_gcm', 'nonce_bits': 64}, {'name': 'chacha20_poly1305'},
               {'name': 'chacha20_poly1305', 'key_bits': 128}, {'name': 'blake2b'}, {'name': 'sha3'}, {'name': 'gclmulchunker'}]
    kdfs = [dict(FAST), {'name': 'scrypt', 'n': 6, 'r': 1, 'p': 1}, {'name': 'scrypt', 'n': 0, 'r': 1, 'p': 1}, {'name': 'blake2b'},
            {'name': 'scrypt', 'n': 4, 'r': 0, 'p': 1}, {'name': 'argon'}, {'name': 'aes_gcm'}, {'name': 'sha2'}, {'name': 'gclmulchunker'}]
    out = []
    for h in hashing:
        out.append({'hashing': h, 'chunking': {'min_length': 8, 'max_length': 64}, 'cipher': None, 'kdf': FAST, 'encrypted': False})
        out.append({'hashing': h, 'chunking': {'min_length': 8, 'max_length': 64}, 'cipher': None, 'kdf': FAST, 'encrypted': True})
    for c in chunking:
        out.append({'hashing': None, 'chunking': c, 'cipher': None, 'kdf': FAST, 'encrypted': False})
    for c in ciphers:
        out.append({'hashing': None, 'chunking': {'min_length': 8, 'max_length': 64}, 'cipher': c, 'kdf': FAST, 'encrypted': True})
    for k in kdfs:
        out.append({'hashing': None, 'chunking': {'min_length': 8, 'max_length': 64}, 'cipher': None, 'kdf': k, 'encrypted': True})
    out.append({'hashing': None, 'chunking': None, 'cipher': None, 'kdf': FAST, 'encrypted': True, 'extra_top': {'bogus': {}}})
    out.append({'hashing': [], 'chunking': None, 'cipher': None, 'kdf': FAST, 'encrypted': False})
    return out


def build_settings(case):
    s = {}
    if case['hashing'] is not None:
        s['hashing'] = case['hashing'] if not isinstance(case['hashing'], dict) else dict(case['hashing'])
    if case['chunking'] is not None:
        s['chunking'] = dict(case['chunking'])
    if case['encrypted']:
        enc = {'kdf': dict(case['kdf'])}
        if case['cipher'] is not None:
            enc['cipher'] = dict(case['cipher'])
        s['encryption'] = enc
    else:
        s['encryption'] = None
    s.update(case.get('extra_top', {}))
    return s


async def one(case, base, idx):
    d = base / f'c{idx}'
    (d / 'src').mkdir(parents=True)
    files = {}
    for i, sz in enumerate((0, 37, 300)):
        p = d / 'src' / f'f{i}'
        p.write_bytes(lib.content(idx * 10 + i, sz))
        files[str(p.resolve())] = p.read_bytes()
    backend = Local(d / 'repo')
    r = Repository(backend, concurrent=2, quiet=True, cache_directory=None)
    settings = build_settings(case)
    try:
        with lib.quiet():
            res = await r.init(password=b'pw0', settings=settings)
        accepted = True
    except Exception as e:
        accepted = False
        err = f'{type(e).__name__}: {e}'[:200]
    await r.close()
    if not accepted:
        left = list(Local(d / 'repo').list_files('')) if (d / 'repo').exists() else []
        if left:
            return {'problem': 'rejected settings left objects in the backend', 'objects': left[:3], 'error': err}
        return None
    # fresh process: new objects, key as serialized
    key = res.key
    r2 = Repository(Local(d / 'repo'), concurrent=2, quiet=True, cache_directory=None)
    try:
        with lib.quiet():
            await r2.unlock(password=b'pw0', key=r2.serialize(key) if key is not None else None)
            await r2.snapshot(paths=[d / 'src'])
    except Exception as e:
        return {'problem': 'accepted settings do not yield a usable repository', 'error': f'{type(e).__name__}: {e}'[:300]}
    finally:
        await r2.close()
    # ... and ANOTHER fresh process restores (state accumulated inside the adapters of the writer must not matter)
    r3 = Repository(Local(d / 'repo'), concurrent=2, quiet=True, cache_directory=None)
    try:
        with lib.quiet():
            await r3.unlock(password=b'pw0', key=r3.serialize(key) if key is not None else None)
            await r3.restore(path=d / 'out')
    except Exception as e:
        return {'problem': 'a snapshot taken with accepted settings cannot be restored by a fresh process', 'error': f'{type(e).__name__}: {e}'[:300]}
    finally:
        await r3.close()
    for k, v in files.items():
        rp = lib.restored_path(d / 'out', k)
        if not rp.exists() or rp.read_bytes() != v:
            return {'problem': 'accepted settings: restore differs', 'file': k, 'size': len(v)}
    return None


async def key_chains(base, rnd):
    problems = []
    d = base / 'keys'
    d.mkdir()
    backend = Local(d / 'repo')
    r = Repository(backend, concurrent=2, quiet=True, cache_directory=None)
    with lib.quiet():
        res = await r.init(password=b'owner', settings={'encryption': {'kdf': FAST}, 'chunking': {'min_length': 8, 'max_length': 64}})
    keys = [('owner', b'owner', res.key)]
    await r.close()
    n = 0
    for depth in range(3):
        base_name, base_pw, base_key = rnd.choice(keys)
        for shared in (False, True):
            rr = Repository(Local(d / 'repo'), concurrent=2, quiet=True, cache_directory=None)
            with lib.quiet():
                await rr.unlock(password=base_pw, key=rr.serialize(base_key))
                pw = f'pw{depth}{shared}'.encode()
                if depth == 1 and shared:
                    pw = b''                                  # the empty password: accepted by add-key (anything but None), so it must unlock
                if depth == 2 and not shared:
                    pw = b'p' * 70 + bytes([depth])           # longer than any hash block / key size limit of the KDFs
                kdf = rnd.choice([FAST, {'name': 'scrypt', 'n': 8, 'r': 2, 'p': 1}])
                nk = await rr.add_key(password=pw, shared=shared, settings={'encryption': {'kdf': dict(kdf)}})
            await rr.close()
            keys.append((f'k{depth}{shared}', pw, nk.new_key))
    # a new key with the SAME password as the key the object was unlocked with (and the same KDF settings): the object has derived a
    # user key from that password already; the new key has its own salt, and a fresh object must open it
    for shared in (False, True):
        rr = Repository(Local(d / 'repo'), concurrent=2, quiet=True, cache_directory=None)
        with lib.quiet():
            await rr.unlock(password=b'owner', key=rr.serialize(res.key))
            nk = await rr.add_key(password=b'owner', shared=shared, settings={'encryption': {'kdf': dict(FAST)}})
        await rr.close()
        keys.append((f'same_password_{shared}', b'owner', nk.new_key))
    for name, pw, key in keys:
        for other_name, other_pw, _ in keys:
            n += 1
            rr = Repository(Local(d / 'repo'), concurrent=2, quiet=True, cache_directory=None)
            try:
                with lib.quiet():
                    await rr.unlock(password=other_pw, key=rr.serialize(key))
                ok = True
            except exceptions.ReplicatError:
                ok = False
            except Exception as e:
                ok = None
                problems.append({'problem': 'unexpected exception on unlock', 'error': f'{type(e).__name__}: {e}'[:200]})
            await rr.close()
            if ok is True and other_pw != pw:
                problems.append({'problem': 'a key unlocked with a foreign password', 'key': name, 'password_of': other_name})
            if ok is False and other_pw == pw:
                problems.append({'problem': 'a key does not unlock with its own password', 'key': name})
    return problems, n


def main():
    payload = lib.read_payload()
    tier, seed = payload.get('tier', 'quick'), int(payload.get('seed', 0))
    rnd = random.Random(seed)
    failures, samples, cases = [], [], 0
    with lib.scratch('vf_c17_') as base:
        for idx, case in enumerate(lattice(tier)):
            cases += 1
            try:
                f = lib.run(one(case, base, idx))
            except Exception as e:
                f = {'problem': 'harness exception', 'error': f'{type(e).__name__}: {e}'[:300]}
            if f:
                h = case.get('hashing') if isinstance(case.get('hashing'), dict) else {}
                tiny = h.get('name') == 'blake2b' and isinstance(h.get('length'), int) and 1 <= h['length'] < 16 and 'restore differs' in str(f)
                failures.append({'id': f'settings{idx}', 'class': 'D15' if tiny else None, 'case': case, 'detail': f})
            if idx < 3:
                samples.append(case)
        probs, n = lib.run(key_chains(base, rnd))
        cases += n
        for i, p in enumerate(probs):
            failures.append({'id': f'keys{i}', 'class': None, 'case': {'chain': 'add-key', 'seed': seed}, 'detail': p})
    lib.emit({'status': 'ok', 'cases': cases, 'distinct': cases, 'failures': failures[:12], 'samples': samples,
              'exhaustive': False, 'reproduced': bool(failures)})


if __name__ == '__main__':
    main()
