"""C14.reference / C05.e2e_scan - bounded stand-in with an INDEPENDENT reader and writer of the documented format
(hashlib.blake2b / sha2, cryptography Scrypt + AESGCM / ChaCha20Poly1305, json, base64 only).
 (a) replicat writes, the reference reads: config, key, snapshot name/tag/location, chunk table, chunk locations,
     chunk keys, file ranges (tiling), digests.
 (b) the reference writes (incl. the pre-1.3 metadata variant), replicat restores.
 (c) prop=C05: nothing stored in an encrypted repository (names or bytes) nor the key file contains marker
     plaintexts (file contents, file names, note, content digests, key secrets) in raw, hex or base64 form."""
import asyncio
import base64
import hashlib
import json
import os
import random
import shutil
import sys
from pathlib import Path

sys.path.insert(0, os.path.dirname(os.path.abspath(__file__)))
import lib  # noqa: E402
from cryptography.hazmat.primitives.ciphers.aead import AESGCM, ChaCha20Poly1305  # noqa: E402
from cryptography.hazmat.primitives.kdf.scrypt import Scrypt  # noqa: E402
from replicat.repository import Repository  # noqa: E402
from replicat.backends.local import Local  # noqa: E402

PW = b'correct horse'


# ---------------------------------------------------------------- reference primitives (from the documentation)
def untag(o):
    if isinstance(o, dict) and len(o) == 1 and '!b' in o:
        return base64.b64decode(o['!b'], validate=True)
    return o


def loads(b):
    return json.loads(b, object_hook=untag)


def dumps(o):
    def hook(x):
        if isinstance(x, (bytes, bytearray)):
            return {'!b': base64.b64encode(bytes(x)).decode('ascii')}
        raise TypeError
    return json.dumps(o, separators=(',', ':'), default=hook).encode('ascii')


def hasher(cfg):
    if cfg['name'] == 'blake2b':
        return lambda d: hashlib.blake2b(d, digest_size=cfg['length']).digest()
    pre = {'sha2': 'sha', 'sha3': 'sha3_'}[cfg['name']]
    return lambda d: getattr(hashlib, f'{pre}{cfg["bits"]}')(d).digest()


def mac(data, key, size):
    return hashlib.blake2b(data, digest_size=size, key=key).digest()


def fastkdf(ikm, salt, ctx, size):
    return hashlib.blake2b(ctx, key=ikm, salt=salt, digest_size=size).digest()


def aead(cfg):
    return AESGCM if cfg['name'] == 'aes_gcm' else ChaCha20Poly1305


def dec(cfg, data, key):
    n = cfg.get('nonce_bits', 96) // 8
    return aead(cfg)(key).decrypt(data[:n], data[n:], None)


def enc(cfg, data, key, rnd):
    n = cfg.get('nonce_bits', 96) // 8
    nonce = rnd.randbytes(n)
    return nonce + aead(cfg)(key).encrypt(nonce, data, None)


def chunk_location(name, tag):
    return f'data/{tag[:2]}/{tag[2:4]}/{tag[4:]}-{name}'


def snapshot_location(name, tag):
    return f'snapshots/{tag[:2]}/{tag[2:]}-{name}'


# ---------------------------------------------------------------- (a) reference reader
def derive_user_key(key):
    kdf = key['kdf']
    if kdf['name'] == 'scrypt':
        return Scrypt(salt=key['kdf_params'], length=kdf['length'], n=kdf['n'], r=kdf['r'], p=kdf['p']).derive(PW)
    # blake2b as the user KDF: keyed with the password, salted with kdf_params, empty context
    return hashlib.blake2b(b'', key=PW, salt=key['kdf_params'], digest_size=kdf['length']).digest()


def reference_read(repo, key_bytes, problems):
    config = loads((repo / 'config').read_bytes())
    H = hasher(config['hashing'])
    encrypted = config.get('encryption') is not None
    if encrypted:
        ciph = config['encryption']['cipher']
        key = loads(key_bytes)
        kdf = key['kdf']
        user_key = derive_user_key(key)
        private = loads(dec(ciph, key['private'], user_key))
        sk, ss, sl = private['shared_key'], private['shared_kdf_params'], private['shared_kdf']['length']
        mk, ml = private['mac_params'], private['mac']['length']
    restored = {}
    reachable = set()
    for sp in [p for p in (repo / 'snapshots').rglob('*') if p.is_file()]:
        raw = sp.read_bytes()
        d = H(raw)
        tag = (mac(d, mk, ml) if encrypted else d).hex()
        want = snapshot_location(d.hex(), tag)
        if sp.relative_to(repo).as_posix() != want:
            problems.append({'problem': 'snapshot is not stored under the documented name', 'stored': sp.relative_to(repo).as_posix()[:60]})
        body = loads(raw)
        if set(body) != {'chunks', 'data'}:
            problems.append({'problem': 'snapshot body keys', 'keys': sorted(body)})
            continue
        try:
            if encrypted:
                table = loads(dec(ciph, body['chunks'], fastkdf(sk, ss, H(body['data']), sl)))
                data = loads(dec(ciph, body['data'], user_key))
            else:
                table, data = body['chunks'], body['data']
        except Exception as e:
            problems.append({'problem': 'snapshot does not decrypt under the documented keys', 'error': type(e).__name__})
            continue
        chunks = {}
        for i, cd in enumerate(table):
            name = mac(cd, mk, ml) if encrypted else cd
            ctag = (mac(name, mk, ml) if encrypted else cd).hex()
            loc = chunk_location(name.hex(), ctag)
            if not (repo / loc).is_file():
                problems.append({'problem': 'chunk not found at the documented location', 'index': i})
                continue
            reachable.add(loc)
            blob = (repo / loc).read_bytes()
            try:
                plain = dec(ciph, blob, fastkdf(sk, ss, cd, sl)) if encrypted else blob
            except Exception as e:
                problems.append({'problem': 'chunk does not decrypt under the documented key', 'index': i})
                continue
            if H(plain) != cd:
                problems.append({'problem': 'chunk digest mismatch', 'index': i})
            chunks[i] = plain
        if not {'utc_timestamp', 'files'} <= set(data):
            problems.append({'problem': 'snapshot data keys', 'keys': sorted(data)})
        for f in data['files']:
            out = b''
            for part in sorted(f['chunks'], key=lambda x: x['counter']):
                lo, hi = part['range']
                c = chunks.get(part['index'], b'')
                if not 0 <= lo <= hi <= len(c):
                    problems.append({'problem': 'range outside its chunk', 'path': f['path']})
                out += c[lo:hi]
            if len(out) != f['metadata']['st_size']:
                problems.append({'problem': 'ranges do not tile the file', 'path': f['path'], 'covered': len(out), 'size': f['metadata']['st_size']})
            if H(out) != f['digest']:
                problems.append({'problem': 'file digest mismatch', 'path': f['path']})
            restored[f['path']] = out
    stored = {p.relative_to(repo).as_posix() for p in (repo / 'data').rglob('*') if p.is_file()}
    if stored != reachable:
        problems.append({'problem': 'stored chunk objects differ from those reachable by documented names', 'extra': len(stored - reachable)})
    return restored


# ---------------------------------------------------------------- (b) reference writer
def reference_write(repo, files, encrypted, rnd, old_metadata):
    """files: {abs path: bytes}.  -> key bytes (or None)"""
    repo.mkdir(parents=True)
    hcfg = {'name': 'blake2b', 'length': 64}
    H = hasher(hcfg)
    config = {'hashing': hcfg, 'chunking': {'name': 'gclmulchunker', 'min_length': 8, 'max_length': 64}}
    ciph = {'name': 'aes_gcm', 'key_bits': 256, 'nonce_bits': 96}
    key_bytes = None
    if encrypted:
        config['encryption'] = {'cipher': ciph}
        salt = rnd.randbytes(32)
        kdf = {'name': 'scrypt', 'length': 32, 'n': 4, 'r': 1, 'p': 1}
        user_key = Scrypt(salt=salt, length=32, n=4, r=1, p=1).derive(PW)
        private = {'shared_key': rnd.randbytes(32), 'shared_kdf': {'name': 'blake2b', 'length': 32}, 'shared_kdf_params': rnd.randbytes(16),
                   'mac': {'name': 'blake2b', 'length': 64}, 'mac_params': rnd.randbytes(64), 'chunker_params': rnd.randbytes(16)}
        key_bytes = dumps({'kdf': kdf, 'kdf_params': salt, 'private': enc(ciph, dumps(private), user_key, rnd)})
        sk, ss, mk = private['shared_key'], private['shared_kdf_params'], private['mac_params']
    (repo / 'config').write_bytes(dumps(config))
    # stream = files back to back (any chunking is a valid repository: ranges are recorded per file)
    table, records, counter = [], [], 0
    for path, data in files.items():
        parts = []
        pos = 0
        while True:
            piece = data[pos:pos + rnd.choice([7, 16, 40, 64])]
            pos += len(piece)
            cd = H(piece)
            if cd not in table:
                table.append(cd)
                name = mac(cd, mk, 64) if encrypted else cd
                tag = (mac(name, mk, 64) if encrypted else cd).hex()
                loc = repo / chunk_location(name.hex(), tag)
                loc.parent.mkdir(parents=True, exist_ok=True)
                loc.write_bytes(enc(ciph, piece, fastkdf(sk, ss, cd, 32), rnd) if encrypted else piece)
            counter += 1
            parts.append({'range': [0, len(piece)], 'index': table.index(cd), 'counter': counter})
            if pos >= len(data):
                break
        if old_metadata:
            meta = {'st_mode': 0o100644, 'st_uid': 0, 'st_gid': 0, 'st_size': len(data), 'st_atime': 1500000000.5, 'st_mtime': 1400000000.25, 'st_ctime': 1400000000.0}
        else:
            meta = {'st_mode': 0o100644, 'st_uid': 0, 'st_gid': 0, 'st_size': len(data), 'st_atime_ns': 1500000000500000000,
                    'st_mtime_ns': 1400000000250000000, 'st_ctime_ns': 1400000000000000000}
        records.append({'path': path, 'chunks': parts[::-1], 'digest': H(data), 'metadata': meta})
    data = {'utc_timestamp': '2020-01-02 03:04:05.000006', 'files': records, 'note': 'written by the reference'}
    if encrypted:
        e_data = enc(ciph, dumps(data), user_key, rnd)
        body = dumps({'chunks': enc(ciph, dumps(table), fastkdf(sk, ss, H(e_data), 32), rnd), 'data': e_data})
    else:
        body = dumps({'chunks': table, 'data': data})
    d = H(body)
    tag = (mac(d, mk, 64) if encrypted else d).hex()
    sp = repo / snapshot_location(d.hex(), tag)
    sp.parent.mkdir(parents=True, exist_ok=True)
    sp.write_bytes(body)
    return key_bytes


# ---------------------------------------------------------------- scenarios
async def replicat_writes(root, cfgi, settings, files_spec, note):
    src = root / 'src'
    src.mkdir()
    contents = {}
    for name, data in files_spec.items():
        (src / name).parent.mkdir(parents=True, exist_ok=True)
        (src / name).write_bytes(data)
        contents[str((src / name).resolve())] = data
    r = Repository(Local(root / 'repo'), concurrent=2, quiet=True, cache_directory=None)
    with lib.quiet():
        res = await r.init(password=PW, settings=settings)
        kb = r.serialize(res.key) if res.key else None
        r2 = Repository(Local(root / 'repo'), concurrent=2, quiet=True, cache_directory=None)
        await r2.unlock(password=PW, key=kb)
        snap = await r2.snapshot(paths=[src], note=note)
        await r2.close()
    await r.close()
    return kb, contents, snap


def scan(root, kb, markers, problems):
    """C05: no marker (raw / hex / base64) in any stored name, stored byte string or the key file"""
    forms = []
    for label, m in markers:
        if len(m) >= 6:
            forms += [(label, m), (label + ' (hex)', m.hex().encode()), (label + ' (base64)', base64.b64encode(m).rstrip(b'='))]
    blobs = [('key file', kb or b'')]
    for p in (root / 'repo').rglob('*'):
        if p.is_file() and p.name != 'config':
            blobs.append((p.relative_to(root / 'repo').as_posix(), p.read_bytes()))
            blobs.append(('name of ' + p.relative_to(root / 'repo').as_posix()[:20], p.relative_to(root / 'repo').as_posix().encode()))
    for where, b in blobs:
        for label, f in forms:
            if f in b:
                problems.append({'problem': 'plaintext visible at rest', 'what': label, 'where': where[:50]})


async def forgetful_backend_run(root, kb, markers, problems):
    """C05 does not depend on what the backend ANSWERS: a store whose existence check says "no" for objects that were just written
    (eventual consistency, an object removed by another client) makes replicat upload every occurrence of a repeated chunk; every
    payload handed to the backend is scanned"""
    handed = []

    class Forgetful(Local):
        def exists(self, name):
            return False if name.startswith('data/') else super().exists(name)

        def upload_stream(self, name, stream, length, chunk_size=128000):
            data = stream.read()
            handed.append((name, data))
            import io as _io
            return super().upload_stream(name, _io.BytesIO(data), length, chunk_size)

        def upload(self, name, data):
            handed.append((name, bytes(data)))
            return super().upload(name, data)

    src = root / 'src_rep'
    src.mkdir()
    (src / 'records.bin').write_bytes(b'PLAINTXT' * 80)                    # one record repeated: the same chunk many times in one snapshot
    (src / 'zeros.bin').write_bytes(bytes(700))
    r = Repository(Forgetful(root / 'repo'), concurrent=2, quiet=True, cache_directory=None)
    with lib.quiet():
        await r.unlock(password=PW, key=kb)
        await r.snapshot(paths=[src], note='rep')
    await r.close()
    # every 8-byte window of the repeated record is one of its rotations: any chunk of 8+ bytes cut from it is recognised
    forms = [('repeated record', (b'PLAINTXT' * 2)[i:i + 8]) for i in range(8)] + [('run of zero bytes', bytes(48))] + [(l, m) for l, m in markers if len(m) >= 6]
    for name, data in handed:
        for label, f in forms:
            if f in data:
                problems.append({'problem': 'plaintext handed to the backend', 'what': label, 'object': name[:40], 'backend': 'existence check answers no for fresh objects'})
                return


async def more_runs_then_nonces(root, kb, settings, problems, markers):
    """C05 (no two ciphertexts under one key share a nonce): several further runs, each with a FRESH Repository object as
    the CLI makes them (same tree again, a tree of one empty file, add-key, delete + clean), then every nonce found at
    rest - chunk objects, both sections of every snapshot body, the private section of every key - must be distinct."""
    nb = (settings['encryption'].get('cipher') or {}).get('nonce_bits', 96) // 8
    keys = [kb]
    empty = root / 'only-empty'
    empty.mkdir()
    (empty / 'nothing').write_bytes(b'')
    steps = [('snapshot', root / 'src'), ('snapshot', empty), ('snapshot', root / 'src'), ('add_key', None), ('snapshot', empty), ('delete_clean', None),
             ('snapshot', root / 'src')]
    seen = {}         # nonce -> where
    dupes = []

    def note_nonce(blob, where):
        n = bytes(blob[:nb])
        if n in seen and seen[n] != where:
            dupes.append({'nonce': n.hex(), 'first': seen[n], 'again': where})
        seen.setdefault(n, where)

    def harvest():
        for p in (root / 'repo').rglob('*'):
            if not p.is_file() or p.name == 'config':
                continue
            rel = p.relative_to(root / 'repo').as_posix()
            raw = p.read_bytes()
            if rel.startswith('data/'):
                note_nonce(raw, 'chunk ' + rel[-12:])
            elif rel.startswith('snapshots/'):
                body = loads(raw)
                note_nonce(body['chunks'], 'chunk table of snapshot ' + rel[-12:])
                note_nonce(body['data'], 'private data of snapshot ' + rel[-12:])
        for i, k in enumerate(keys):
            note_nonce(loads(k)['private'], f'private section of key #{i}')

    harvest()
    last = None
    for what, arg in steps:
        r = Repository(Local(root / 'repo'), concurrent=2, quiet=True, cache_directory=None)
        with lib.quiet():
            await r.unlock(password=PW, key=kb)
            if what == 'snapshot':
                last = await r.snapshot(paths=[arg], note='again')
            elif what == 'add_key':
                res = await r.add_key(password=b'another password', shared=True)
                keys.append(r.serialize(res.new_key))
            elif last is not None:
                await r.delete_snapshots([last.name], confirm=False)
                await r.clean()
        await r.close()
        harvest()
    # one LONG-LIVED object (library use): snapshot, delete it and clean, snapshot the same data again, then look again
    r = Repository(Local(root / 'repo'), concurrent=2, quiet=True, cache_directory=None)
    with lib.quiet():
        await r.unlock(password=PW, key=kb)
        fresh = root / 'fresh'
        fresh.mkdir()
        (fresh / 'secret-name.txt').write_bytes(markers[0][1] + b'-second-file-never-stored-before' * 3)
        s1 = await r.snapshot(paths=[fresh], note='a-very-private-note')
        await r.delete_snapshots([s1.name], confirm=False)
        await r.clean()
        await r.snapshot(paths=[fresh], note='a-very-private-note')
        # a snapshot of an EMPTY tree: no chunk, no file - the snapshot object (note, timestamp) is sealed like any other
        nothing = root / 'empty_tree'
        (nothing / 'sub').mkdir(parents=True)
        await r.snapshot(paths=[nothing], note='a-very-private-note')
    await r.close()
    scan(root, kb, markers, problems)
    harvest()
    # MANY encryptions by ONE cipher object (a long-lived client taking 100 snapshots of a changing tiny file: > 300 nonces from the
    # same object, 100 of them under the user key): still no nonce twice
    r = Repository(Local(root / 'repo'), concurrent=1, quiet=True, cache_directory=None)
    tiny = root / 'tiny'
    tiny.mkdir()
    with lib.quiet():
        await r.unlock(password=PW, key=kb)
        for i in range(100):
            (tiny / 't').write_bytes(b'tick %d' % i)
            await r.snapshot(paths=[tiny])
    await r.close()
    harvest()
    scan(root, kb, markers, problems)
    for d in dupes[:3]:
        problems.append({'problem': 'two ciphertexts at rest carry the same nonce', **d})


def main():
    payload = lib.read_payload()
    tier, seed, prop = payload.get('tier', 'quick'), int(payload.get('seed', 0)), payload.get('prop', 'C14')
    rnd = random.Random(seed)
    failures, samples, cases = [], [], 0
    fast = {'name': 'scrypt', 'n': 4, 'r': 1, 'p': 1}
    configs = [
        {'encryption': {'kdf': dict(fast)}, 'chunking': {'min_length': 8, 'max_length': 64}},
        {'encryption': None, 'chunking': {'min_length': 8, 'max_length': 64}},
        {'encryption': {'kdf': dict(fast), 'cipher': {'name': 'chacha20_poly1305'}}, 'hashing': {'name': 'sha2', 'bits': 256}, 'chunking': {'min_length': 4, 'max_length': 16}},
        {'encryption': {'kdf': dict(fast), 'cipher': {'name': 'aes_gcm', 'key_bits': 128}}, 'hashing': {'name': 'blake2b', 'length': 32}, 'chunking': {'min_length': 16, 'max_length': 48}},
        {'encryption': {'kdf': {'name': 'blake2b'}}, 'hashing': {'name': 'sha3', 'bits': 256}, 'chunking': {'min_length': 8, 'max_length': 64}},
        {'encryption': None, 'hashing': {'name': 'sha3', 'bits': 384}, 'chunking': {'min_length': 1, 'max_length': 12}},
    ]
    if prop == 'C05':
        configs = [c for c in configs if c['encryption'] is not None]
        configs.sort(key=lambda c: 0 if c['encryption']['kdf'].get('name') == 'blake2b' else 1)      # the non-default user KDF is part of the quick tier
    for ci, settings in enumerate(configs if tier == 'thorough' else configs[:3]):
        files_spec = {'secret-name.txt': b'TOP-SECRET-CONTENT-' + rnd.randbytes(40), 'sub/b.bin': rnd.randbytes(300), 'empty': b'',
                      'dup.bin': b'hello replicat\n' * 20, 'sub/dup2.bin': b'hello replicat\n' * 20, 'one': b'x',
                      # a name that is not valid UTF-8 (Latin-1 bytes on disk) and one that is non-ASCII UTF-8
                      os.fsdecode(b'caf\xe9.bin'): b'latin-1 name', 'na\u00efve \u6587.txt': b'utf-8 name'}
        with lib.scratch('vf_c14_') as root:
            cases += 1
            problems = []
            try:
                import copy
                kb, contents, snap = asyncio.run(replicat_writes(root, ci, copy.deepcopy(settings), files_spec, 'a-very-private-note'))
                restored = reference_read(root / 'repo', kb, problems)
                if restored != contents and not problems:
                    problems.append({'problem': 'the reference reader recovered different files', 'recovered': len(restored), 'expected': len(contents)})
                if prop == 'C05' and settings['encryption'] is not None:
                    key = loads(kb)
                    H = hasher(loads((root / 'repo' / 'config').read_bytes())['hashing'])
                    markers = [('file content', files_spec['secret-name.txt']), ('file name', b'secret-name.txt'), ('note', b'a-very-private-note'),
                               ('content digest of a file', H(files_spec['sub/b.bin'])), ('chunk digest', snap.chunks[0]),
                               ('directory name', str(root).encode())]
                    # key secrets: every byte string of the key's private section and the user key itself
                    try:
                        uk = derive_user_key(key)
                        priv = loads(dec(loads((root / 'repo' / 'config').read_bytes())['encryption']['cipher'], key['private'], uk))
                        markers += [('user key', uk)] + [(f'private {k}', v) for k, v in priv.items() if isinstance(v, (bytes, bytearray))]
                    except Exception as e:
                        problems.append({'problem': 'reference cannot open the private section', 'error': f'{type(e).__name__}: {e}'[:120]})
                    scan(root, kb, markers, problems)
                    asyncio.run(more_runs_then_nonces(root, kb, settings, problems, markers))
                    asyncio.run(forgetful_backend_run(root, kb, markers, problems))
            except Exception as e:
                import traceback
                problems.append({'problem': 'exception', 'error': f'{type(e).__name__}: {e}'[:200], 'tb': traceback.format_exc()[-400:]})
            if problems:
                failures.append({'id': f'read{ci}', 'class': None, 'case': {'direction': 'replicat writes, reference reads', 'settings': settings}, 'detail': problems[:3]})
            samples.append({'direction': 'replicat writes / reference reads', 'config': ci})
    if prop == 'C14':
        # files LARGER than the read block of the snapshot stream (16 MiB) and than any queue / window inside snapshot: several hundred
        # chunks complete while the file is still being read; the recorded ranges must still tile every file
        big_settings = {'encryption': {'kdf': dict(fast)}, 'chunking': {'min_length': 32768, 'max_length': 65536}}
        big_files = {'big.bin': random.Random(seed + 5).randbytes(20 * 2 ** 20 + 5), 'tiny': b'7 bytes', 'mid/mid.bin': random.Random(seed + 6).randbytes(2 ** 20 + 1), 'empty': b''}
        with lib.scratch('vf_c14b_') as root:
            cases += 1
            problems = []
            try:
                import copy
                kb, contents, snap = asyncio.run(replicat_writes(root, 99, copy.deepcopy(big_settings), big_files, 'big'))
                restored = reference_read(root / 'repo', kb, problems)
                if restored != contents and not problems:
                    problems.append({'problem': 'the reference reader recovered different files', 'recovered': len(restored), 'expected': len(contents),
                                     'sizes': {os.path.basename(k): len(v) for k, v in restored.items()}})
            except Exception as e:
                import traceback
                problems.append({'problem': 'exception', 'error': f'{type(e).__name__}: {e}'[:200], 'tb': traceback.format_exc()[-400:]})
            if problems:
                failures.append({'id': 'read_big', 'class': None, 'case': {'direction': 'replicat writes, reference reads', 'settings': big_settings, 'file_sizes': [len(v) for v in big_files.values()]}, 'detail': problems[:3]})
    if prop == 'C14':
        for encrypted in (True, False):
            for old in (False, True):
                with lib.scratch('vf_c14_') as root:
                    cases += 1
                    files = {str(root / 'orig' / n): d for n, d in {'a.txt': rnd.randbytes(130), 'd/e.bin': b'', 'd/f': rnd.randbytes(64), 'g': b'hello' * 30}.items()}
                    problems = []
                    try:
                        kb = reference_write(root / 'repo', files, encrypted, rnd, old)

                        async def go():
                            r = Repository(Local(root / 'repo'), concurrent=2, quiet=True, cache_directory=None)
                            with lib.quiet() as (o, e):
                                await r.unlock(password=PW, key=kb)
                                await r.restore(path=root / 'out')
                                await r.list_files()
                                listing.append(o.getvalue())
                                await r.list_snapshots()
                            await r.close()
                        listing = []
                        asyncio.run(go())
                        # the file listing shows the recorded modification time (1400000000.25 s = 2014-05-13 16:53:20 UTC), whichever
                        # metadata format the snapshot carries
                        rows = [l for l in (listing[0] if listing else '').splitlines() if any(os.path.basename(k) in l for k in files)]
                        if len(rows) < len(files) or not all('2014-05-13 16:53:20' in l for l in rows):
                            problems.append({'problem': 'list-files does not show the recorded modification time', 'rows': [l[:160] for l in rows[:2]], 'old_format': old})
                        for k, v in files.items():
                            rp = lib.restored_path(root / 'out', k)
                            if not rp.exists() or rp.read_bytes() != v:
                                problems.append({'problem': 'replicat restored a reference-written file wrongly', 'file': os.path.basename(k)})
                            elif os.stat(rp).st_mtime_ns != 1400000000250000000:
                                problems.append({'problem': 'modification time of the (old-format) metadata not applied', 'got': os.stat(rp).st_mtime_ns, 'old_format': old})
                    except Exception as e:
                        problems.append({'problem': 'replicat cannot read a repository written by the reference', 'error': f'{type(e).__name__}: {e}'[:200]})
                    if problems:
                        failures.append({'id': f'write{int(encrypted)}{int(old)}', 'class': None, 'case': {'direction': 'reference writes, replicat restores', 'encrypted': encrypted, 'pre_1_3_metadata': old}, 'detail': problems[:3]})
    lib.emit({'status': 'ok', 'cases': cases, 'distinct': cases, 'failures': failures[:10], 'samples': samples[:3],
              'exhaustive': False, 'reproduced': bool(failures)})


if __name__ == '__main__':
    main()
