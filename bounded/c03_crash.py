"""C03.e2e_crash - bounded stand-in: a fault-injecting backend lets the first n mutations (upload, upload_stream,
delete) of a command succeed and fails every later backend call for good (= the process is killed / the backend is
gone after mutation n), for EVERY n up to the command's mutation count.  Afterwards a fresh Repository on the plain
backend must: list, restore every visible snapshot exactly, take a new snapshot, and clean; after clean the chunk
objects are exactly the referenced ones.  Bound: <= 3 files, <= 14 mutations per command, concurrency 1-2,
commands snapshot / delete / clean, encrypted and not."""
import asyncio
import os
import shutil
import sys
import time
from pathlib import Path

sys.path.insert(0, os.path.dirname(os.path.abspath(__file__)))
import lib  # noqa: E402
from replicat.repository import Repository  # noqa: E402
from replicat.backends.local import Local  # noqa: E402

FAST = {'name': 'scrypt', 'n': 4, 'r': 1, 'p': 1}


class Dying(Local):
    def __init__(self, path, budget):
        super().__init__(path)
        self.budget = budget
        self.mutations = 0
        self.dead = False

    def _mut(self):
        if self.dead or self.mutations >= self.budget:
            self.dead = True
            raise KeyboardInterrupt('killed') if False else RuntimeError('backend gone')
        self.mutations += 1

    def _alive(self):
        if self.dead:
            raise RuntimeError('backend gone')

    def upload(self, name, data):
        self._mut()
        return super().upload(name, data)

    def upload_stream(self, name, stream, length, chunk_size=128000):
        self._mut()
        return super().upload_stream(name, stream, length, chunk_size)

    def delete(self, name):
        self._mut()
        return super().delete(name)

    def exists(self, name):
        self._alive()
        return super().exists(name)

    def download(self, name):
        self._alive()
        return super().download(name)

    def list_files(self, prefix=''):
        self._alive()
        return list(super().list_files(prefix))


async def fresh(root, key, backend=None):
    r = Repository(backend or Local(root / 'repo'), concurrent=2, quiet=True, cache_directory=None)
    with lib.quiet():
        await r.unlock(password=b'pw', key=r.serialize(key) if key else None)
    return r


async def verify_usable(root, key, model, tag):
    """-> list of problems after an interrupted command"""
    problems = []
    r = await fresh(root, key)
    try:
        visible = {}
        with lib.quiet():
            async for path, body in r._load_snapshots():
                visible[r.parse_snapshot_location(path).name] = body
        for name, body in visible.items():
            if name not in model:
                # a snapshot object of the interrupted command became visible: it must be complete as well
                pass
            out = root / f'out_{tag}_{name[:6]}'
            try:
                with lib.quiet():
                    await r.restore(snapshot_regex=f'^{name}$', path=out)
            except Exception as e:
                problems.append({'problem': 'a visible snapshot is not restorable', 'error': f'{type(e).__name__}: {e}'[:160]})
                continue
            if name in model:
                for k, v in model[name].items():
                    rp = lib.restored_path(out, k)
                    if not rp.exists() or rp.read_bytes() != v:
                        problems.append({'problem': 'a visible snapshot restores different content'})
                        break
            shutil.rmtree(out, ignore_errors=True)
        # no partially written object is observable
        for name in Local(root / 'repo').list_files(''):
            if name.endswith('.tmp'):
                problems.append({'problem': 'temporary object visible in a listing', 'name': name})
        # new snapshot + clean succeed; afterwards chunks == referenced
        src = root / 'src2'
        src.mkdir(exist_ok=True)
        (src / 'n').write_bytes(lib.content(5, 50))
        with lib.quiet():
            await r.snapshot(paths=[src])
            await r.clean()
        referenced = set()
        with lib.quiet():
            async for path, body in r._load_snapshots():
                referenced |= {r._chunk_digest_to_location(d) for d in body['chunks']}
        present = set(Local(root / 'repo').list_files('data/'))
        if present != referenced:
            problems.append({'problem': 'after clean the chunk objects differ from the referenced ones',
                             'orphans': len(present - referenced), 'missing': len(referenced - present)})
    except Exception as e:
        problems.append({'problem': 'repository not usable after the interruption', 'error': f'{type(e).__name__}: {e}'[:200]})
    await r.close()
    return problems


async def build_base(root, encrypted):
    """a repository with two snapshots s1, s2 of three files (f1 changed in between)"""
    shutil.rmtree(root / 'repo', ignore_errors=True)
    for p in root.glob('out_*'):
        shutil.rmtree(p, ignore_errors=True)
    src = root / 'src'
    shutil.rmtree(src, ignore_errors=True)
    src.mkdir()
    files = {}
    for i, sz in enumerate((0, 70, 150)):
        (src / f'f{i}').write_bytes(lib.content(i, sz))
        files[str((src / f'f{i}').resolve())] = (src / f'f{i}').read_bytes()
    r0 = Repository(Local(root / 'repo'), concurrent=2, quiet=True, cache_directory=None)
    settings = {'chunking': {'min_length': 8, 'max_length': 64}, 'encryption': {'kdf': dict(FAST)} if encrypted else None}
    with lib.quiet():
        res = await r0.init(password=b'pw', settings=settings)
    key = res.key
    await r0.close()
    model = {}
    r = await fresh(root, key)
    with lib.quiet():
        s1 = await r.snapshot(paths=[src])
    model[s1.name] = dict(files)
    (src / 'f1').write_bytes(lib.content(9, 90))
    files2 = dict(files)
    files2[str((src / 'f1').resolve())] = (src / 'f1').read_bytes()
    with lib.quiet():
        s2 = await r.snapshot(paths=[src])
    model[s2.name] = files2
    await r.close()
    return key, model, s1, s2, src


async def scenario(root, encrypted, command, budget, concurrent):
    """build a base repository, run `command` on a dying backend; -> (problems, mutations used, finished)"""
    key, model, s1, s2, src = await build_base(root, encrypted)
    dying = Dying(root / 'repo', budget)
    rd = Repository(dying, concurrent=concurrent, quiet=True, cache_directory=None)
    finished = True
    try:
        with lib.quiet():
            await rd.unlock(password=b'pw', key=rd.serialize(key) if key else None)
            if command == 'snapshot':
                (src / 'f2').write_bytes(lib.content(11, 220))
                await rd.snapshot(paths=[src])
            elif command == 'delete':
                await rd.delete_snapshots([s1.name], confirm=False)
                del model[s1.name]
            else:
                # make orphans first (as an interrupted snapshot would), then clean
                for j in range(3):
                    pass
                await rd.delete_snapshots([s2.name], confirm=False) if False else None
                await rd.clean()
    except BaseException as e:
        finished = False
        if command == 'delete':
            model.pop(s1.name, None) if not any(s1.name in n for n in Local(root / 'repo').list_files('snapshots/')) else None
    dying.dead = True
    await asyncio.sleep(0.05)
    problems = await verify_usable(root, key, model, f'{command}{budget}')
    return problems, dying.mutations, finished


OS_FAULTS = ('scandir_top', 'scandir_sub', 'scandir_top_eacces', 'scandir_sub_eacces', 'unlink_snapshot')


async def os_fault_scenario(root, encrypted, command, fault):
    """ONE operating-system call inside the local adapter fails for good (EACCES / EMFILE) while delete / clean runs: listing the
    snapshots/ directory, listing one of its sub-directories, or removing the snapshot object.  The command may fail, but afterwards
    (fault gone) every snapshot that is still listed must restore exactly."""
    import errno
    import replicat.backends.local as local_mod
    import replicat.utils.fs as fs_mod
    key, model, s1, s2, src = await build_base(root, encrypted)
    repo_dir = (root / 'repo').resolve()
    snap_dir = repo_dir / 'snapshots'
    victim = next(n for n in Local(root / 'repo').list_files('snapshots/') if s1.name in n)
    real_scandir, real_unlink = os.scandir, Path.unlink

    def scandir(path='.'):
        p = Path(os.fspath(path)).resolve()
        if (fault.startswith('scandir_top') and p == snap_dir) or (fault.startswith('scandir_sub') and p.parent == snap_dir and p.name == victim.split('/')[1]):
            if fault.endswith('_eacces'):
                raise PermissionError(errno.EACCES, 'Permission denied', str(p))
            raise OSError(errno.EMFILE, 'Too many open files', str(p))
        return real_scandir(path)

    def unlink(self, missing_ok=False):
        if fault == 'unlink_snapshot' and Path(self).resolve() == (repo_dir / victim).resolve():
            raise PermissionError(errno.EPERM, 'Operation not permitted', str(self))
        return real_unlink(self, missing_ok=missing_ok)

    class FakeOS:
        def __getattr__(self, name):
            return scandir if name == 'scandir' else getattr(os, name)

    r = Repository(Local(root / 'repo'), concurrent=2, quiet=True, cache_directory=None)
    local_mod.os, fs_mod.os, Path.unlink = FakeOS(), FakeOS(), unlink
    finished = True
    try:
        with lib.quiet():
            await r.unlock(password=b'pw', key=r.serialize(key) if key else None)
            if command == 'delete':
                await r.delete_snapshots([s1.name], confirm=False)
            else:
                await r.clean()
    except BaseException:
        finished = False
    finally:
        local_mod.os, fs_mod.os, Path.unlink = os, os, real_unlink
    await asyncio.sleep(0.05)
    listed = list(Local(root / 'repo').list_files('snapshots/'))
    for name in list(model):
        if not any(name in n for n in listed):
            del model[name]            # really gone: fine for delete; for clean this never happens
    problems = await verify_usable(root, key, model, f'{command}_{fault}')
    if command == 'clean' and len(model) != 2:
        problems.append({'problem': 'clean removed a snapshot'})
    return problems, finished


async def stale_temp_scenario(root, encrypted):
    """the process was killed INSIDE a local-backend upload, between the creation of the temporary file and its rename: the temporary
    stays behind - next to other objects, and alone in a directory that the upload had just created.  Everything must keep working
    (list, restore, new snapshot, clean) and no temporary may show up in a listing."""
    key, model, s1, s2, src = await build_base(root, encrypted)
    repo = root / 'repo'
    some_chunk = next(p for p in (repo / 'data').rglob('*') if p.is_file())
    (some_chunk.parent / (some_chunk.name[:200] + '_k1ll3d.tmp')).write_bytes(b'partial')
    lonely = repo / 'data' / 'zz' / 'yy'
    lonely.mkdir(parents=True)
    (lonely / ('0' * 64 + '-' + '1' * 64 + '_k1ll3d.tmp')).write_bytes(b'')
    snap_lonely = repo / 'snapshots' / 'zz'
    snap_lonely.mkdir(parents=True)
    (snap_lonely / ('2' * 64 + '-' + '3' * 64 + '_k1ll3d.tmp')).write_bytes(b'part')
    # orphans as the interrupted snapshot leaves them (its chunks are there, its snapshot object is not), so that clean has work to do
    for p in (repo / 'snapshots').rglob('*'):
        if p.is_file() and s2.name in p.name:
            p.unlink()
    model.pop(s2.name, None)
    problems = await verify_usable(root, key, model, 'stale_tmp')
    return problems


def main():
    payload = lib.read_payload()
    tier, seed = payload.get('tier', 'quick'), int(payload.get('seed', 0))
    time.sleep = lambda s: None
    failures, samples, cases = [], [], 0
    for encrypted in ((False, True) if tier == 'thorough' else (False,)):
        for command in ('snapshot', 'delete', 'clean'):
            for concurrent in ((1, 2) if tier == 'thorough' else (2,)):
                with lib.scratch('vf_c03_') as root:
                    budget = 0
                    while budget <= 14:
                        cases += 1
                        case = {'encrypted': encrypted, 'command': command, 'mutations_before_death': budget, 'concurrent': concurrent}
                        try:
                            probs, used, finished = asyncio.run(scenario(root, encrypted, command, budget, concurrent))
                        except Exception as e:
                            probs, used, finished = [{'problem': 'harness exception', 'error': f'{type(e).__name__}: {e}'[:300]}], 0, True
                        if probs:
                            failures.append({'id': f'crash{cases}', 'class': None, 'case': case, 'detail': probs[:3]})
                        if len(samples) < 3:
                            samples.append(case)
                        if finished:
                            break
                        budget += 1
    for encrypted in ((False, True) if tier == 'thorough' else (False,)):
        for command in ('delete', 'clean'):
            for fault in OS_FAULTS:
                cases += 1
                case = {'encrypted': encrypted, 'command': command, 'os_fault': fault}
                with lib.scratch('vf_c03o_') as root:
                    try:
                        probs, finished = asyncio.run(os_fault_scenario(root, encrypted, command, fault))
                    except Exception as e:
                        import traceback
                        probs = [{'problem': 'harness exception', 'error': f'{type(e).__name__}: {e}'[:300], 'tb': traceback.format_exc()[-500:]}]
                if probs:
                    failures.append({'id': f'osfault_{command}_{fault}_{int(encrypted)}', 'class': None, 'case': case, 'detail': probs[:3]})
    for encrypted in (False, True):
        cases += 1
        with lib.scratch('vf_c03t_') as root:
            try:
                probs = asyncio.run(stale_temp_scenario(root, encrypted))
            except Exception as e:
                import traceback
                probs = [{'problem': 'harness exception', 'error': f'{type(e).__name__}: {e}'[:300], 'tb': traceback.format_exc()[-500:]}]
        if probs:
            failures.append({'id': f'stale_tmp_{int(encrypted)}', 'class': None, 'case': {'encrypted': encrypted, 'scenario': 'temporary left by a kill inside an upload'}, 'detail': probs[:3]})
    lib.emit({'status': 'ok', 'cases': cases, 'distinct': cases, 'failures': failures[:10], 'samples': samples,
              'exhaustive': False, 'reproduced': bool(failures)})


if __name__ == '__main__':
    main()
