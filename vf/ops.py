"""Operations on symbolic / concrete-shaped values (Python semantics tables)."""
from __future__ import annotations

import ast

import z3

from . import sym
from .sym import SV, INT, BOOL, REAL, STR, BYTES, Opt, Tup, Ref, Unsupported, lift
from .interp import (Raised, Exc, Obj, PyRef, NTup, Closure, Model, Bound, ExcClass, Unknown,
                     IterSpec, ConcreteIter, StarArg, make_ntup)

INPLACE_DONE = object()


def is_num(v):
    return (isinstance(v, (int, float)) and not isinstance(v, bool)) or (
        isinstance(v, SV) and v.ty in (INT, REAL))


def is_strlike(v):
    return isinstance(v, (str, bytes)) or (isinstance(v, SV) and v.ty in (STR, BYTES))


def kind_of(v):
    if isinstance(v, str):
        return STR
    if isinstance(v, (bytes, bytearray)):
        return BYTES
    return v.ty


def unwrap_opt(interp, st, v, what='value'):
    """Opt values used where the inner value is needed: requires not-None
    (AttributeError/TypeError are excluded by typing preconditions only when the
    path condition implies it -> obligation)."""
    if isinstance(v, SV) and isinstance(v.ty, Opt):
        interp.oblige(st, f'typing.{what}_not_none', z3.Not(v.ty.is_none(v.z)), tag='helper')
        return SV(v.ty.inner, v.ty.val(v.z))
    return v


# ------------------------------------------------------------------ arithmetic
def binop(interp, st, op, a, b):
    for x in (a, b):
        if isinstance(x, Unknown):
            x.note(interp, st)
            yield st, Unknown(x.name + ' op', x.owner)
            return
    for x in (a, b):
        if isinstance(x, SV) and hasattr(x.ty, 'binop'):
            yield from x.ty.binop(interp, st, op, a, b)
            return
    a, b = unwrap_opt(interp, st, a, 'operand'), unwrap_opt(interp, st, b, 'operand')
    concrete = not isinstance(a, SV) and not isinstance(b, SV) and not isinstance(a, PyRef) and not isinstance(b, PyRef)
    if concrete and isinstance(a, (int, float, str, bytes, tuple)) and isinstance(b, (int, float, str, bytes, tuple)):
        try:
            yield st, _concrete_binop(op, a, b)
            return
        except ZeroDivisionError:
            yield st, Raised(Exc('ZeroDivisionError'))
            return
    if isinstance(op, ast.Add) and isinstance(a, tuple) and isinstance(b, tuple):
        yield st, a + b
        return
    if is_num(a) and is_num(b):
        real = kind_num(a) == REAL or kind_num(b) == REAL or isinstance(op, ast.Div)
        ty = REAL if real else INT
        za, zb = lift(a, ty).z, lift(b, ty).z
        if isinstance(op, ast.Add):
            yield st, SV(ty, za + zb)
        elif isinstance(op, ast.Sub):
            yield st, SV(ty, za - zb)
        elif isinstance(op, ast.Mult):
            yield st, SV(ty, za * zb)
        elif isinstance(op, ast.Div):
            interp.oblige(st, 'arith.div_nonzero', zb != 0, tag='helper')
            yield st, SV(REAL, za / zb)
        elif isinstance(op, (ast.FloorDiv, ast.Mod)):
            if real:
                raise Unsupported('float floordiv/mod')
            # z3 div/mod are Euclidean == Python floor semantics when divisor > 0
            if isinstance(b, int):
                if b <= 0:
                    raise Unsupported('non-positive concrete divisor')
            else:
                interp.oblige(st, 'arith.divisor_positive', zb > 0, tag='helper')
            yield st, SV(INT, (za / zb) if isinstance(op, ast.FloorDiv) else (za % zb))
        elif isinstance(op, ast.BitAnd) and isinstance(b, int) and b < 0 and (-b) & (-b - 1) == 0 and not real:
            # x & -(2**k) on a non-negative integer: clear the low k bits
            interp.oblige(st, 'arith.bitand_operand_nonneg', za >= 0, tag='helper')
            yield st, SV(INT, za - za % (-b))
        elif isinstance(op, ast.Pow):
            if isinstance(b, int) and b >= 0 and b <= 4:
                r = z3.IntVal(1) if ty == INT else z3.RealVal(1)
                for _ in range(b):
                    r = r * za
                yield st, SV(ty, r)
            else:
                raise Unsupported('pow')
        else:
            raise Unsupported(f'numeric op {type(op).__name__}')
        return
    if is_strlike(a) and is_strlike(b) and isinstance(op, ast.Add):
        if kind_of(a) != kind_of(b):
            yield st, Raised(Exc('TypeError'))
            return
        k = kind_of(a)
        yield st, SV(k, z3.Concat(lift(a, k).z, lift(b, k).z))
        return
    if is_strlike(a) and is_num(b) and isinstance(op, ast.Mult):
        if isinstance(a, (str, bytes)) and len(a) == 1 and kind_num(b) == INT:
            # c * n : a string of n copies of c  (uninterpreted `repeat` + length/char axioms)
            k = kind_of(a)
            f = interp.uf(f'repeat_{ord(a) if isinstance(a, str) else a[0]}', INT, k)
            zn = lift(b, INT).z
            r = f(zn)
            st.assume(z3.Length(r) == z3.If(zn > 0, zn, 0))
            yield st, SV(k, r)
            return
        raise Unsupported('string repetition')
    if isinstance(op, ast.Mod) and isinstance(a, str):
        # printf-style formatting: opaque deterministic function
        raise Unsupported('%-formatting')
    # set algebra on heap sets: a new set
    if isinstance(op, (ast.Sub, ast.BitOr, ast.BitAnd)) and is_heap(a, 'set') and is_heap(b, 'set') and a.ty.cls.elem == b.ty.cls.elem:
        r = new_heap(st, a.ty.cls)
        ma, mb = st.heap.read(a.ty.cls, 'm', a.z), st.heap.read(b.ty.cls, 'm', b.z)
        x = z3.Const(sym.fresh_name('x'), a.ty.cls.elem.sort())
        if isinstance(op, ast.Sub):
            lam = z3.Lambda([x], z3.And(z3.Select(ma, x), z3.Not(z3.Select(mb, x))))
        elif isinstance(op, ast.BitOr):
            lam = z3.Lambda([x], z3.Or(z3.Select(ma, x), z3.Select(mb, x)))
        else:
            lam = z3.Lambda([x], z3.And(z3.Select(ma, x), z3.Select(mb, x)))
        st.heap.write(a.ty.cls, 'm', r.z, lam)
        yield st, r
        return
    # set algebra on concrete key views / concrete sets (dict.keys() - dict.keys()): a new concrete set
    from .interp import ConcreteIter
    if isinstance(op, (ast.Sub, ast.BitOr, ast.BitAnd, ast.BitXor)):
        def items(v):
            if isinstance(v, ConcreteIter):
                return v.items
            if isinstance(v, PyRef) and isinstance(interp.deref(st, v), (set, list)) and v.kind == 'set':
                return list(interp.deref(st, v))
            return None
        ia, ib = items(a), items(b)
        if ia is not None and ib is not None and all(isinstance(x, (str, bytes, int, bool, tuple, type(None))) for x in ia + ib):
            if isinstance(op, ast.Sub):
                r = [x for x in ia if x not in ib]
            elif isinstance(op, ast.BitOr):
                r = ia + [x for x in ib if x not in ia]
            elif isinstance(op, ast.BitAnd):
                r = [x for x in ia if x in ib]
            else:
                r = [x for x in ia if x not in ib] + [x for x in ib if x not in ia]
            yield st, st.new_py('set', r)
            return
    raise Unsupported(f'binop {type(op).__name__} on {a!r}, {b!r}')


def kind_num(v):
    if isinstance(v, SV):
        return v.ty
    return REAL if isinstance(v, float) else INT


def _concrete_binop(op, a, b):
    import operator as o
    table = {ast.Add: o.add, ast.Sub: o.sub, ast.Mult: o.mul, ast.Div: o.truediv,
             ast.FloorDiv: o.floordiv, ast.Mod: o.mod, ast.Pow: o.pow,
             ast.BitAnd: o.and_, ast.BitOr: o.or_, ast.LShift: o.lshift, ast.RShift: o.rshift}
    return table[type(op)](a, b)


def augop(interp, st, op, cur, rhs):
    # in-place forms that mutate
    if is_heap(cur, 'list') and isinstance(op, ast.Add):
        yield from call_method(interp, st, cur, 'extend', [rhs], {})
        return
    if isinstance(cur, PyRef) and cur.kind == 'list' and isinstance(op, ast.Add):
        items = interp.concrete_items(st, rhs)
        if items is None:
            raise Unsupported('list += symbolic')
        st.mutating(cur)
        st.store[cur.id].extend(items)
        yield st, INPLACE_DONE
        return
    if isinstance(cur, tuple) and isinstance(op, ast.Add) and isinstance(rhs, tuple):
        yield st, cur + rhs
        return
    if is_heap(cur, 'set') and isinstance(op, (ast.BitOr, ast.Sub, ast.BitAnd)):
        # set.__ior__/__isub__/__iand__ mutate the receiver (every alias sees it)
        meth = {ast.BitOr: 'update', ast.Sub: 'difference_update', ast.BitAnd: 'intersection_update'}[type(op)]
        for s, r in call_method(interp, st, cur, meth, [rhs], {}):
            yield s, (r if isinstance(r, Raised) else INPLACE_DONE)
        return
    for s, r in binop(interp, st, op, cur, rhs):
        yield s, r


# ------------------------------------------------------------------ comparison
def z_eq(interp, st, a, b):
    """-> z3 Bool for a == b (python equality), or python bool"""
    if a is None or b is None:
        if a is None and b is None:
            return z3.BoolVal(True)
        o = b if a is None else a
        if isinstance(o, SV) and isinstance(o.ty, Opt):
            return o.ty.is_none(o.z)
        return z3.BoolVal(False)
    if isinstance(a, PyRef) and isinstance(b, PyRef) and a.kind == b.kind == 'dict' and st is not None:
        # two concrete-shaped dicts: equal iff same keys and equal values
        da, db = st.store[a.id], st.store[b.id]
        if set(da) != set(db):
            return z3.BoolVal(False)
        return z3.And(*[z_eq(interp, st, da[k], db[k]) for k in da]) if da else z3.BoolVal(True)
    if isinstance(a, SV) or isinstance(b, SV):
        sa, sb = (a if isinstance(a, SV) else None), (b if isinstance(b, SV) else None)
        if isinstance(a, (tuple, PyRef, Obj)) or isinstance(b, (tuple, PyRef, Obj)):
            # tuple vs symbolic tuple
            if isinstance(a, tuple) and sb is not None and isinstance(sb.ty, Tup):
                return lift(a, sb.ty).z == sb.z
            if isinstance(b, tuple) and sa is not None and isinstance(sa.ty, Tup):
                return lift(b, sa.ty).z == sa.z
            raise Unsupported('eq between container and symbolic value')
        if sa is not None and sb is not None:
            ta, tb = sa.ty, sb.ty
            if ta == tb:
                return sa.z == sb.z
            if isinstance(ta, Opt) and ta.inner == tb:
                return z3.And(z3.Not(ta.is_none(sa.z)), ta.val(sa.z) == sb.z)
            if isinstance(tb, Opt) and tb.inner == ta:
                return z3.And(z3.Not(tb.is_none(sb.z)), tb.val(sb.z) == sa.z)
            if {ta, tb} <= {INT, REAL, BOOL}:
                return lift(sa, REAL).z == lift(sb, REAL).z if REAL in (ta, tb) else lift(sa, INT).z == lift(sb, INT).z
            if {ta, tb} == {STR, BYTES}:
                return z3.BoolVal(False)
            raise Unsupported(f'eq between {ta} and {tb}')
        s, c = (sa, b) if sa is not None else (sb, a)
        t = s.ty
        if isinstance(t, Opt):
            try:
                lc = lift(c, t.inner)
            except Unsupported:
                return z3.BoolVal(False)
            return z3.And(z3.Not(t.is_none(s.z)), t.val(s.z) == lc.z)
        try:
            lc = lift(c)
        except Unsupported:
            return z3.BoolVal(False)
        if lc.ty == t:
            return s.z == lc.z
        if {lc.ty, t} <= {INT, REAL, BOOL}:
            return lift(s, REAL).z == lift(lc, REAL).z if REAL in (lc.ty, t) else lift(s, INT).z == lift(lc, INT).z
        return z3.BoolVal(False)
    if isinstance(a, PyRef) or isinstance(b, PyRef):
        other = b if isinstance(a, PyRef) else a
        if other is None or isinstance(other, (bool, int, float, str, bytes)):
            return z3.BoolVal(False)          # a container is never equal (or identical) to a scalar / None
        if isinstance(a, PyRef) and isinstance(b, PyRef) and a.id == b.id:
            return z3.BoolVal(True)
        raise Unsupported('eq on concrete-shaped containers')
    if isinstance(a, tuple) and isinstance(b, tuple):
        if len(a) != len(b):
            return z3.BoolVal(False)
        return z3.And(*[z_eq(interp, st, x, y) for x, y in zip(a, b)]) if a else z3.BoolVal(True)
    return z3.BoolVal(a == b)


def as_pybool(z):
    z = z3.simplify(z)
    if z3.is_true(z):
        return True
    if z3.is_false(z):
        return False
    return SV(BOOL, z)


def compare(interp, st, op, a, b):
    if isinstance(a, Unknown) or isinstance(b, Unknown):
        (a if isinstance(a, Unknown) else b).note(interp, st)
        yield st, SV(BOOL, z3.Bool(sym.fresh_name('unknown_cmp')))
        return
    if isinstance(op, (ast.Is, ast.IsNot)):
        neg = isinstance(op, ast.IsNot)
        if a is None or b is None:
            r = z_eq(interp, st, a, b)
        elif (isinstance(a, PyRef) and isinstance(b, (bool, int, float, str, bytes))) or (isinstance(b, PyRef) and isinstance(a, (bool, int, float, str, bytes))):
            r = z3.BoolVal(False)
        elif isinstance(a, SV) and isinstance(b, SV) and isinstance(a.ty, Ref) and a.ty == b.ty:
            r = a.z == b.z
        elif isinstance(a, SV) and isinstance(b, SV) and isinstance(a.ty, sym.Opaque) and a.ty == b.ty and getattr(a.ty, 'identity', False):
            r = a.z == b.z          # opaque objects whose identity is their value (enum members, sentinels)
        elif (isinstance(a, SV) and isinstance(b, SV) and (isinstance(a.ty, Opt) or isinstance(b.ty, Opt))
              and getattr((a.ty.inner if isinstance(a.ty, Opt) else a.ty), 'identity', False)
              and (a.ty.inner if isinstance(a.ty, Opt) else a.ty) == (b.ty.inner if isinstance(b.ty, Opt) else b.ty)):
            # Optional[sentinel-like] against the sentinel: identical iff present and equal
            def parts(x):
                return (z3.Not(x.ty.is_none(x.z)), x.ty.val(x.z)) if isinstance(x.ty, Opt) else (z3.BoolVal(True), x.z)
            (pa, va), (pb, vb) = parts(a), parts(b)
            r = z3.Or(z3.And(pa, pb, va == vb), z3.And(z3.Not(pa), z3.Not(pb)))
        elif isinstance(a, (Obj, Model, Closure)) or isinstance(b, (Obj, Model, Closure)):
            r = z3.BoolVal(a is b)
        elif isinstance(a, bool) or isinstance(b, bool):
            r = z_eq(interp, st, a, b)
        else:
            raise Unsupported(f'`is` on {a!r}, {b!r}')
        yield st, as_pybool(z3.Not(r) if neg else r)
        return
    if isinstance(op, (ast.Eq, ast.NotEq)):
        r = z_eq(interp, st, a, b)
        yield st, as_pybool(z3.Not(r) if isinstance(op, ast.NotEq) else r)
        return
    if isinstance(op, (ast.In, ast.NotIn)):
        for s, r in contains(interp, st, b, a):
            if isinstance(r, Raised):
                yield s, r
            else:
                yield s, as_pybool(z3.Not(r) if isinstance(op, ast.NotIn) else r)
        return
    # ordering
    a, b = unwrap_opt(interp, st, a, 'operand'), unwrap_opt(interp, st, b, 'operand')
    if is_num(a) and is_num(b):
        ty = REAL if REAL in (kind_num(a), kind_num(b)) else INT
        za, zb = lift(a, ty).z, lift(b, ty).z
        r = {ast.Lt: za < zb, ast.LtE: za <= zb, ast.Gt: za > zb, ast.GtE: za >= zb}[type(op)]
        yield st, as_pybool(r)
        return
    if is_strlike(a) and is_strlike(b):
        k = kind_of(a)
        za, zb = lift(a, k).z, lift(b, k).z
        lt = lambda x, y: x < y
        le = lambda x, y: x <= y
        r = {ast.Lt: lt(za, zb), ast.LtE: le(za, zb), ast.Gt: lt(zb, za), ast.GtE: le(zb, za)}[type(op)]
        yield st, as_pybool(r)
        return
    raise Unsupported(f'ordering on {a!r}, {b!r}')


def contains(interp, st, container, item):
    """-> yields (st, z3 Bool | Raised)"""
    if isinstance(container, Unknown):
        container.note(interp, st)
        yield st, z3.Bool(sym.fresh_name('unknown_contains'))
        return
    if isinstance(container, PyRef):
        c = interp.deref(st, container)
        if isinstance(c, SV):
            yield from contains(interp, st, c, item)
            return
        keys = list(c.keys()) if container.kind == 'dict' else list(c)
        yield st, z3.Or(*[z_eq(interp, st, k, item) for k in keys]) if keys else z3.BoolVal(False)
        return
    if isinstance(container, (tuple, frozenset, set)):
        xs = list(container)
        yield st, z3.Or(*[z_eq(interp, st, k, item) for k in xs]) if xs else z3.BoolVal(False)
        return
    if is_strlike(container):
        k = kind_of(container)
        yield st, z3.Contains(lift(container, k).z, lift(item, k).z)
        return
    if is_heap(container, 'set'):
        m = st.heap.read(container.ty.cls, 'm', container.z)
        yield st, z3.Select(m, lift(item, container.ty.cls.elem).z)
        return
    if is_heap(container, 'dict'):
        m = st.heap.read(container.ty.cls, 'has', container.z)
        yield st, z3.Select(m, lift(item, container.ty.cls.kt).z)
        return
    if is_heap(container, 'list'):
        cls = container.ty.cls
        arr, n = st.heap.read(cls, 'arr', container.z), st.heap.read(cls, 'len', container.z)
        i = z3.Int(sym.fresh_name('i'))
        yield st, z3.Exists([i], z3.And(0 <= i, i < n, z3.Select(arr, i) == lift(item, cls.elem).z))
        return
    if isinstance(container, SV) and hasattr(container.ty, 'contains'):
        yield st, container.ty.contains(interp, st, container, item)
        return
    raise Unsupported(f'`in` on {container!r}')


# ------------------------------------------------------------------ heap helpers
def is_heap(v, kind=None):
    if not (isinstance(v, SV) and isinstance(v.ty, Ref)):
        return False
    k = getattr(v.ty.cls, 'kind', None)
    return k == kind if kind is not None else True


def new_heap(st, cls):
    r = st.alloc()
    return SV(Ref(cls), r)


def new_list(st, elem_ty, items=()):
    cls = sym.ListC(elem_ty)
    r = new_heap(st, cls)
    arr = z3.K(z3.IntSort(), lift(items[0], elem_ty).z) if items else st.heap.read(cls, 'arr', r.z)
    for i, it in enumerate(items):
        arr = z3.Store(arr, i, lift(it, elem_ty).z)
    st.heap.write(cls, 'arr', r.z, arr)
    st.heap.write(cls, 'len', r.z, z3.IntVal(len(items)))
    return r


def new_set(st, elem_ty, items=()):
    cls = sym.SetC(elem_ty)
    r = new_heap(st, cls)
    m = z3.K(elem_ty.sort(), z3.BoolVal(False))
    for it in items:
        m = z3.Store(m, lift(it, elem_ty).z, z3.BoolVal(True))
    st.heap.write(cls, 'm', r.z, m)
    return r


def new_dict(st, kt, vt):
    cls = sym.DictC(kt, vt)
    r = new_heap(st, cls)
    st.heap.write(cls, 'has', r.z, z3.K(kt.sort(), z3.BoolVal(False)))
    st.heap.write(cls, 'n', r.z, z3.IntVal(0))
    return r


def to_ty(interp, st, v, ty):
    """convert a python-level value to an SV of type ty (interning concrete-shaped
    containers into the heap when ty is a Ref)."""
    if isinstance(v, SV):
        if isinstance(v.ty, Opt) and not isinstance(ty, Opt) and v.ty.inner == ty:
            return unwrap_opt(interp, st, v, 'argument')
        return sym.coerce(v, ty)
    if isinstance(ty, Opt):
        if v is None:
            return SV(ty, ty.none())
        inner = to_ty(interp, st, v, ty.inner)
        return SV(ty, ty.some(inner.z))
    if isinstance(v, PyRef):
        c = st.store[v.id]
        if isinstance(c, SV):       # forwarding pointer
            return sym.coerce(c, ty)
        st.mutating(v)
        if not isinstance(ty, Ref):
            raise Unsupported(f'cannot intern {v.kind} as {ty}')
        cls = ty.cls
        kind = getattr(cls, 'kind', None)
        if kind == 'list' and v.kind == 'list':
            r = new_list(st, cls.elem, [to_ty(interp, st, x, cls.elem) for x in c])
        elif kind == 'set' and v.kind in ('set', 'list'):
            r = new_set(st, cls.elem, [to_ty(interp, st, x, cls.elem) for x in c])
        elif kind is None and cls.keyed and v.kind == 'dict':
            if set(c.keys()) != set(cls.fields):
                raise Unsupported(f'dict display keys {sorted(c)} do not match record {cls.name}')
            r = new_heap(st, cls)
            for k, fv in c.items():
                st.heap.write(cls, k, r.z, to_ty(interp, st, fv, cls.fields[k]).z)
        elif kind == 'dict' and v.kind == 'dict':
            r = new_dict(st, cls.kt, cls.vt)
            for k, fv in c.items():
                zk = to_ty(interp, st, k, cls.kt).z
                st.heap.write(cls, 'has', r.z, z3.Store(st.heap.read(cls, 'has', r.z), zk, z3.BoolVal(True)))
                st.heap.write(cls, 'val', r.z, z3.Store(st.heap.read(cls, 'val', r.z), zk, to_ty(interp, st, fv, cls.vt).z))
                st.heap.write(cls, 'n', r.z, st.heap.read(cls, 'n', r.z) + 1)
        else:
            raise Unsupported(f'cannot intern {v.kind} as {cls.name}')
        st.store[v.id] = r          # forward: later uses of the PyRef see the heap object
        return r
    if isinstance(v, tuple) and isinstance(ty, Tup):
        items = [to_ty(interp, st, x, t) for x, t in zip(v, ty.items)]
        if len(items) != len(ty.items):
            raise Unsupported('tuple arity')
        return SV(ty, ty.mk(*[i.z for i in items]))
    return lift(v, ty)


def resolve(st, v):
    """follow PyRef forwarding"""
    if isinstance(v, PyRef):
        c = st.store[v.id]
        if isinstance(c, SV):
            return c
    return v


# ------------------------------------------------------------------ attribute access
def getattr_(interp, st, v, name):
    v = resolve(st, v)
    if hasattr(v, 'vf_getattr'):
        yield from v.vf_getattr(interp, st, name)
        return
    if isinstance(v, Obj):
        gk = f'attr:{v._name}.{name}'
        if name in getattr(v, '_settable', ()) and gk in st.ghost:
            yield st, st.ghost[gk]           # an attribute this path has set (self.x = ..; later self.x)
            return
        a = v.get(name)
        if isinstance(a, Property):
            yield from a.fn(interp, st, v)
        else:
            yield st, a
        return
    if isinstance(v, NTup):
        if name in v.names:
            yield st, v[v.names.index(name)]
            return
        raise Unsupported(f'namedtuple attr {name}')
    if isinstance(v, Exc):
        if name in v.attrs:
            yield st, v.attrs[name]
            return
        if name == 'args':
            yield st, tuple(v.args)
            return
        raise Unsupported(f'exception attribute {name}')
    if isinstance(v, SV) and isinstance(v.ty, Opt):
        v = unwrap_opt(interp, st, v, f'attr_{name}_receiver')
    if isinstance(v, SV) and isinstance(v.ty, Ref):
        cls = v.ty.cls
        if getattr(cls, 'kind', None) is None:
            if name in cls.fields and not cls.keyed:
                yield st, SV(cls.fields[name], st.heap.read(cls, name, v.z))
                return
            consts = getattr(cls, 'consts', {})
            if name in consts:
                c = consts[name]
                if isinstance(c, Property):
                    yield from c.fn(interp, st, v)
                elif isinstance(c, Closure):
                    yield st, Closure(c.node, c.env, c.name, bound_self=v)
                elif isinstance(c, MethodModel):
                    yield st, Model(c.name, lambda i, s, a, k, c=c, v=v: c.fn(i, s, [v] + list(a), k))
                else:
                    yield st, c
                return
            if cls.keyed and name in ('get',):
                yield st, Bound(v, name)       # dict-like record: methods are bound lazily (models.record_method)
                return
            if getattr(cls, 'lenient', False):
                # an attribute (instance or class level) the sidecar has no model for, e.g. one a change added: arbitrary state
                u = Unknown(f'{cls.name}.{name}')
                u.note(interp, st)
                yield st, u
                return
            raise Unsupported(f'{cls.name} has no modelled attribute {name!r}')
    if isinstance(v, SV) and isinstance(v.ty, sym.Opaque):
        attrs = getattr(v.ty, 'attrs', {})
        if name in attrs:
            a = attrs[name]
            if isinstance(a, Property):
                yield from a.fn(interp, st, v)
            elif isinstance(a, MethodModel):
                yield st, Model(a.name, lambda i, s, ar, k, a=a, v=v: a.fn(i, s, [v] + list(ar), k))
            else:
                yield st, a
            return
        if getattr(v.ty, 'lenient', False):
            # an attribute of an opaque library object the sidecar does not model: anything may come back
            u = Unknown(f'{v.ty.name()}.{name}')
            u.note(interp, st)
            yield st, u
            return
        raise Unsupported(f'opaque {v.ty.name()} has no modelled attribute {name!r}')
    if isinstance(v, ExcClass):
        raise Unsupported(f'attribute {name} of exception class')
    if isinstance(v, (Model, CM)) and name in getattr(v, 'attrs', {}):
        yield st, v.attrs[name]
        return
    if isinstance(v, CM) and v.value is not None and not isinstance(v.value, CM) and name not in ('__enter__', '__exit__'):
        # an object that is its own context manager (a file): outside `with ... as` its methods are those of the managed value
        yield from getattr_(interp, st, v.value, name)
        return
    # methods on builtin-ish values are bound lazily
    yield st, Bound(v, name)


class Property:
    def __init__(self, fn):
        self.fn = fn


class MethodModel:
    def __init__(self, name, fn):
        self.name, self.fn = name, fn


def setattr_(interp, st, o, name, v):
    o = resolve(st, o)
    if isinstance(o, Obj) and getattr(o, '_lenient', False) and name not in o._attrs and name not in getattr(o, '_settable', ()):
        st.emit('unknown_state_set', name=f'{o._name}.{name}')     # a write to state nobody under contract reads
        return
    if isinstance(o, SV) and isinstance(o.ty, Opt):
        o = unwrap_opt(interp, st, o, f'setattr_{name}_receiver')
    if isinstance(o, SV) and isinstance(o.ty, Ref) and name in o.ty.cls.fields and not o.ty.cls.keyed:
        cls = o.ty.cls
        st.heap.write(cls, name, o.z, to_ty(interp, st, v, cls.fields[name]).z)
        return
    if isinstance(o, Obj) and name in getattr(o, '_settable', ()):
        st.ghost[f'attr:{o._name}.{name}'] = v
        st.emit('setattr', obj=o._name, name=name, value=v)
        return
    if isinstance(o, Exc):
        # e.args += (...,) / e.note = ...: decoration of an exception value; its class (what handlers match on) is unchanged
        if name == 'args':
            try:
                o.args = tuple(v) if isinstance(v, (tuple, list)) else o.args
            except Exception:
                pass
        else:
            o.attrs[name] = v
        return
    raise Unsupported(f'attribute store {name} on {o!r}')


# ------------------------------------------------------------------ subscripts
def norm_index(zi, zn):
    return z3.If(zi < 0, zi + zn, zi)


def getitem(interp, st, v, idx):
    v = resolve(st, v)
    if isinstance(v, Unknown):
        v.note(interp, st)
        expected = [n for c in getattr(interp, 'try_catches', []) for n in c if n in ('KeyError', 'IndexError', 'LookupError')]
        if expected:
            # the code expects this lookup to fail sometimes: it may
            miss = st.copy()
            miss.emit('unknown_state_lookup_failed', name=v.name, key=idx)
            yield miss, Raised(Exc('KeyError' if 'IndexError' not in expected else expected[0], (idx,)))
        st.emit('unknown_state_get', name=v.name, key=idx)
        yield st, Unknown(v.name + '[]', v.owner)
        return
    if isinstance(v, SV) and isinstance(v.ty, Opt):
        v = unwrap_opt(interp, st, v, 'subscript_receiver')
    if isinstance(v, tuple):
        if isinstance(idx, int):
            if -len(v) <= idx < len(v):
                yield st, v[idx]
            else:
                yield st, Raised(Exc('IndexError'))
            return
        raise Unsupported('symbolic index into concrete tuple')
    if isinstance(v, PyRef):
        c = interp.deref(st, v)
        if v.kind == 'dict':
            if isinstance(idx, (str, int, bytes)):
                if idx in c:
                    yield st, c[idx]
                else:
                    yield st, Raised(Exc('KeyError', (idx,)))
                return
            # symbolic key against concrete keys
            keys = list(c.keys())
            for k in keys:
                eq = z_eq(interp, st, k, idx)
                a = st.copy()
                a.assume(eq)
                if interp.feasible(a):
                    yield a, interp.deref(a, v)[k]
                st.assume(z3.Not(eq))
            if interp.feasible(st):
                yield st, Raised(Exc('KeyError', (idx,)))
            return
        if v.kind == 'list':
            if isinstance(idx, int):
                if -len(c) <= idx < len(c):
                    yield st, c[idx]
                else:
                    yield st, Raised(Exc('IndexError'))
                return
            raise Unsupported('symbolic index into concrete list')
    if isinstance(v, SV) and isinstance(v.ty, Tup):
        if isinstance(idx, int) and 0 <= idx < len(v.ty.items):
            yield st, SV(v.ty.items[idx], v.ty.proj(v.z, idx))
            return
        raise Unsupported('index into symbolic tuple')
    if is_heap(v, 'list'):
        cls = v.ty.cls
        n = st.heap.read(cls, 'len', v.z)
        zi = lift(idx, INT).z
        ni = norm_index(zi, n)
        for s, ok in interp.branch(st, z3.And(0 <= ni, ni < n)):
            if ok:
                yield s, SV(cls.elem, z3.Select(s.heap.read(cls, 'arr', v.z), ni))
            else:
                yield s, Raised(Exc('IndexError'))
        return
    if is_heap(v, 'dict'):
        cls = v.ty.cls
        zk = to_ty(interp, st, idx, cls.kt).z
        has = z3.Select(st.heap.read(cls, 'has', v.z), zk)
        for s, ok in interp.branch(st, has):
            if ok:
                yield s, SV(cls.vt, z3.Select(s.heap.read(cls, 'val', v.z), zk))
            elif getattr(cls, 'default', None) is not None:
                # collections.defaultdict: a missing key is created from the factory
                nv = cls.default(interp, s)
                yield from ((s2, nv) for s2, _ in setitem(interp, s, v, idx, nv))
            else:
                yield s, Raised(Exc('KeyError', (idx,)))
        return
    if is_heap(v) and v.ty.cls.keyed:
        cls = v.ty.cls
        if isinstance(idx, str):
            if idx in cls.fields:
                yield st, SV(cls.fields[idx], st.heap.read(cls, idx, v.z))
            else:
                optional = getattr(cls, 'optional', {})
                if idx in optional:
                    yield st, Raised(Exc('KeyError', (idx,)))
                else:
                    raise Unsupported(f'record {cls.name} has no key {idx!r}')
            return
        raise Unsupported('symbolic key into record')
    if is_strlike(v):
        k = kind_of(v)
        z = lift(v, k).z
        n = z3.Length(z)
        zi = lift(idx, INT).z
        ni = norm_index(zi, n)
        for s, ok in interp.branch(st, z3.And(0 <= ni, ni < n)):
            if ok:
                if k == STR:
                    yield s, SV(STR, z3.SubString(z, ni, 1))
                else:
                    yield s, SV(INT, z3.StrToCode(z3.SubString(z, ni, 1)))
            else:
                yield s, Raised(Exc('IndexError'))
        return
    if isinstance(v, SV) and hasattr(v.ty, 'getitem'):
        yield from v.ty.getitem(interp, st, v, idx)
        return
    raise Unsupported(f'subscript on {v!r}')


def clamp_slice(lo, hi, n):
    """python slice index clamping for step 1 -> (start, length) z3 terms"""
    def norm(x, default):
        if x is None:
            return default
        zx = lift(x, INT).z
        zx = z3.If(zx < 0, zx + n, zx)
        return z3.If(zx < 0, 0, z3.If(zx > n, n, zx))
    s = norm(lo, z3.IntVal(0))
    e = norm(hi, n)
    ln = z3.If(e > s, e - s, 0)
    return z3.simplify(s), z3.simplify(ln)


def getslice(interp, st, v, lo, hi, step):
    v = resolve(st, v)
    if isinstance(v, Unknown):
        v.note(interp, st)
        yield st, Unknown(v.name + '[:]', v.owner)
        return
    if step is not None:
        raise Unsupported('slice step')
    lo, hi = unwrap_opt(interp, st, lo, 'slice'), unwrap_opt(interp, st, hi, 'slice')
    if isinstance(v, (tuple, str, bytes)) and all(x is None or isinstance(x, int) for x in (lo, hi)):
        yield st, v[lo:hi]
        return
    if isinstance(v, PyRef) and v.kind == 'list' and all(x is None or isinstance(x, int) for x in (lo, hi)):
        yield st, st.new_py('list', list(interp.deref(st, v))[lo:hi])
        return
    if isinstance(v, SV) and isinstance(v.ty, Opt):
        v = unwrap_opt(interp, st, v, 'slice_receiver')
    if is_strlike(v):
        k = kind_of(v)
        z = lift(v, k).z
        if (lo is None) != (hi is None):
            # prefix / suffix slices: z = pre ++ suf with |pre| = clamp(index); the decomposition is
            # shared between x[:p] and x[p:] of the same value (helps the string solvers a lot)
            idx = hi if lo is None else lo
            zi = lift(idx, INT).z
            n = z3.Length(z)
            cut = z3.If(zi < 0, z3.If(zi + n < 0, 0, zi + n), z3.If(zi > n, n, zi))
            cache = st.ghost.setdefault('$split', {})
            cache = dict(cache)
            key = (z.get_id(), zi.get_id())
            if key not in cache:
                pre = z3.Const(sym.fresh_name('pre'), z3.StringSort())
                suf = z3.Const(sym.fresh_name('suf'), z3.StringSort())
                st.assume(z == z3.Concat(pre, suf))
                st.assume(z3.Length(pre) == cut)
                cache[key] = (pre, suf)
                st.ghost['$split'] = cache
            pre, suf = cache[key]
            yield st, SV(k, pre if lo is None else suf)
            return
        s, ln = clamp_slice(lo, hi, z3.Length(z))
        yield st, SV(k, z3.SubString(z, s, ln))
        return
    if isinstance(v, SV) and hasattr(v.ty, 'getslice'):
        yield from v.ty.getslice(interp, st, v, lo, hi)
        return
    raise Unsupported(f'slice of {v!r}')


def _z_parts(st, x):
    """z3 terms of a key / value (tuples component-wise); None when a part has no term"""
    x = resolve(st, x)
    if isinstance(x, tuple):
        out = []
        for e in x:
            r = _z_parts(st, e)
            if r is None:
                return None
            out += r
        return out
    if isinstance(x, SV):
        return [x.z]
    if isinstance(x, (str, bytes, int, bool)) or x is None:
        return []
    return None


def _kept_entry_obligation(interp, st, o, idx, v):
    """An entry the code keeps in instance state it also reads back by key (a cache): whoever finds it later gets THIS value for every
    input that maps to the same key, so the value has to be determined by the key.  Two-run formulation: for two arbitrary runs
    reaching this store with equal keys the stored values are equal."""
    if not any(e.kind in ('unknown_state_get', 'unknown_state_lookup_failed') and e.data.get('name') == o.name for e in st.events):
        return
    ks, vs = _z_parts(st, idx), _z_parts(st, v)
    if ks is None or not vs:
        return
    pc = [c for c in st.pc]
    consts = {}

    def walk(e, seen):
        if e.get_id() in seen:
            return
        seen.add(e.get_id())
        if z3.is_const(e) and e.decl().kind() == z3.Z3_OP_UNINTERPRETED:
            consts[e.decl().name()] = e
        for c in e.children():
            walk(c, seen)
        if z3.is_quantifier(e):
            walk(e.body(), seen)

    seen = set()
    for e in ks + vs + pc:
        walk(e, seen)
    sub = [(c, z3.Const(n + "'", c.sort())) for n, c in consts.items()]
    prime = lambda e: z3.substitute(e, *sub) if sub else e
    same_key = z3.And(*[k == prime(k) for k in ks]) if ks else z3.BoolVal(True)
    from .interp import Obligation
    interp.obligations.append(Obligation(
        f'{interp.unit_name}.entry_kept_in_instance_state_is_determined_by_its_key[{o.name}]',
        pc + [prime(c) for c in pc] + [same_key], z3.And(*[x == prime(x) for x in vs]), 'top',
        {'state': o.name, 'note': "primed names (x') are the second run"}))


def setitem(interp, st, o, idx, v):
    o = resolve(st, o)
    if isinstance(o, Unknown):
        st.emit('unknown_state_set', name=o.name, key=idx, value=v)       # a write into state nobody under contract reads
        _kept_entry_obligation(interp, st, o, idx, v)
        yield st, None
        return
    if isinstance(o, PyRef) and o.kind == 'dict':
        if not isinstance(idx, (str, int, bytes)):
            raise Unsupported('symbolic key store into concrete dict')
        st.mutating(o)
        st.store[o.id][idx] = v
        yield st, None
        return
    if isinstance(o, PyRef) and o.kind == 'list' and isinstance(idx, int):
        st.mutating(o)
        st.store[o.id][idx] = v
        yield st, None
        return
    if is_heap(o, 'dict'):
        cls = o.ty.cls
        zk = to_ty(interp, st, idx, cls.kt).z
        zv = to_ty(interp, st, v, cls.vt).z
        has = st.heap.read(cls, 'has', o.z)
        n = st.heap.read(cls, 'n', o.z)
        order = st.heap.read(cls, 'order', o.z)
        present = z3.Select(has, zk)
        st.heap.write(cls, 'order', o.z, z3.If(present, order, z3.Store(order, zk, n)))
        st.heap.write(cls, 'n', o.z, z3.If(present, n, n + 1))
        st.heap.write(cls, 'has', o.z, z3.Store(has, zk, z3.BoolVal(True)))
        st.heap.write(cls, 'val', o.z, z3.Store(st.heap.read(cls, 'val', o.z), zk, zv))
        st.emit('dict_store', target=o, key=idx, value=v)
        yield st, None
        return
    if is_heap(o) and o.ty.cls.keyed and isinstance(idx, str):
        cls = o.ty.cls
        if idx not in cls.fields:
            raise Unsupported(f'record {cls.name} has no key {idx!r}')
        st.heap.write(cls, idx, o.z, to_ty(interp, st, v, cls.fields[idx]).z)
        yield st, None
        return
    if is_heap(o, 'list'):
        cls = o.ty.cls
        n = st.heap.read(cls, 'len', o.z)
        ni = norm_index(lift(idx, INT).z, n)
        for s, ok in interp.branch(st, z3.And(0 <= ni, ni < n)):
            if ok:
                s.heap.write(cls, 'arr', o.z, z3.Store(s.heap.read(cls, 'arr', o.z), ni, to_ty(interp, s, v, cls.elem).z))
                yield s, None
            else:
                yield s, Raised(Exc('IndexError'))
        return
    if isinstance(o, SV) and hasattr(o.ty, 'setitem'):
        yield from o.ty.setitem(interp, st, o, idx, v)
        return
    if isinstance(o, SV) and isinstance(o.ty, sym.Opaque):
        # a store into an object the sidecar treats as opaque: recorded (sidecars that promise "passed through untouched"
        # look for it); later reads of the object stay uninterpreted
        st.emit('opaque_item_store', target=o, key=idx, value=v)
        yield st, None
        return
    raise Unsupported(f'item store on {o!r}')


def delete(interp, st, target):
    if isinstance(target, ast.Tuple):
        states = [(st, ('normal',))]
        for t in target.elts:
            nxt = []
            for s, out in states:
                if out[0] != 'normal':
                    nxt.append((s, out))
                else:
                    nxt.extend(delete(interp, s, t))
            states = nxt
        yield from states
        return
    if isinstance(target, ast.Subscript):
        for s, o in interp.ev(target.value, st):
            o = resolve(s, o)
            if isinstance(target.slice, ast.Slice):
                sl = target.slice
                if sl.step is not None:
                    raise Unsupported('del slice step')
                parts = [p for p in (sl.lower, sl.upper) if p is not None]
                for s2, vals in interp.ev_seq(parts, s):
                    it = iter(vals)
                    lo = next(it) if sl.lower is not None else None
                    hi = next(it) if sl.upper is not None else None
                    if isinstance(o, SV) and hasattr(o.ty, 'delslice'):
                        yield from o.ty.delslice(interp, s2, o, lo, hi)
                    elif is_strlike(o) and kind_of(o) == BYTES and isinstance(target.value, ast.Name) and lo is None:
                        # `del buf[:n]` on a bytearray held in a local: buf becomes buf[n:]
                        # (bytearrays are modelled as values; no alias of the buffer exists in the unit)
                        for s3, rest in getslice(interp, s2, o, hi, None, None):
                            s3.assign(target.value.id, rest)
                            yield s3, ('normal',)
                    else:
                        raise Unsupported(f'del slice on {o!r}')
                continue
            for s2, idx in interp.ev(target.slice, s):
                if is_heap(o, 'dict'):
                    cls = o.ty.cls
                    zk = to_ty(interp, s2, idx, cls.kt).z
                    has = s2.heap.read(cls, 'has', o.z)
                    for s3, ok in interp.branch(s2, z3.Select(has, zk)):
                        if ok:
                            s3.heap.write(cls, 'has', o.z, z3.Store(s3.heap.read(cls, 'has', o.z), zk, z3.BoolVal(False)))
                            s3.heap.write(cls, 'n', o.z, s3.heap.read(cls, 'n', o.z) - 1)
                            s3.emit('dict_del', target=o, key=idx)
                            yield s3, ('normal',)
                        else:
                            yield s3, ('raise', Exc('KeyError', (idx,)))
                elif isinstance(o, PyRef) and o.kind == 'dict' and isinstance(idx, (str, int)):
                    if idx in s2.store[o.id]:
                        s2.mutating(o)
                        del s2.store[o.id][idx]
                        yield s2, ('normal',)
                    else:
                        yield s2, ('raise', Exc('KeyError', (idx,)))
                else:
                    raise Unsupported(f'del item on {o!r}')
        return
    if isinstance(target, ast.Attribute):
        for s, o in interp.ev(target.value, st):
            if isinstance(o, Obj) and target.attr in getattr(o, '_deletable', ()):
                s.emit('delattr', obj=o._name, name=target.attr)
                yield s, ('normal',)
            else:
                raise Unsupported(f'del attribute {target.attr}')
        return
    if isinstance(target, ast.Name):
        yield st, ('normal',)
        return
    raise Unsupported('del target')


def unpack(interp, st, v, n):
    v = resolve(st, v)
    if isinstance(v, tuple):
        if len(v) != n:
            raise Unsupported('unpack arity')
        return list(v)
    if isinstance(v, PyRef) and v.kind == 'list':
        c = interp.deref(st, v)
        if len(c) != n:
            raise Unsupported('unpack arity')
        return list(c)
    if isinstance(v, SV) and isinstance(v.ty, Tup):
        if len(v.ty.items) != n:
            raise Unsupported('unpack arity')
        return [SV(t, v.ty.proj(v.z, i)) for i, t in enumerate(v.ty.items)]
    if is_heap(v, 'list'):
        cls = v.ty.cls
        ln = st.heap.read(cls, 'len', v.z)
        interp.oblige(st, 'typing.unpack_len', ln == n, tag='helper')
        arr = st.heap.read(cls, 'arr', v.z)
        return [SV(cls.elem, z3.Select(arr, i)) for i in range(n)]
    if isinstance(v, SV) and hasattr(v.ty, 'unpack'):
        return v.ty.unpack(interp, st, v, n)
    if isinstance(v, Unknown):
        v.note(interp, st)
        return [Unknown(f'{v.name}[{i}]', v.owner) for i in range(n)]
    raise Unsupported(f'unpack of {v!r}')


# ------------------------------------------------------------------ methods on values
def call_method(interp, st, recv, name, args, kwargs):
    from . import models
    recv = resolve(st, recv)
    if isinstance(recv, Unknown):
        recv.note(interp, st)
        yield st, Unknown(f'{recv.name}.{name}()', recv.owner)
        return
    if isinstance(recv, SV) and isinstance(recv.ty, Opt):
        recv = unwrap_opt(interp, st, recv, f'method_{name}_receiver')
    yield from models.method(interp, st, recv, name, args, kwargs)


# ------------------------------------------------------------------ context managers
def cm_enter(interp, st, cm):
    cm = resolve(st, cm)
    if isinstance(cm, CM):
        yield from cm.enter(interp, st)
        return
    if isinstance(cm, SV) and hasattr(cm.ty, 'cm_enter'):
        yield from cm.ty.cm_enter(interp, st, cm)
        return
    raise Unsupported(f'context manager {cm!r}')


def cm_exit(interp, st, cm, out):
    cm = resolve(st, cm)
    if isinstance(cm, CM):
        yield from cm.exit(interp, st, out)
        return
    if isinstance(cm, SV) and hasattr(cm.ty, 'cm_exit'):
        yield from cm.ty.cm_exit(interp, st, cm, out)
        return
    raise Unsupported(f'context manager {cm!r}')


class CM:
    """python-level context manager model"""

    def __init__(self, name, on_enter=None, on_exit=None, value=None, suppress=None):
        self.name, self.on_enter, self.on_exit, self.value, self.suppress = name, on_enter, on_exit, value, suppress

    def enter(self, interp, st):
        if self.on_enter is not None:
            r = self.on_enter(interp, st, self)
            if r is not None:
                yield from r
                return
        yield st, (self.value if self.value is not None else self)

    def exit(self, interp, st, out):
        if self.on_exit is not None:
            r = self.on_exit(interp, st, self, out)
            if r is not None:
                yield from r
                return
        if self.suppress is not None and out[0] == 'raise' and any(
                __import__('vf.interp', fromlist=['x']).exc_isinstance(out[1].cls, n) for n in self.suppress):
            yield st, ('normal',)
            return
        yield st, out


# ------------------------------------------------------------------ iteration domains
def iterspec(interp, st, v):
    v = resolve(st, v)
    if isinstance(v, IterSpec):
        return v
    if isinstance(v, RangeVal):
        a, b, step = v.a, v.b, v.step
        if not isinstance(step, int) or step == 0:
            raise Unsupported('symbolic range step')
        za, zb = lift(a, INT).z, lift(b, INT).z
        if step > 0:
            span = zb - za
            n = z3.If(span > 0, (span + (step - 1)) / step, 0)
        else:
            span = za - zb
            n = z3.If(span > 0, (span + (-step - 1)) / (-step), 0)
        n = z3.simplify(n)
        return IterSpec(n, lambda i: SV(INT, za + i * step))
    if is_heap(v, 'list'):
        cls = v.ty.cls
        n = st.heap.read(cls, 'len', v.z)
        arr = st.heap.read(cls, 'arr', v.z)
        return IterSpec(n, lambda i: SV(cls.elem, z3.Select(arr, i)), [n >= 0])
    if is_heap(v, 'set'):
        cls = v.ty.cls
        m = st.heap.read(cls, 'm', v.z)
        n = z3.Int(sym.fresh_name('card'))
        seq = z3.Const(sym.fresh_name('order'), z3.ArraySort(z3.IntSort(), cls.elem.sort()))
        i, j = z3.Ints(f'{sym.fresh_name("i")} {sym.fresh_name("j")}')
        x = z3.Const(sym.fresh_name('x'), cls.elem.sort())
        idx = z3.Function(sym.fresh_name('idx'), cls.elem.sort(), z3.IntSort())
        assumptions = [
            n >= 0,
            z3.ForAll([i], z3.Implies(z3.And(0 <= i, i < n), z3.And(z3.Select(m, z3.Select(seq, i)), idx(z3.Select(seq, i)) == i))),
            z3.ForAll([x], z3.Implies(z3.Select(m, x), z3.And(0 <= idx(x), idx(x) < n, z3.Select(seq, idx(x)) == x))),
        ]
        it = IterSpec(n, lambda k: SV(cls.elem, z3.Select(seq, k)), assumptions)
        it.seq, it.idx = seq, idx
        return it
    if isinstance(v, SV) and hasattr(v.ty, 'iterspec'):
        return v.ty.iterspec(interp, st, v)
    if isinstance(v, Unknown):
        # iterating over unknown state: an unknown number of unknown items
        v.note(interp, st)
        n = z3.Int(sym.fresh_name('unknown_len'))
        return IterSpec(n, lambda i, v=v: Unknown(f'{v.name}[i]', v.owner), [n >= 0])
    from .models import MapVal
    if isinstance(v, MapVal) and hasattr(v.f, 'pure'):
        src = iterspec(interp, st, v.over)
        return IterSpec(src.n, lambda k: v.f.pure(src.elem(k)), src.assumptions)
    raise Unsupported(f'iteration over {v!r}')


class RangeVal:
    def __init__(self, a, b, step):
        self.a, self.b, self.step = a, b, step
