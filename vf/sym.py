"""Symbolic values, types and the heap.

Types (Ty) map Python values to z3 sorts:
  INT -> Int (mathematical, exact for Python ints)      BOOL -> Bool
  REAL -> Real (floats treated as reals: assumption A-float)
  STR / BYTES -> z3 String (kind kept at the Python level only)
  Opt(t) -> datatype none|some(t)      Tup(t1..tn) -> datatype
  Ref(cls) -> Int (address into per-field heap arrays)
  Opaque(name) -> uninterpreted sort
Mutable containers (list/set/dict) are heap cells: Ref(ListC(t)) etc.
"""
from __future__ import annotations

import itertools
import z3

_counter = itertools.count()


def fresh_name(prefix):
    return f'{prefix}!{next(_counter)}'


# ---------------------------------------------------------------- types
class Ty:
    def sort(self):
        raise NotImplementedError

    def __eq__(self, other):
        return type(self) is type(other) and self.key() == other.key()

    def __hash__(self):
        return hash((type(self).__name__, self.key()))

    def key(self):
        return ()

    def __repr__(self):
        return self.name()

    def name(self):
        return type(self).__name__


class _Int(Ty):
    def sort(self):
        return z3.IntSort()

    def name(self):
        return 'int'


class _Bool(Ty):
    def sort(self):
        return z3.BoolSort()

    def name(self):
        return 'bool'


class _Real(Ty):
    def sort(self):
        return z3.RealSort()

    def name(self):
        return 'real'


class _Str(Ty):
    def sort(self):
        return z3.StringSort()

    def name(self):
        return 'str'


class _Bytes(Ty):
    def sort(self):
        return z3.StringSort()

    def name(self):
        return 'bytes'


INT, BOOL, REAL, STR, BYTES = _Int(), _Bool(), _Real(), _Str(), _Bytes()

_sort_cache = {}


class Opaque(Ty):
    def __init__(self, nm):
        self.nm = nm

    def key(self):
        return (self.nm,)

    def name(self):
        return self.nm

    def sort(self):
        k = ('opaque', self.nm)
        if k not in _sort_cache:
            _sort_cache[k] = z3.DeclareSort(self.nm)
        return _sort_cache[k]


class Opt(Ty):
    def __init__(self, inner):
        assert not isinstance(inner, Opt)
        self.inner = inner

    def key(self):
        return (self.inner,)

    def name(self):
        return f'opt_{self.inner.name()}'

    def sort(self):
        k = ('opt', self.inner)
        if k not in _sort_cache:
            nm = self.inner.name()
            d = z3.Datatype(f'Opt_{nm}')
            d.declare(f'none_{nm}')
            d.declare(f'some_{nm}', (f'val_{nm}', self.inner.sort()))
            _sort_cache[k] = d.create()
        return _sort_cache[k]

    def none(self):
        return getattr(self.sort(), f'none_{self.inner.name()}')

    def some(self, z):
        return getattr(self.sort(), f'some_{self.inner.name()}')(z)

    def is_none(self, z):
        return getattr(self.sort(), f'is_none_{self.inner.name()}')(z)

    def val(self, z):
        return getattr(self.sort(), f'val_{self.inner.name()}')(z)


class Tup(Ty):
    def __init__(self, *items):
        self.items = tuple(items)

    def key(self):
        return self.items

    def name(self):
        return 'tup_' + '_'.join(t.name() for t in self.items)

    def sort(self):
        k = ('tup', self.items)
        if k not in _sort_cache:
            d = z3.Datatype(self.name())
            d.declare(f'mk_{self.name()}', *[(f'{self.name()}_f{i}', t.sort()) for i, t in enumerate(self.items)])
            _sort_cache[k] = d.create()
        return _sort_cache[k]

    def mk(self, *zs):
        return getattr(self.sort(), f'mk_{self.name()}')(*zs)

    def proj(self, z, i):
        return getattr(self.sort(), f'{self.name()}_f{i}')(z)


class Cls:
    """A heap class: named fields with types."""

    def __init__(self, name, fields=None, keyed=False):
        self.name = name
        self.fields = dict(fields or {})
        # keyed=True: instances are addressed like dict literals (obj['k'])
        self.keyed = keyed

    def __repr__(self):
        return f'Cls({self.name})'


class Ref(Ty):
    def __init__(self, cls):
        self.cls = cls

    def key(self):
        return (self.cls.name,)

    def name(self):
        return f'ref_{self.cls.name}'

    def sort(self):
        return z3.IntSort()


_container_cache = {}


def ListC(elem):
    k = ('list', elem)
    if k not in _container_cache:
        c = Cls(f'list_{elem.name()}', {'len': INT})
        c.kind, c.elem = 'list', elem
        _container_cache[k] = c
    return _container_cache[k]


def SetC(elem):
    k = ('set', elem)
    if k not in _container_cache:
        c = Cls(f'set_{elem.name()}')
        c.kind, c.elem = 'set', elem
        _container_cache[k] = c
    return _container_cache[k]


def DictC(kt, vt):
    k = ('dict', kt, vt)
    if k not in _container_cache:
        c = Cls(f'dict_{kt.name()}_{vt.name()}')
        c.kind, c.kt, c.vt = 'dict', kt, vt
        _container_cache[k] = c
    return _container_cache[k]


def List(elem):
    return Ref(ListC(elem))


def Set(elem):
    return Ref(SetC(elem))


def Dict(kt, vt):
    return Ref(DictC(kt, vt))


# ---------------------------------------------------------------- values
class SV:
    """A symbolic value: a z3 term with a Ty."""

    __slots__ = ('ty', 'z')

    def __init__(self, ty, z):
        self.ty, self.z = ty, z

    def __repr__(self):
        return f'SV<{self.ty.name()}:{self.z}>'


class BytesLit:
    """marker for concrete bytes values (kept as python bytes)"""


def is_sym(v):
    return isinstance(v, SV)


def bytes_to_zstr(b):
    # one z3 char per byte (code points 0..255)
    return z3.StringVal(''.join(chr(c) for c in b))


def lift(v, ty=None):
    """concrete python value (or SV) -> SV"""
    if isinstance(v, SV):
        if ty is not None and v.ty != ty:
            return coerce(v, ty)
        return v
    if isinstance(v, bool):
        sv = SV(BOOL, z3.BoolVal(v))
    elif isinstance(v, int):
        sv = SV(INT, z3.IntVal(v))
    elif isinstance(v, float):
        sv = SV(REAL, z3.RealVal(repr(v)))
    elif isinstance(v, str):
        sv = SV(STR, z3.StringVal(v))
    elif isinstance(v, (bytes, bytearray)):
        sv = SV(BYTES, bytes_to_zstr(bytes(v)))
    elif v is None:
        if isinstance(ty, Opt):
            return SV(ty, ty.none())
        raise Unsupported(f'cannot lift None to {ty}')
    elif isinstance(v, tuple):
        if isinstance(ty, Tup):
            items = [lift(x, t) for x, t in zip(v, ty.items)]
            if len(items) != len(ty.items):
                raise Unsupported('tuple arity mismatch')
            return SV(ty, ty.mk(*[i.z for i in items]))
        items = [lift(x) for x in v]
        t = Tup(*[i.ty for i in items])
        return SV(t, t.mk(*[i.z for i in items]))
    elif type(v).__name__ == 'Unknown' and ty is not None:
        return fresh(ty, 'unknown')        # unknown state read at a typed position: an arbitrary value of that type
    else:
        raise Unsupported(f'cannot lift {type(v).__name__}')
    if ty is not None and sv.ty != ty:
        return coerce(sv, ty)
    return sv


def coerce(sv, ty):
    if sv.ty == ty:
        return sv
    if hasattr(sv.ty, 'coerce_to'):
        r = sv.ty.coerce_to(sv, ty)
        if r is not None:
            return r
    if isinstance(ty, Opt) and sv.ty == ty.inner:
        return SV(ty, ty.some(sv.z))
    if isinstance(ty, Opt) and isinstance(sv.ty, Opt):
        raise Unsupported(f'cannot coerce {sv.ty} to {ty}')
    if ty == REAL and sv.ty == INT:
        return SV(REAL, z3.ToReal(sv.z))
    if ty == INT and sv.ty == BOOL:
        return SV(INT, z3.If(sv.z, 1, 0))
    if {ty, sv.ty} == {STR, BYTES}:
        raise Unsupported(f'str/bytes confusion: {sv.ty} -> {ty}')
    raise Unsupported(f'cannot coerce {sv.ty} to {ty}')


def fresh(ty, prefix='v'):
    return SV(ty, z3.Const(fresh_name(prefix), ty.sort()))


def const(ty, name):
    return SV(ty, z3.Const(name, ty.sort()))


class Unsupported(Exception):
    """The engine cannot interpret this construct: the unit is UNDECIDED."""


# ---------------------------------------------------------------- heap
class Heap:
    """Per-(class, field) z3 arrays.  Functional: copy() is cheap."""

    def __init__(self):
        self.arrays = {}
        self.written = set()
        self.owner = None          # the State (for guarded_by bookkeeping)

    def copy(self):
        h = Heap()
        h.arrays = dict(self.arrays)
        h.written = set(self.written)
        return h

    def _guard(self, cls, field, mode):
        lock = getattr(cls, 'guarded_by', None)
        if lock is not None and self.owner is not None and lock not in self.owner.locks_held:
            self.owner.notes.append(('unguarded', cls.name, field, mode))

    @staticmethod
    def field_sort(cls, field):
        kind = getattr(cls, 'kind', None)
        if kind == 'list' and field == 'arr':
            return z3.ArraySort(z3.IntSort(), cls.elem.sort())
        if kind == 'set' and field == 'm':
            return z3.ArraySort(cls.elem.sort(), z3.BoolSort())
        if kind == 'dict' and field == 'has':
            return z3.ArraySort(cls.kt.sort(), z3.BoolSort())
        if kind == 'dict' and field == 'val':
            return z3.ArraySort(cls.kt.sort(), cls.vt.sort())
        if kind == 'dict' and field == 'order':
            # ghost: insertion rank of a key (only meaningful for present keys)
            return z3.ArraySort(cls.kt.sort(), z3.IntSort())
        if kind == 'dict' and field == 'n':
            return z3.IntSort()
        return cls.fields[field].sort()

    def arr(self, cls, field):
        k = (cls.name, field)
        if k not in self.arrays:
            self.arrays[k] = z3.Const(
                f'heap0_{cls.name}_{field}',
                z3.ArraySort(z3.IntSort(), self.field_sort(cls, field)),
            )
        return self.arrays[k]

    def read(self, cls, field, ref_z):
        self._guard(cls, field, 'read')
        return z3.Select(self.arr(cls, field), ref_z)

    def write(self, cls, field, ref_z, val_z):
        self._guard(cls, field, 'write')
        k = (cls.name, field)
        self.arrays[k] = z3.Store(self.arr(cls, field), ref_z, val_z)
        self.written.add(k)

    def havoc(self, cls, field):
        k = (cls.name, field)
        self.arrays[k] = z3.Const(
            fresh_name(f'heap_{cls.name}_{field}'),
            z3.ArraySort(z3.IntSort(), self.field_sort(cls, field)),
        )
