"""Library models (DESIGN Appendix B).  Everything not listed here or in a
sidecar makes the unit UNDECIDED."""
from __future__ import annotations

import z3

from . import sym, ops
from .sym import SV, INT, BOOL, REAL, STR, BYTES, Opt, Tup, Ref, Unsupported, lift
from .interp import (Raised, Exc, Obj, PyRef, NTup, Closure, Model, Bound, ExcClass,
                     IterSpec, ConcreteIter, StarArg, make_ntup, EXC_PARENTS)
from .ops import is_heap, is_strlike, kind_of, to_ty, resolve, RangeVal, CM, Property, MethodModel


def model(name):
    def deco(fn):
        return Model(name, fn)
    return deco


def simple(name, f):
    """model from a function (interp, st, *args, **kw) -> value (no forking)"""
    def fn(interp, st, args, kwargs):
        yield st, f(interp, st, *args, **kwargs)
    return Model(name, fn)


def uf_model(name, arg_tys, res_ty, axioms=None, may_raise=None):
    """an uninterpreted, deterministic, total function"""
    def fn(interp, st, args, kwargs):
        if kwargs:
            raise Unsupported(f'{name}: kwargs')
        if len(args) != len(arg_tys):
            raise Unsupported(f'{name}: arity {len(args)}')
        f = interp.uf(name, *arg_tys, res_ty)
        zs = [to_ty(interp, st, a, t).z for a, t in zip(args, arg_tys)]
        r = SV(res_ty, f(*zs))
        if axioms:
            for ax in axioms(zs, r.z):
                st.assume(ax)
        if may_raise:
            t = st.copy()
            yield t, Raised(Exc(may_raise))
        yield st, r
    return Model(name, fn)


# ------------------------------------------------------------------ builtins
def _len(interp, st, args, kwargs):
    (v,) = args
    v = resolve(st, v)
    if isinstance(v, (tuple, str, bytes)):
        yield st, len(v)
    elif isinstance(v, PyRef):
        yield st, len(interp.deref(st, v))
    elif isinstance(v, SV) and isinstance(v.ty, Opt):
        yield from _len(interp, st, [ops.unwrap_opt(interp, st, v, 'len_arg')], {})
    elif is_strlike(v):
        yield st, SV(INT, z3.Length(v.z))
    elif is_heap(v, 'list'):
        yield st, SV(INT, st.heap.read(v.ty.cls, 'len', v.z))
    elif is_heap(v, 'dict'):
        yield st, SV(INT, st.heap.read(v.ty.cls, 'n', v.z))
    elif is_heap(v, 'set'):
        card = interp.uf(f'card_{v.ty.cls.elem.name()}', sym.Opaque.__new__(sym.Opaque) if False else _ArrTy(v.ty.cls.elem), INT)
        m = st.heap.read(v.ty.cls, 'm', v.z)
        r = card(m)
        st.assume(r >= 0)
        yield st, SV(INT, r)
    elif isinstance(v, SV) and hasattr(v.ty, 'len'):
        yield st, v.ty.len(interp, st, v)
    else:
        raise Unsupported(f'len of {v!r}')


class _ArrTy(sym.Ty):
    def __init__(self, elem):
        self.elem = elem

    def key(self):
        return (self.elem,)

    def name(self):
        return f'setarr_{self.elem.name()}'

    def sort(self):
        return z3.ArraySort(self.elem.sort(), z3.BoolSort())


def _minmax(is_max):
    def fn(interp, st, args, kwargs):
        if kwargs:
            raise Unsupported('min/max kwargs')
        if len(args) == 1:
            items = interp.concrete_items(st, args[0])
            if items is None:
                raise Unsupported('min/max over symbolic iterable')
            args = items
        if all(isinstance(a, (int, float)) for a in args):
            yield st, (max if is_max else min)(args)
            return
        ty = REAL if any(ops.kind_num(a) == REAL for a in args) else INT
        zs = [lift(a, ty).z for a in args]
        r = zs[0]
        for z in zs[1:]:
            r = z3.If((z > r) if is_max else (z < r), z, r)
        yield st, SV(ty, r)
    return fn


def _range(interp, st, args, kwargs):
    if len(args) == 1:
        a, b, step = 0, args[0], 1
    elif len(args) == 2:
        a, b, step = args[0], args[1], 1
    else:
        a, b, step = args
    if all(isinstance(x, int) for x in (a, b, step)):
        yield st, ConcreteIter(range(a, b, step))
    else:
        yield st, RangeVal(a, b, step)


def _bool(interp, st, args, kwargs):
    (v,) = args
    yield st, ops.as_pybool(interp.truth(st, v))


def _isinstance(interp, st, args, kwargs):
    v, t = args
    v = resolve(st, v)
    ts = t if isinstance(t, tuple) else (t,)
    names = set()
    for x in ts:
        if isinstance(x, TypeObj):
            names |= set(x.names)
        elif isinstance(x, ExcClass):
            names.add(x.name)
        elif isinstance(x, Model) and x.name in ('bytes', 'str', 'int', 'dict', 'list', 'set', 'bool', 'tuple'):
            names.add(x.name)
        else:
            raise Unsupported(f'isinstance against {x!r}')
    if isinstance(v, Exc):
        from .interp import exc_isinstance
        if v.cls == 'AnyError':
            for s, b in [(st.copy(), True), (st, False)]:
                yield s, b
            return
        yield st, any(exc_isinstance(v.cls, n) for n in names)
        return
    pyname = py_type_name(st, v)
    if pyname is None:
        raise Unsupported(f'isinstance of {v!r}')
    if isinstance(pyname, tuple):     # Opt: fork
        ty = v.ty
        for s, none in interp.branch(st, ty.is_none(v.z)):
            if none:
                yield s, 'NoneType' in names
            else:
                yield s, bool(TYPE_ANCESTORS.get(ty.inner.name(), {ty.inner.name()}) & names)
        return
    yield st, bool(TYPE_ANCESTORS.get(pyname, {pyname}) & names)


TYPE_ANCESTORS = {
    'bool': {'bool', 'int'}, 'int': {'int'}, 'str': {'str'}, 'bytes': {'bytes', 'ByteString'},
    'real': {'float'}, 'NoneType': {'NoneType'}, 'dict': {'dict', 'Mapping'}, 'list': {'list'},
    'tuple': {'tuple'}, 'set': {'set'},
}


def py_type_name(st, v):
    if v is None:
        return 'NoneType'
    if isinstance(v, bool):
        return 'bool'
    if isinstance(v, int):
        return 'int'
    if isinstance(v, float):
        return 'real'
    if isinstance(v, str):
        return 'str'
    if isinstance(v, bytes):
        return 'bytes'
    if isinstance(v, tuple):
        return 'tuple'
    if isinstance(v, PyRef):
        return v.kind
    if isinstance(v, TypeObj):
        return 'type'
    if isinstance(v, SV):
        if isinstance(v.ty, Opt):
            return ('opt',)
        if isinstance(v.ty, Ref):
            k = getattr(v.ty.cls, 'kind', None)
            if k:
                return k
            return 'dict' if v.ty.cls.keyed else v.ty.cls.name
        if isinstance(v.ty, sym.Opaque):
            return getattr(v.ty, 'pytype', None)
        return v.ty.name()
    return None


class TypeObj:
    """a python type used in isinstance / as a converter"""

    def __init__(self, *names, call=None):
        self.names, self.call = names, call

    def vf_getattr(self, interp, st, name):
        if name in ('__name__', '__qualname__'):
            yield st, self.names[0] if self.names else sym.fresh(STR, 'type_name')
            return
        raise Unsupported(f'attribute {name} of a type object')


def _type_call(name):
    def fn(interp, st, args, kwargs):
        raise Unsupported(f'{name}() conversion')
    return fn


def _bytes_ctor(interp, st, args, kwargs):
    if len(args) == 1:
        v = resolve(st, args[0])
        if isinstance(v, bytes):
            yield st, v
            return
        if isinstance(v, SV) and v.ty == BYTES:
            yield st, v
            return
        if isinstance(v, SV) and hasattr(v.ty, 'to_bytes'):
            yield st, v.ty.to_bytes(interp, st, v)
            return
        if isinstance(v, int) or (isinstance(v, SV) and v.ty == INT):
            # bytes(n): n zero bytes
            f = interp.uf('zeros', INT, BYTES)
            zn = lift(v, INT).z
            r = f(zn)
            st.assume(z3.Length(r) == zn)
            interp.oblige(st, 'typing.bytes_n_nonneg', zn >= 0, tag='helper')
            yield st, SV(BYTES, r)
            return
    if len(args) == 2 and is_strlike(args[0]) and args[1] == 'ascii':
        # bytes(string, 'ascii'): same code points (ascii-only strings: json.dumps output)
        yield st, SV(BYTES, lift(args[0], STR).z)
        return
    raise Unsupported('bytes(...) form')


def _str_ctor(interp, st, args, kwargs):
    if len(args) == 2 and args[1] == 'ascii' and is_strlike(args[0]):
        yield st, SV(STR, lift(args[0], BYTES).z)
        return
    (v,) = args
    yield st, interp.format_value(st, v, -1, None)


def _set_ctor(interp, st, args, kwargs):
    if not args:
        yield st, st.new_py('set', [])
        return
    (v,) = args
    v = resolve(st, v)
    if is_heap(v, 'set'):
        r = ops.new_heap(st, v.ty.cls)
        st.heap.write(v.ty.cls, 'm', r.z, st.heap.read(v.ty.cls, 'm', v.z))
        yield st, r
        return
    if is_heap(v, 'list'):
        cls = v.ty.cls
        r = ops.new_heap(st, sym.SetC(cls.elem))
        st.heap.write(sym.SetC(cls.elem), 'm', r.z, list_elems(st, v))
        yield st, r
        return
    items = interp.concrete_items(st, v)
    if items is not None:
        yield st, st.new_py('set', items)
        return
    if isinstance(v, MapVal):
        # image of a set under a pure function: {f(d) : d in S}
        src, et = elems_of(interp, st, v.over)
        d = sym.fresh(et, 'md')
        sub = st.copy()
        res = list(interp.call(sub, v.f, [d], {}))
        if len(res) != 1 or isinstance(res[0][1], Raised) or res[0][0].events[len(st.events):] or res[0][0].pc[len(st.pc):]:
            raise Unsupported('set(map(f, S)): f is not a pure total function')
        img = res[0][1]
        if not isinstance(img, SV):
            raise Unsupported('set(map(f, S)): non-symbolic image')
        R = z3.Const(sym.fresh_name('image'), z3.ArraySort(img.ty.sort(), z3.BoolSort()))
        l = z3.Const(sym.fresh_name('l'), img.ty.sort())
        st.assume(z3.ForAll([d.z], z3.Implies(z3.Select(src, d.z), z3.Select(R, img.z))))
        st.assume(z3.ForAll([l], z3.Implies(z3.Select(R, l), z3.Exists([d.z], z3.And(z3.Select(src, d.z), img.z == l)))))
        r = ops.new_heap(st, sym.SetC(img.ty))
        st.heap.write(sym.SetC(img.ty), 'm', r.z, R)
        yield st, r
        return
    if isinstance(v, SV) and hasattr(v.ty, 'to_set'):
        yield st, v.ty.to_set(interp, st, v)
        return
    if isinstance(v, SV) and hasattr(v.ty, 'elems'):
        # any iterable with a set view (e.g. the chunk table of a snapshot body): a NEW set with those elements
        src, et = v.ty.elems(interp, st, v)
        r = ops.new_heap(st, sym.SetC(et))
        st.heap.write(sym.SetC(et), 'm', r.z, src)
        yield st, r
        return
    raise Unsupported(f'set({v!r})')


def list_elems(st, v):
    """characteristic array of the elements of a heap list (a fresh array constant
    linked to the list by an assumption, so that membership stays atomic)"""
    cls = v.ty.cls
    arr, n = st.heap.read(cls, 'arr', v.z), st.heap.read(cls, 'len', v.z)
    x = z3.Const(sym.fresh_name('x'), cls.elem.sort())
    i = z3.Int(sym.fresh_name('i'))
    m = z3.Const(sym.fresh_name('elems'), z3.ArraySort(cls.elem.sort(), z3.BoolSort()))
    st.assume(z3.ForAll([i], z3.Implies(z3.And(0 <= i, i < n), z3.Select(m, z3.Select(arr, i)))))
    st.assume(z3.ForAll([x], z3.Implies(z3.Select(m, x), z3.Exists([i], z3.And(0 <= i, i < n, z3.Select(arr, i) == x)))))
    return m


def _list_ctor(interp, st, args, kwargs):
    if not args:
        yield st, st.new_py('list', [])
        return
    (v,) = args
    v = resolve(st, v)
    items = interp.concrete_items(st, v)
    if items is not None:
        yield st, st.new_py('list', items)
        return
    if isinstance(v, SV) and hasattr(v.ty, 'to_list'):
        yield from v.ty.to_list(interp, st, v)
        return
    if is_heap(v, 'dict'):
        # list(d): keys in insertion order
        cls = v.ty.cls
        r = ops.new_heap(st, sym.ListC(cls.kt))
        lc = sym.ListC(cls.kt)
        n = st.heap.read(cls, 'n', v.z)
        has, order = st.heap.read(cls, 'has', v.z), st.heap.read(cls, 'order', v.z)
        arr = z3.Const(sym.fresh_name('keys'), z3.ArraySort(z3.IntSort(), cls.kt.sort()))
        k = z3.Const(sym.fresh_name('k'), cls.kt.sort())
        i = z3.Int(sym.fresh_name('i'))
        # requires the dict's order ghost to be a bijection present-keys <-> [0,n): stated by the
        # sidecar's data invariant; here: arr[order[k]] == k for present keys, arr[i] present
        st.assume(z3.ForAll([k], z3.Implies(z3.Select(has, k), z3.Select(arr, z3.Select(order, k)) == k)))
        st.assume(z3.ForAll([i], z3.Implies(z3.And(0 <= i, i < n), z3.And(
            z3.Select(has, z3.Select(arr, i)), z3.Select(order, z3.Select(arr, i)) == i))))
        st.heap.write(lc, 'arr', r.z, arr)
        st.heap.write(lc, 'len', r.z, n)
        yield st, r
        return
    raise Unsupported(f'list({v!r})')


def _dict_ctor(interp, st, args, kwargs):
    d = {}
    if args:
        base = resolve(st, args[0])
        if isinstance(base, PyRef) and base.kind == 'dict':
            d.update(interp.deref(st, base))
        else:
            pairs = interp.concrete_items(st, base)
            if pairs is None or not all(isinstance(x, tuple) and len(x) == 2 and isinstance(x[0], (str, int, bytes)) for x in pairs):
                raise Unsupported('dict(symbolic)')
            d.update(pairs)        # dict(iterable of (key, value)): insertion order of the pairs
    d.update(kwargs)
    yield st, st.new_py('dict', d)


def _sorted(interp, st, args, kwargs):
    (v,) = args
    v = resolve(st, v)
    items = interp.concrete_items(st, v)
    if items is not None and 'key' not in kwargs:
        if all(isinstance(x, (str, int)) for x in items):
            yield st, st.new_py('list', sorted(items, reverse=bool(kwargs.get('reverse', False))))
            return
        if all(isinstance(x, tuple) and isinstance(x[0], str) for x in items) and len({x[0] for x in items}) == len(items):
            yield st, st.new_py('list', sorted(items, key=lambda x: x[0], reverse=bool(kwargs.get('reverse', False))))
            return
    if isinstance(v, SV) and hasattr(v.ty, 'sorted'):
        yield from v.ty.sorted(interp, st, v, kwargs)
        return
    if is_heap(v, 'list'):
        yield from _sorted_heap(interp, st, v, kwargs)
        return
    raise Unsupported('sorted(...) form')


def _iter(interp, st, args, kwargs):
    (v,) = args
    v = resolve(st, v)
    if isinstance(v, SV) and hasattr(v.ty, 'iter'):
        yield st, v.ty.iter(interp, st, v)
        return
    raise Unsupported(f'iter({v!r})')


def _next(interp, st, args, kwargs):
    it = args[0]
    if isinstance(it, SV) and hasattr(it.ty, 'next'):
        yield from it.ty.next(interp, st, it, args[1:] or None)
        return
    raise Unsupported(f'next({it!r})')


def _hasattr(interp, st, args, kwargs):
    o, name = args
    if isinstance(o, Obj) and hasattr(o, '_hasattr'):
        yield from o._hasattr(interp, st, name)
        return
    raise Unsupported('hasattr')


def _map(interp, st, args, kwargs):
    f, v = args
    v = resolve(st, v)
    items = None
    if isinstance(v, tuple):
        items = list(v)
    elif isinstance(v, SV) and isinstance(v.ty, sym.Tup):
        items = [SV(t, v.ty.proj(v.z, i)) for i, t in enumerate(v.ty.items)]
    if items is not None and len(items) <= 4 and not hasattr(f, 'pure'):
        # map over a short tuple (`a, b = map(f, pair)`): the applications are made here, in order (an exception of f surfaces at the
        # map(...) expression instead of at the unpacking - the same statement in this code base)
        def go(i, s, acc):
            if i == len(items):
                yield s, tuple(acc)
                return
            for s2, r in interp.call(s, f, [items[i]], {}):
                if isinstance(r, Raised):
                    yield s2, r
                else:
                    yield from go(i + 1, s2, acc + [r])
        yield from go(0, st, [])
        return
    yield st, MapVal(f, v)


class MapVal:
    def __init__(self, f, over):
        self.f, self.over = f, over


def _sum(interp, st, args, kwargs):
    (v,) = args
    v = resolve(st, v)
    items = interp.concrete_items(st, v)
    if items is not None:
        acc = 0
        res = [(st, acc)]
        for it in items:
            nxt = []
            for s, a in res:
                nxt.extend(ops.binop(interp, s, __import__('ast').Add(), a, it))
            res = nxt
        yield from res
        return
    raise Unsupported('sum over symbolic iterable')


def _any_all(is_any):
    def fn(interp, st, args, kwargs):
        (v,) = args
        rv = resolve(st, v)
        if is_strlike(rv) and kind_of(rv) == BYTES:
            # any(b) / all(b) over a bytes value: some / every byte is non-zero (uninterpreted predicate of the value)
            f = interp.uf('any_nonzero_byte' if is_any else 'all_nonzero_bytes', BYTES, BOOL)
            z = lift(rv, BYTES).z
            if is_any:
                bat = interp.uf('byte_at', BYTES, INT, INT)
                i = z3.Int(sym.fresh_name('bi'))
                st.assume(z3.Implies(z3.Not(f(z)), z3.ForAll([i], bat(z, i) == 0)))
            yield st, SV(BOOL, f(z))
            return
        if is_heap(rv, 'list') and rv.ty.cls.elem == BOOL:
            cls = rv.ty.cls
            arr, n = st.heap.read(cls, 'arr', rv.z), st.heap.read(cls, 'len', rv.z)
            i = z3.Int(sym.fresh_name('qi'))
            body = z3.And(0 <= i, i < n, z3.Select(arr, i)) if is_any else z3.Implies(z3.And(0 <= i, i < n), z3.Select(arr, i))
            yield st, SV(BOOL, z3.Exists([i], body) if is_any else z3.ForAll([i], body))
            return
        items = interp.concrete_items(st, rv)
        if items is None:
            raise Unsupported('any/all over symbolic iterable')
        zs = [interp.truth(st, x) for x in items]
        if is_any:
            yield st, ops.as_pybool(z3.Or(*zs) if zs else z3.BoolVal(False))
        else:
            yield st, ops.as_pybool(z3.And(*zs) if zs else z3.BoolVal(True))
    return fn


def _int_ctor(interp, st, args, kwargs):
    (v,) = args
    v = ops.unwrap_opt(interp, st, v, 'int_arg')
    if isinstance(v, int):
        yield st, int(v)
        return
    if isinstance(v, SV) and v.ty == INT:
        yield st, v
        return
    if is_strlike(v):
        # int(s): ValueError unless s is a decimal literal; value via uninterpreted parse
        f = interp.uf('parse_int', STR, INT)
        ok = interp.uf('is_int_literal', STR, BOOL)
        z = lift(v, STR).z
        for s, b in interp.branch(st, ok(z)):
            if b:
                yield s, SV(INT, f(z))
            else:
                yield s, Raised(Exc('ValueError'))
        return
    if isinstance(v, float) or (isinstance(v, SV) and v.ty == sym.REAL):
        # int(x) truncates towards zero (floats are treated as mathematical reals)
        z = lift(v, sym.REAL).z
        yield st, SV(INT, z3.If(z >= 0, z3.ToInt(z), -z3.ToInt(-z)))
        return
    raise Unsupported('int(...) form')


def _memoryview(interp, st, args, kwargs):
    (v,) = args
    yield st, v


def _print(interp, st, args, kwargs):
    st.emit('print', args=list(args), file=kwargs.get('file'))
    yield st, None


BUILTINS = {
    'len': Model('len', _len), 'max': Model('max', _minmax(True)), 'min': Model('min', _minmax(False)),
    'range': Model('range', _range), 'bool': Model('bool', _bool), 'isinstance': Model('isinstance', _isinstance),
    'bytes': Model('bytes', _bytes_ctor), 'str': Model('str', _str_ctor), 'set': Model('set', _set_ctor),
    'list': Model('list', _list_ctor), 'dict': Model('dict', _dict_ctor), 'sorted': Model('sorted', _sorted),
    'iter': Model('iter', _iter), 'next': Model('next', _next), 'map': Model('map', _map),
    'sum': Model('sum', _sum), 'any': Model('any', _any_all(True)), 'all': Model('all', _any_all(False)),
    'int': Model('int', _int_ctor), 'memoryview': Model('memoryview', _memoryview), 'print': Model('print', _print),
    'hasattr': Model('hasattr', _hasattr),
    'True': True, 'False': False, 'None': None,
}
for _e in EXC_PARENTS:
    BUILTINS.setdefault(_e, ExcClass(_e))
BUILTINS['BaseException'] = ExcClass('BaseException')
BUILTINS['ZeroDivisionError'] = ExcClass('ZeroDivisionError')
def _setattr(interp, st, args, kwargs):
    o, name, v = args
    if not isinstance(name, str):
        raise Unsupported('setattr with a symbolic attribute name')
    ops.setattr_(interp, st, o, name, v)
    yield st, None


BUILTINS['setattr'] = Model('setattr', _setattr)


def _getattr(interp, st, args, kwargs):
    """getattr(o, 'name'[, default]) with a literal name: the attribute; for a facade object without that attribute the default
    (an attribute a change started to use may hold anything: unknown state - the default is only ONE of its possible values)"""
    from .interp import Unknown
    if len(args) not in (2, 3) or not isinstance(args[1], str):
        raise Unsupported('getattr with a symbolic attribute name')
    o, name = resolve(st, args[0]), args[1]
    if isinstance(o, Obj) and name not in o._attrs and not hasattr(o, 'vf_getattr') and getattr(o, '_class_source', None) is None:
        gk = f'attr:{o._name}.{name}'
        if name in getattr(o, '_settable', ()) and gk in st.ghost:
            yield st, st.ghost[gk]
        elif getattr(o, '_lenient', False) or len(args) == 3:
            u = Unknown(f'{o._name}.{name}', o)
            yield st, u
        else:
            yield st, Raised(Exc('AttributeError'))
        return
    yield from ops.getattr_(interp, st, o, name)


BUILTINS['getattr'] = Model('getattr', _getattr)


def _repr(interp, st, args, kwargs):
    (v,) = args
    v = resolve(st, v)
    yield st, (repr(v) if isinstance(v, (str, bytes, int, bool, type(None))) else sym.fresh(STR, 'repr'))


BUILTINS['repr'] = Model('repr', _repr)


def _round(interp, st, args, kwargs):
    """round(x[, ndigits]): a deterministic function of its arguments (uninterpreted: banker's rounding of binary floats is not
    modelled); concrete ints pass through"""
    x = resolve(st, args[0])
    nd = args[1] if len(args) > 1 else kwargs.get('ndigits')
    if isinstance(x, int) and not isinstance(x, bool) and nd is None:
        yield st, x
        return
    zx = lift(x, REAL) if not (isinstance(x, SV) and x.ty == REAL) else x
    if nd is None:
        yield st, SV(INT, interp.uf('round0', REAL, INT)(zx.z))
    else:
        yield st, SV(REAL, interp.uf('round_n', REAL, INT, REAL)(zx.z, lift(nd, INT).z))


BUILTINS['round'] = Model('round', _round)


def _tuple_ctor(interp, st, args, kwargs):
    if not args:
        yield st, ()
        return
    items = interp.concrete_items(st, resolve(st, args[0]))
    if items is None:
        raise Unsupported('tuple() of a symbolic iterable')
    yield st, tuple(items)


BUILTINS['tuple'] = Model('tuple', _tuple_ctor)
BUILTINS['type'] = Model('type', lambda i, s, a, k: iter([(s, TypeObj(py_type_name(s, a[0]) or '?'))]))


# ------------------------------------------------------------------ methods
def method(interp, st, recv, name, args, kwargs):
    if isinstance(recv, MapVal):
        raise Unsupported('method on map object')
    if is_strlike(recv):
        yield from str_method(interp, st, recv, name, args, kwargs)
        return
    if isinstance(recv, PyRef):
        yield from py_method(interp, st, recv, name, args, kwargs)
        return
    if is_heap(recv, 'list'):
        yield from list_method(interp, st, recv, name, args, kwargs)
        return
    if is_heap(recv, 'set'):
        yield from set_method(interp, st, recv, name, args, kwargs)
        return
    if is_heap(recv, 'dict'):
        yield from dict_method(interp, st, recv, name, args, kwargs)
        return
    if is_heap(recv) and recv.ty.cls.keyed:
        yield from record_method(interp, st, recv, name, args, kwargs)
        return
    if isinstance(recv, SV) and hasattr(recv.ty, 'method'):
        yield from recv.ty.method(interp, st, recv, name, args, kwargs)
        return
    if isinstance(recv, Model) and name == '__call__':
        yield from recv.fn(interp, st, args, kwargs)
        return
    raise Unsupported(f'method {name} on {recv!r}')


def hex_fns(interp):
    return interp.uf('hex', BYTES, STR), interp.uf('fromhex', STR, BYTES)


def str_method(interp, st, recv, name, args, kwargs):
    k = kind_of(recv)
    z = lift(recv, k).z
    if name == 'startswith' and len(args) == 1:
        yield st, ops.as_pybool(z3.PrefixOf(lift(args[0], k).z, z))
    elif name == 'endswith' and len(args) == 1:
        yield st, ops.as_pybool(z3.SuffixOf(lift(args[0], k).z, z))
    elif name == 'hex' and k == BYTES and not args:
        hx, fh = hex_fns(interp)
        r = hx(z)
        st.assume(fh(r) == z)
        st.assume(z3.Length(r) == 2 * z3.Length(z))
        st.assume(is_hex_string(interp, r))
        yield st, SV(STR, r)
    elif name == 'encode' and k == STR and isinstance(recv, str) and (not args or args[0] in ('utf-8', 'utf8', 'ascii')) and recv.isascii():
        yield st, recv.encode()          # a literal: the bytes are computed (one byte per character)
    elif name == 'encode' and k == STR:
        f = interp.uf('encode_utf8', STR, BYTES)
        yield st, SV(BYTES, f(z))
    elif name == 'split' and len(args) == 2 and args[1] == 1 and isinstance(args[0], (str, bytes)) and len(args[0]) == 1:
        # s.split(sep, 1): cut at the FIRST separator (unique decomposition), or the whole string when there is none
        zsep = lift(args[0], k).z
        for s1, has in interp.branch(st, z3.Contains(z, zsep)):
            if has:
                head, tail = sym.fresh(k, 'split_head'), sym.fresh(k, 'split_tail')
                s1.assume(z == z3.Concat(head.z, zsep, tail.z))
                s1.assume(z3.Not(z3.Contains(head.z, zsep)))
                yield s1, s1.new_py('list', [head, tail])
            else:
                yield s1, s1.new_py('list', [recv if isinstance(recv, SV) else lift(recv, k)])
    elif name == 'isidentifier' and not args:
        if isinstance(recv, str):
            yield st, recv.isidentifier()
        else:
            yield st, SV(BOOL, interp.uf('isidentifier', k, BOOL)(z))
    elif name in ('rstrip', 'lstrip', 'strip') and len(args) <= 1:
        # the result is what is left after removing characters of the set from the end(s): a factor of the receiver,
        # equal to it when nothing can be removed (an uninterpreted function with those two laws)
        chars = lift(args[0], k).z if args else z3.StringVal(' \t\n\r\x0b\x0c')
        r = interp.uf(f'{name}_{k.name()}', k, k, k)(z, chars)
        if name == 'rstrip':
            st.assume(z3.PrefixOf(r, z))
        elif name == 'lstrip':
            st.assume(z3.SuffixOf(r, z))
        else:
            st.assume(z3.Contains(z, r))
        st.assume(z3.Implies(z3.Length(z) == 0, r == z))
        yield st, SV(k, r)
    elif name in ('lower', 'upper', 'title') and not args and isinstance(recv, (str, bytes)):
        yield st, getattr(recv, name)()        # a literal: the value is computed
    elif name == 'lower' and not args:
        f = interp.uf('lower', k, k)
        yield st, SV(k, f(z))
    elif name == 'title' and not args:
        f = interp.uf('title', k, k)
        yield st, SV(k, f(z))
    elif name == 'upper' and not args:
        f = interp.uf('upper', k, k)
        yield st, SV(k, f(z))
    elif name == 'rpartition' and len(args) == 1:
        sep = args[0]
        if not isinstance(sep, (str, bytes)) or len(sep) != 1:
            raise Unsupported('rpartition separator')
        zsep = lift(sep, k).z
        head = z3.Const(sym.fresh_name('head'), z3.StringSort())
        tail = z3.Const(sym.fresh_name('tail'), z3.StringSort())
        for s, found in interp.branch(st, z3.Contains(z, zsep)):
            if found:
                # unique decomposition: z = head + sep + tail with sep not in tail
                s.assume(z == z3.Concat(head, zsep, tail))
                s.assume(z3.Not(z3.Contains(tail, zsep)))
                yield s, (SV(k, head), sep, SV(k, tail))
            else:
                yield s, ('' if k == STR else b'', '' if k == STR else b'', recv)
    elif name == 'rsplit' and len(args) == 2 and isinstance(args[1], int):
        sep, maxsplit = args
        if not isinstance(sep, (str, bytes)) or len(sep) != 1:
            raise Unsupported('rsplit separator')
        yield from _rsplit(interp, st, k, z, sep, maxsplit)
    elif name == 'join' and len(args) == 1:
        items = interp.concrete_items(st, resolve(st, args[0]))
        if items is None:
            a0 = resolve(st, args[0])
            if is_heap(a0, 'set') or is_heap(a0, 'list'):
                # opaque but deterministic rendering of a symbolic collection
                arr, _ = elems_of(interp, st, a0)
                f = interp.uf(f'join_{a0.ty.cls.name}', k, _ArrTy(a0.ty.cls.elem), k)
                yield st, SV(k, f(z, arr))
                return
            if isinstance(a0, (MapVal, __import__('vf.interp', fromlist=['Unknown']).Unknown)) or (isinstance(a0, PyRef) and a0.kind in ('set', 'list')):
                # lazily mapped / unmodelled iterable: some string (messages only; nothing is known about it)
                yield st, sym.fresh(k, 'joined')
                return
            raise Unsupported('join over symbolic iterable')
        parts = []
        for i, it in enumerate(items):
            if i:
                parts.append(recv)
            parts.append(it)
        if not parts:
            yield st, '' if k == STR else b''
        elif k == STR:
            yield st, interp.concat_strs(parts)
        else:
            yield st, SV(k, z3.Concat(*[lift(p, k).z for p in parts])) if len(parts) > 1 else lift(parts[0], k)
    elif name == 'format':
        f = interp.uf(f'format_{len(args)}', *([STR] * (len(args) + 1)), STR)
        zs = [lift(interp.format_value(st, a, -1, None), STR).z for a in args]
        yield st, SV(STR, f(z, *zs))
    elif name == 'replace' and len(args) == 2 and all(isinstance(a, (str, bytes)) for a in args):
        if args[0] == args[1]:
            yield st, recv
        else:
            yield st, SV(k, z3.Replace(z, lift(args[0], k).z, lift(args[1], k).z)) if False else _replace_all(interp, st, k, z, args[0], args[1])
    else:
        raise Unsupported(f'str method {name}')


def _replace_all(interp, st, k, z, a, b):
    f = interp.uf(f'replace_all_{a!r}_{b!r}', k, k)
    r = f(z)
    za = lift(a, k).z
    # the only facts used: identity when `a` does not occur
    st.assume(z3.Implies(z3.Not(z3.Contains(z, za)), r == z))
    return SV(k, r)


def is_hex_string(interp, z):
    f = interp.uf('is_hex', STR, BOOL)
    return z3.And(f(z), z3.Not(z3.Contains(z, z3.StringVal('-'))), z3.Not(z3.Contains(z, z3.StringVal('/'))))


def _rsplit(interp, st, k, z, sep, maxsplit):
    """s.rsplit(sep, m): at most m splits from the right.  Result as a python list of
    length j+1 for each possible number of separators found j <= m."""
    zsep = lift(sep, k).z

    def go(s, rest, acc, left):
        # rest: the still unsplit head; acc: pieces already split off (right to left)
        if left == 0:
            yield s, s.new_py('list', [SV(k, rest)] + acc)
            return
        for s2, found in interp.branch(s, z3.Contains(rest, zsep)):
            if found:
                h = z3.Const(sym.fresh_name('h'), z3.StringSort())
                t = z3.Const(sym.fresh_name('t'), z3.StringSort())
                s2.assume(rest == z3.Concat(h, zsep, t))
                s2.assume(z3.Not(z3.Contains(t, zsep)))
                yield from go(s2, h, [SV(k, t)] + acc, left - 1)
            else:
                yield s2, s2.new_py('list', [SV(k, rest)] + acc)

    yield from go(st, z, [], maxsplit)


MUTATORS = {'append', 'extend', 'sort', 'setdefault', 'pop', 'update', 'add', 'discard', 'remove', 'clear'}


def py_method(interp, st, recv, name, args, kwargs):
    c = st.store[recv.id]
    if name in MUTATORS:
        st.mutating(recv)
    if recv.kind == 'list':
        if name == 'append':
            c.append(args[0])
            yield st, None
        elif name == 'extend':
            items = interp.concrete_items(st, resolve(st, args[0]))
            if items is None:
                raise Unsupported('extend with symbolic iterable')
            c.extend(items)
            yield st, None
        elif name == 'sort':
            raise Unsupported('sort of concrete-shaped list')
        else:
            raise Unsupported(f'list method {name}')
    elif recv.kind == 'dict':
        if name == 'get':
            key = args[0]
            default = args[1] if len(args) > 1 else None
            if isinstance(key, (str, int, bytes)):
                yield st, c.get(key, default)
            else:
                raise Unsupported('dict.get symbolic key')
        elif name == 'setdefault':
            key, default = args
            if key not in c:
                c[key] = default
            yield st, c[key]
        elif name == 'items':
            yield st, ConcreteIter([(k, v) for k, v in c.items()])
        elif name == 'keys':
            yield st, ConcreteIter(list(c.keys()))
        elif name == 'values':
            yield st, ConcreteIter(list(c.values()))
        elif name == 'pop':
            key = args[0]
            if not isinstance(key, (str, int, bytes)):
                raise Unsupported('dict.pop symbolic key')
            if key in c:
                yield st, c.pop(key)
            elif len(args) > 1:
                yield st, args[1]
            else:
                yield st, Raised(Exc('KeyError', (key,)))
        elif name == 'copy':
            yield st, st.new_py('dict', dict(c))
        elif name == 'update':
            other = resolve(st, args[0]) if args else None
            if other is not None:
                if isinstance(other, PyRef) and other.kind == 'dict':
                    c.update(st.store[other.id])
                else:
                    raise Unsupported('dict.update symbolic')
            c.update(kwargs)
            yield st, None
        else:
            raise Unsupported(f'dict method {name}')
    elif recv.kind == 'set':
        if name == 'add':
            c.append(args[0])
            yield st, None
        else:
            raise Unsupported(f'set method {name} on concrete-shaped set')
    else:
        raise Unsupported(f'method {name} on {recv!r}')


def list_method(interp, st, recv, name, args, kwargs):
    cls = recv.ty.cls
    if name == 'append':
        n = st.heap.read(cls, 'len', recv.z)
        zv = to_ty(interp, st, args[0], cls.elem)
        st.heap.write(cls, 'arr', recv.z, z3.Store(st.heap.read(cls, 'arr', recv.z), n, zv.z))
        st.heap.write(cls, 'len', recv.z, n + 1)
        st.emit('list_append', target=recv, value=zv, index=n)
        yield st, None
    elif name == 'sort':
        yield from _sorted_heap(interp, st, recv, kwargs, inplace=True)
    elif name == 'pop' and not args:
        n = st.heap.read(cls, 'len', recv.z)
        for s, nonempty in interp.branch(st, n > 0):
            if nonempty:
                n1 = s.heap.read(cls, 'len', recv.z)
                v = SV(cls.elem, z3.Select(s.heap.read(cls, 'arr', recv.z), n1 - 1))
                s.heap.write(cls, 'len', recv.z, n1 - 1)
                s.emit('list_pop', target=recv, value=v)
                yield s, v
            else:
                yield s, Raised(Exc('IndexError'))
    else:
        raise Unsupported(f'heap list method {name}')


def elems_of(interp, st, v):
    """characteristic array (set) of the elements of an iterable value"""
    v = resolve(st, v)
    if is_heap(v, 'set'):
        return st.heap.read(v.ty.cls, 'm', v.z), v.ty.cls.elem
    if is_heap(v, 'list'):
        return list_elems(st, v), v.ty.cls.elem
    if isinstance(v, SV) and hasattr(v.ty, 'elems'):
        return v.ty.elems(interp, st, v)
    raise Unsupported(f'elements of {v!r}')


def set_method(interp, st, recv, name, args, kwargs):
    cls = recv.ty.cls
    m = st.heap.read(cls, 'm', recv.z)
    x = z3.Const(sym.fresh_name('x'), cls.elem.sort())
    if name == 'add':
        zv = to_ty(interp, st, args[0], cls.elem).z
        st.heap.write(cls, 'm', recv.z, z3.Store(m, zv, z3.BoolVal(True)))
        yield st, None
    elif name == 'discard':
        zv = to_ty(interp, st, args[0], cls.elem).z
        st.heap.write(cls, 'm', recv.z, z3.Store(m, zv, z3.BoolVal(False)))
        yield st, None
    elif name == 'remove':
        zv = to_ty(interp, st, args[0], cls.elem).z
        for s, ok in interp.branch(st, z3.Select(m, zv)):
            if ok:
                s.heap.write(cls, 'm', recv.z, z3.Store(s.heap.read(cls, 'm', recv.z), zv, z3.BoolVal(False)))
                yield s, None
            else:
                yield s, Raised(Exc('KeyError'))
    elif name == 'update':
        other, et = elems_of(interp, st, args[0])
        if et != cls.elem:
            raise Unsupported('set.update element type')
        st.heap.write(cls, 'm', recv.z, z3.Lambda([x], z3.Or(z3.Select(m, x), z3.Select(other, x))))
        yield st, None
    elif name == 'intersection_update':
        other, et = elems_of(interp, st, args[0])
        if et != cls.elem:
            raise Unsupported('set.intersection_update element type')
        st.heap.write(cls, 'm', recv.z, z3.Lambda([x], z3.And(z3.Select(m, x), z3.Select(other, x))))
        yield st, None
    elif name == 'difference_update':
        other, et = elems_of(interp, st, args[0])
        if et != cls.elem:
            raise Unsupported('set.difference_update element type')
        st.heap.write(cls, 'm', recv.z, z3.Lambda([x], z3.And(z3.Select(m, x), z3.Not(z3.Select(other, x)))))
        yield st, None
    else:
        raise Unsupported(f'heap set method {name}')


def dict_method(interp, st, recv, name, args, kwargs):
    cls = recv.ty.cls
    if name in getattr(cls, 'methods', {}):
        yield from cls.methods[name](interp, st, recv, args, kwargs)
        return
    if name == 'pop' and len(args) == 1:
        zk = to_ty(interp, st, args[0], cls.kt).z
        has = st.heap.read(cls, 'has', recv.z)
        for s, ok in interp.branch(st, z3.Select(has, zk)):
            if ok:
                v = SV(cls.vt, z3.Select(s.heap.read(cls, 'val', recv.z), zk))
                s.heap.write(cls, 'has', recv.z, z3.Store(s.heap.read(cls, 'has', recv.z), zk, z3.BoolVal(False)))
                s.heap.write(cls, 'n', recv.z, s.heap.read(cls, 'n', recv.z) - 1)
                s.emit('dict_del', target=recv, key=args[0])
                yield s, v
            else:
                yield s, Raised(Exc('KeyError', (args[0],)))
    elif name == 'pop' and len(args) == 2:
        zk = to_ty(interp, st, args[0], cls.kt).z
        has = st.heap.read(cls, 'has', recv.z)
        for s, ok in interp.branch(st, z3.Select(has, zk)):
            if ok:
                v = SV(cls.vt, z3.Select(s.heap.read(cls, 'val', recv.z), zk))
                s.heap.write(cls, 'has', recv.z, z3.Store(s.heap.read(cls, 'has', recv.z), zk, z3.BoolVal(False)))
                s.heap.write(cls, 'n', recv.z, s.heap.read(cls, 'n', recv.z) - 1)
                s.emit('dict_del', target=recv, key=args[0])
                yield s, v
            else:
                yield s, args[1]
    elif name == 'copy' and not args:
        r = ops.new_heap(st, cls)
        for f in ('has', 'val', 'n', 'order'):
            try:
                st.heap.write(cls, f, r.z, st.heap.read(cls, f, recv.z))
            except Exception:
                pass
        yield st, r
    elif name == 'get':
        zk = to_ty(interp, st, args[0], cls.kt).z
        has = st.heap.read(cls, 'has', recv.z)
        default = args[1] if len(args) > 1 else None
        for s, ok in interp.branch(st, z3.Select(has, zk)):
            if ok:
                yield s, SV(cls.vt, z3.Select(s.heap.read(cls, 'val', recv.z), zk))
            else:
                yield s, default
    else:
        raise Unsupported(f'heap dict method {name}')


def record_method(interp, st, recv, name, args, kwargs):
    cls = recv.ty.cls
    if name == 'get' and isinstance(args[0], str):
        key = args[0]
        if key in cls.fields:
            yield st, SV(cls.fields[key], st.heap.read(cls, key, recv.z))
        elif key in getattr(cls, 'optional', {}):
            yield st, args[1] if len(args) > 1 else None
        else:
            # the record has exactly its declared keys: any other key is absent
            yield st, args[1] if len(args) > 1 else None
    else:
        raise Unsupported(f'record method {name}')


# ------------------------------------------------------------------ modules
def _posixpath_join(interp, st, args, kwargs):
    """posixpath.join by its stdlib algorithm: a component starting with '/' resets
    the path; otherwise joined with '/' unless the path so far is empty or ends with '/'."""
    path = lift(args[0], STR).z
    slash = z3.StringVal('/')
    for b in args[1:]:
        zb = lift(b, STR).z
        path = z3.If(z3.PrefixOf(slash, zb), zb,
                     z3.If(z3.Or(z3.Length(path) == 0, z3.SuffixOf(slash, path)),
                           z3.Concat(path, zb), z3.Concat(path, slash, zb)))
    yield st, SV(STR, z3.simplify(path))


POSIXPATH = Obj('posixpath', join=Model('posixpath.join', _posixpath_join))


def _fromhex(interp, st, args, kwargs):
    (s,) = args
    hx, fh = hex_fns(interp)
    z = lift(s, STR).z
    ok = interp.uf('is_hex', STR, BOOL)
    for s1, b in interp.branch(st, z3.And(ok(z), z3.Length(z) % 2 == 0)):
        if b:
            r = fh(z)
            # fromhex is injective on (lower-case) hex strings as produced by .hex()
            yield s1, SV(BYTES, r)
        else:
            yield s1, Raised(Exc('ValueError'))


BYTES_TYPE = Obj('bytes', fromhex=Model('bytes.fromhex', _fromhex))


def lock_cm(name):
    def on_enter(interp, st, cm):
        st.emit('acquire', lock=name)
        st.locks_held = st.locks_held + (name,)
        return None

    def on_exit(interp, st, cm, out):
        st.emit('release', lock=name)
        held = list(st.locks_held)
        if name in held:
            held.reverse()
            held.remove(name)
            held.reverse()
        st.locks_held = tuple(held)
        return None

    return CM(name, on_enter, on_exit)


def opaque_type(name, pytype=None, attrs=None, truth=None):
    t = sym.Opaque(name)
    t.pytype = pytype
    t.attrs = attrs or {}
    t.truth = truth
    return t


# ------------------------------------------------------------------ asyncio / quantified calls
def forall_call(interp, st, f, coll, label, swallow=False):
    """`f` applied to every element of `coll` exactly once, in unspecified order
    (asyncio.gather(*map(f, S))).  The body is executed once for an arbitrary
    element; its events are recorded as one quantified event."""
    arr, et = elems_of(interp, st, coll)
    x = sym.fresh(et, 'elem')
    sub = st.copy()
    base_pc, base_ev = len(sub.pc), len(sub.events)
    sub.assume(z3.Select(arr, x.z))
    sub.heap.written = set()
    subpaths = []
    for s, v in interp.call(sub, f, [x], {}):
        if s.heap.written:
            raise Unsupported(f'quantified call {label} writes heap fields {sorted(s.heap.written)}')
        subpaths.append({'pc': s.pc[base_pc:], 'events': s.events[base_ev:],
                         'raised': isinstance(v, Raised), 'exc': v.exc.cls if isinstance(v, Raised) else None})
    can_raise = any(p['raised'] for p in subpaths)
    if swallow:
        # gather(..., return_exceptions=True): failures of individual calls are returned, not raised
        st.emit('forall', var=x, member=arr, paths=subpaths, label=label, partial=False, swallowed=True)
        yield st, None
        return
    if can_raise:
        t = st.copy()
        t.emit('forall', var=x, member=arr, paths=subpaths, label=label, partial=True)
        yield t, Raised(Exc('AnyError'))
    st.emit('forall', var=x, member=arr, paths=[p for p in subpaths if not p['raised']], label=label, partial=False)
    yield st, None


_gather_group = [0]


def _gather(interp, st, args, kwargs):
    """asyncio.gather(*map(f, S), *map(g, T), ...): all calls of one gather are concurrent (same group)"""
    swallow = False
    if 'return_exceptions' in kwargs:
        r = kwargs['return_exceptions']
        if r is True:
            swallow = True
        elif r is not False:
            raise Unsupported('gather(return_exceptions=<symbolic>)')
    if args and all(isinstance(a, StarArg) and isinstance(a.v, MapVal) for a in args):
        _gather_group[0] += 1
        group = _gather_group[0]

        def go(i, s):
            if i == len(args):
                yield s, None
                return
            mv = args[i].v
            n0 = len(s.events)
            for s2, v in forall_call(interp, s, mv.f, mv.over, getattr(mv.f, 'name', 'f'), swallow=swallow):
                for e in s2.events[n0:]:
                    if e.kind == 'forall':
                        e.data['group'] = group
                if isinstance(v, Raised):
                    yield s2, v
                else:
                    yield from go(i + 1, s2)

        yield from go(0, st)
        return
    raise Unsupported('asyncio.gather form')


def _noop(interp, st, args, kwargs):
    yield st, None


ASYNCIO = Obj('asyncio', gather=Model('asyncio.gather', _gather), sleep=Model('asyncio.sleep', _noop),
              get_running_loop=Model('get_running_loop', lambda i, s, a, k: iter([(s, Obj('loop'))])))


def tqdm_model():
    def fn(interp, st, args, kwargs):
        yield st, CM('tqdm')
    return Model('tqdm', fn)


# ------------------------------------------------------------------ bisect
def _bisect_left(interp, st, args, kwargs):
    """bisect.bisect_left(xs, (key,)) on a list of (int, obj) tuples: assumed contract
    (audited): requires xs sorted by first component; returns p with all first(i) < key
    for i < p and first(i) >= key for i >= p.  ((a, f) < (key,) iff a < key.)"""
    xs, key = args
    xs = resolve(st, xs)
    if not (is_heap(xs, 'list') and isinstance(xs.ty.cls.elem, Tup) and isinstance(key, tuple) and len(key) == 1):
        raise Unsupported('bisect_left form')
    cls = xs.ty.cls
    arr, n = st.heap.read(cls, 'arr', xs.z), st.heap.read(cls, 'len', xs.z)
    first = lambda i: cls.elem.proj(z3.Select(arr, i), 0)
    zk = lift(key[0], INT).z
    i, j = z3.Ints(f'{sym.fresh_name("bi")} {sym.fresh_name("bj")}')
    interp.oblige(st, 'bisect.requires_sorted',
                  z3.ForAll([i, j], z3.Implies(z3.And(0 <= i, i <= j, j < n), first(i) <= first(j))), tag='helper')
    p = z3.Int(sym.fresh_name('bisect'))
    st.assume(z3.And(0 <= p, p <= n))
    st.assume(z3.ForAll([i], z3.Implies(z3.And(0 <= i, i < p), first(i) < zk)))
    st.assume(z3.ForAll([i], z3.Implies(z3.And(p <= i, i < n), first(i) >= zk)))
    yield st, SV(INT, p)


BISECT = Obj('bisect', bisect_left=Model('bisect.bisect_left', _bisect_left))


def ctor_model(cls, defaults=None, name=None):
    """constructor of a heap class (dataclass / NamedTuple)"""
    defaults = defaults or {}

    def fn(interp, st, args, kwargs):
        names = list(cls.fields)
        vals = dict(zip(names, args))
        vals.update(kwargs)
        r = ops.new_heap(st, cls)
        for f, ty in cls.fields.items():
            if f in vals:
                v = vals[f]
            elif f in defaults:
                v = defaults[f]
            else:
                raise Unsupported(f'{cls.name}(): missing field {f}')
            st.heap.write(cls, f, r.z, to_ty(interp, st, v, ty).z)
        yield st, r
    return Model(name or cls.name, fn)


def _sorted_heap(interp, st, v, kwargs, inplace=False):
    """sorted(xs, key=f) / xs.sort(key=f, reverse=r) for a heap list: assumed contract (audited):
    the result is a permutation of xs ordered by key (stability is not used)."""
    cls = v.ty.cls
    if 'key' not in kwargs or kwargs.get('reverse') not in (None, False, True):
        raise Unsupported('sorted(heap list) form')
    reverse = bool(kwargs.get('reverse'))
    n = st.heap.read(cls, 'len', v.z)
    src = st.heap.read(cls, 'arr', v.z)
    r = v if inplace else ops.new_heap(st, cls)
    out = z3.Const(sym.fresh_name('sorted'), z3.ArraySort(z3.IntSort(), cls.elem.sort()))
    perm = z3.Function(sym.fresh_name('perm'), z3.IntSort(), z3.IntSort())
    pinv = z3.Function(sym.fresh_name('pinv'), z3.IntSort(), z3.IntSort())
    i, j = z3.Ints(f'{sym.fresh_name("si")} {sym.fresh_name("sj")}')
    # key term for a generic element of the list
    i0 = z3.Int(sym.fresh_name('ski'))
    e = SV(cls.elem, z3.Select(src, i0))
    sub = st.copy()
    sub.assume(z3.And(0 <= i0, i0 < n))
    npc0 = len(sub.pc)
    res = list(interp.call(sub, kwargs['key'], [e], {}))
    if len(res) != 1 or isinstance(res[0][1], Raised):
        raise Unsupported('sorted key is not a pure total function')
    kt = res[0][1]
    if res[0][0].pc[npc0:]:
        raise Unsupported('sorted key forks')
    keyf = lambda z: z3.substitute(lift(kt).z, (e.z, z))
    st.assume(z3.ForAll([i], z3.Implies(z3.And(0 <= i, i < n), z3.And(
        0 <= perm(i), perm(i) < n, pinv(perm(i)) == i, z3.Select(out, i) == z3.Select(src, perm(i))))))
    st.assume(z3.ForAll([j], z3.Implies(z3.And(0 <= j, j < n), z3.And(0 <= pinv(j), pinv(j) < n, perm(pinv(j)) == j))))
    le = (lambda a, b: b <= a) if reverse else (lambda a, b: a <= b)
    st.assume(z3.ForAll([i, j], z3.Implies(z3.And(0 <= i, i <= j, j < n), le(keyf(z3.Select(out, i)), keyf(z3.Select(out, j))))))
    st.heap.write(cls, 'arr', r.z, out)
    st.heap.write(cls, 'len', r.z, n)
    st.emit('sorted', source=v, result=r, perm=perm, pinv=pinv, keyf=keyf, reverse=reverse, src_arr=src, n=n)
    yield st, (None if inplace else r)
