"""Discharging obligations: z3 (API) first, cvc5 / z3-new CLIs on `unknown`."""
from __future__ import annotations

import os
import re
import subprocess
import tempfile
import time

import z3

Z3_TIMEOUT_MS = int(os.environ.get('VF_Z3_TIMEOUT_MS', '10000'))
CLI_TIMEOUT_S = int(os.environ.get('VF_CLI_TIMEOUT_S', '20'))


class Verdict:
    def __init__(self, name, tag, status, backend, seconds, model=None, reason=None, meta=None, goal_text=None):
        self.name, self.tag, self.status, self.backend = name, tag, status, backend
        self.seconds, self.model, self.reason, self.meta = seconds, model, reason, meta or {}
        self.goal_text = goal_text

    def as_dict(self):
        return {
            'name': self.name, 'tag': self.tag, 'status': self.status, 'backend': self.backend,
            'seconds': round(self.seconds, 4), 'model': self.model, 'reason': self.reason,
            'goal': self.goal_text, 'meta': {k: v for k, v in self.meta.items() if isinstance(v, (str, int, float, bool, list, dict, type(None)))},
        }


def _model_to_dict(m, limit=80):
    out = {}
    for d in m.decls():
        try:
            v = m[d]
            if isinstance(v, z3.FuncInterp):
                continue
            s = str(v)
            if len(s) > 400:
                s = s[:400] + '...'
            out[d.name()] = s
        except Exception:
            pass
        if len(out) >= limit:
            break
    return out


def smt2_of(pc, goal):
    s = z3.Solver()
    s.add(*pc)
    s.add(z3.Not(goal))
    return s.to_smt2()


def run_cvc5(smt2, timeout_s=CLI_TIMEOUT_S):
    text = smt2
    # z3 prints (set-info :status ...) and uses logic-free scripts; give cvc5 ALL
    text = '(set-logic ALL)\n' + '\n'.join(l for l in text.splitlines() if not l.startswith('(set-info'))
    with tempfile.NamedTemporaryFile('w', suffix='.smt2', delete=False) as f:
        f.write(text)
        path = f.name
    try:
        p = subprocess.run(['/usr/bin/cvc5', '--strings-exp', f'--tlimit={timeout_s * 1000}', path],
                           capture_output=True, text=True, timeout=timeout_s + 5)
        out = (p.stdout or '').strip().splitlines()
        return out[0] if out else 'unknown'
    except Exception as e:
        return 'unknown'
    finally:
        os.unlink(path)


def run_z3new(smt2, timeout_s=CLI_TIMEOUT_S):
    with tempfile.NamedTemporaryFile('w', suffix='.smt2', delete=False) as f:
        f.write(smt2)
        path = f.name
    try:
        p = subprocess.run(['z3-new', f'-T:{timeout_s}', path], capture_output=True, text=True, timeout=timeout_s + 5)
        out = (p.stdout or '').strip().splitlines()
        return out[0] if out else 'unknown'
    except Exception:
        return 'unknown'
    finally:
        os.unlink(path)


FAST_MS = int(os.environ.get('VF_FAST_MS', '1500'))


def prove_fast(ob):
    """in-process z3 with a short budget -> (Verdict | None, smt2 text when undecided)"""
    t0 = time.time()
    s = z3.Solver()
    s.set('timeout', FAST_MS)
    s.add(*ob.pc)
    s.add(z3.Not(ob.goal))
    goal_text = str(z3.simplify(ob.goal))
    if len(goal_text) > 600:
        goal_text = goal_text[:600] + '...'
    r = s.check()
    if r == z3.unknown and z3.is_false(z3.simplify(ob.goal)):
        # "this path must not exist": the path condition's quantified conjuncts are definitional axioms and assumed
        # invariants; the path was explored because its quantifier-free part is satisfiable -> decide on that part
        from .interp import Interp
        s2 = z3.Solver()
        s2.set('timeout', FAST_MS)
        s2.add(*[c for c in ob.pc if not Interp.has_quant(c)])
        if s2.check() == z3.sat:
            return Verdict(ob.name, ob.tag, 'refuted', 'z3', time.time() - t0, _model_to_dict(s2.model()),
                           'path condition satisfiable (quantified axioms set aside)', ob.meta, goal_text), None
    if r == z3.unsat:
        return Verdict(ob.name, ob.tag, 'proved', 'z3', time.time() - t0, None, None, ob.meta, goal_text), None
    if r == z3.sat:
        return Verdict(ob.name, ob.tag, 'refuted', 'z3', time.time() - t0, _model_to_dict(s.model()), None, ob.meta, goal_text), None
    v = Verdict(ob.name, ob.tag, 'undecided', 'z3', time.time() - t0, None, s.reason_unknown(), ob.meta, goal_text)
    return v, s.to_smt2()


def qf_refute(ob, v):
    """last resort after every back end gave up on the full query (quantified definitional axioms in the path condition): a
    model of the quantifier-free part that falsifies the goal is reported as a refutation candidate ("axioms set aside").
    Never reached for obligations some back end discharges."""
    from .interp import Interp
    if z3.is_false(z3.simplify(ob.goal)) or Interp.has_quant(ob.goal):
        return v
    qf = [c for c in ob.pc if not Interp.has_quant(c)]
    if len(qf) == len(ob.pc):
        return v
    t0 = time.time()
    s3 = z3.Solver()
    s3.set('timeout', FAST_MS)
    s3.add(*qf)
    s3.add(z3.Not(ob.goal))
    if s3.check() == z3.sat:
        v.status, v.backend, v.model = 'refuted', 'z3', _model_to_dict(s3.model())
        v.reason = 'goal falsified by a model of the quantifier-free part of the path condition (quantified axioms set aside)'
    v.seconds += time.time() - t0
    return v


def race(smt2, timeout_s):
    """run cvc5 (--strings-exp) and z3-new on the same query; first definitive answer wins,
    the other process is killed.  -> (cvc5_answer, z3new_answer) with 'unknown' for the loser"""
    text_c = '(set-logic ALL)\n' + '\n'.join(l for l in smt2.splitlines() if not l.startswith('(set-info'))
    files, procs = [], {}
    try:
        for name, text, cmd in (('cvc5', text_c, ['/usr/bin/cvc5', '--strings-exp', f'--tlimit={timeout_s * 1000}']),
                                ('z3-new', smt2, ['z3-new', f'-T:{timeout_s}'])):
            f = tempfile.NamedTemporaryFile('w', suffix='.smt2', delete=False)
            f.write(text)
            f.close()
            files.append(f.name)
            procs[name] = subprocess.Popen(cmd + [f.name], stdout=subprocess.PIPE, stderr=subprocess.DEVNULL, text=True)
        ans = {'cvc5': None, 'z3-new': None}
        deadline = time.time() + timeout_s + 5
        while time.time() < deadline and any(a is None for a in ans.values()):
            for name, pr in procs.items():
                if ans[name] is None and pr.poll() is not None:
                    out = (pr.stdout.read() or '').strip().splitlines()
                    ans[name] = out[0] if out and out[0] in ('sat', 'unsat', 'unknown', 'timeout') else 'unknown'
            if any(a in ('sat', 'unsat') for a in ans.values()):
                break
            time.sleep(0.05)
        for name, pr in procs.items():
            if pr.poll() is None:
                pr.kill()
                pr.wait()
            if ans[name] is None:
                ans[name] = 'unknown'
        return ans['cvc5'], ans['z3-new']
    finally:
        for f in files:
            try:
                os.unlink(f)
            except OSError:
                pass


def prove_slow(v, smt2, timeout_s):
    """second stage for queries the fast pass left open: cvc5 (strings) and z3-new CLIs race;
    the caller runs several of these in a thread pool."""
    t0 = time.time()
    c, zn = race(smt2, timeout_s)
    if c == 'unsat' or zn == 'unsat':
        if 'sat' in (c, zn):
            v.status, v.reason = 'undecided', f'solver disagreement cvc5={c} z3-new={zn}'
        else:
            v.status, v.backend = 'proved', ('cvc5' if c == 'unsat' else 'z3-new')
    elif zn == 'sat' or c == 'sat':
        v.status, v.backend = 'refuted', ('z3-new' if zn == 'sat' else 'cvc5')
        v.reason = 'sat (model not extracted from CLI run)'
    else:
        v.reason = f'unknown/timeout after {timeout_s}s in cvc5 and z3-new (z3 API: {v.reason})'
    v.seconds += time.time() - t0
    return v


def prove_all(obligations, timeout_s=20, second_solver=False, jobs=8):
    from concurrent.futures import ThreadPoolExecutor
    verdicts = [None] * len(obligations)
    slow = []
    for i, ob in enumerate(obligations):
        v, smt2 = prove_fast(ob)
        verdicts[i] = v
        if smt2 is not None:
            slow.append((i, smt2))
        elif second_solver and v.status == 'proved':
            # cross-check with the second back end; the SMT-LIB text is produced HERE (z3's API is not thread-safe)
            slow.append((i, ('cross', smt2_of(ob.pc, ob.goal))))
    if slow:
        def work(item):
            i, smt2 = item
            v = verdicts[i]
            if isinstance(smt2, tuple):
                c = run_cvc5(smt2[1], timeout_s)
                if c == 'sat':
                    v.status, v.reason = 'undecided', 'z3 unsat but cvc5 sat (solver disagreement)'
                elif c == 'unsat':
                    v.backend = 'z3+cvc5'
                return
            prove_slow(v, smt2, timeout_s)
        with ThreadPoolExecutor(jobs) as ex:
            list(ex.map(work, slow))
        for i, _ in slow:
            if verdicts[i].status == 'undecided':
                qf_refute(obligations[i], verdicts[i])          # main thread: z3's API is not thread-safe
    return verdicts


def prove(ob, second_solver=False, timeout_ms=None):
    return prove_all([ob], timeout_s=max(5, int((timeout_ms or Z3_TIMEOUT_MS) / 1000)), second_solver=second_solver)[0]


def satisfiable(pc, timeout_ms=5000):
    s = z3.Solver()
    s.set('timeout', timeout_ms)
    s.add(*pc)
    return s.check()
