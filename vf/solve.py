"""Discharging obligations: z3 (API) first, cvc5 / z3-new CLIs on `unknown`."""
from __future__ import annotations

import os
import re
import subprocess
import tempfile
import time

import z3

Z3_TIMEOUT_MS = int(os.environ.get('VF_Z3_TIMEOUT_MS', '10000'))
CLI_TIMEOUT_S = int(os.environ.get('VF_CLI_TIMEOUT_S', '20'))


class Verdict:
    def __init__(self, name, tag, status, backend, seconds, model=None, reason=None, meta=None, goal_text=None):
        self.name, self.tag, self.status, self.backend = name, tag, status, backend
        self.seconds, self.model, self.reason, self.meta = seconds, model, reason, meta or {}
        self.goal_text = goal_text

    def as_dict(self):
        return {
            'name': self.name, 'tag': self.tag, 'status': self.status, 'backend': self.backend,
            'seconds': round(self.seconds, 4), 'model': self.model, 'reason': self.reason,
            'goal': self.goal_text, 'meta': {k: v for k, v in self.meta.items() if isinstance(v, (str, int, float, bool, list, dict, type(None)))},
        }


def _model_to_dict(m, limit=80):
    out = {}
    for d in m.decls():
        try:
            v = m[d]
            if isinstance(v, z3.FuncInterp):
                continue
            s = str(v)
            if len(s) > 400:
                s = s[:400] + '...'
            out[d.name()] = s
        except Exception:
            pass
        if len(out) >= limit:
            break
    return out


def smt2_of(pc, goal):
    s = z3.Solver()
    s.add(*pc)
    s.add(z3.Not(goal))
    return s.to_smt2()


def run_cvc5(smt2, timeout_s=CLI_TIMEOUT_S):
    text = smt2
    # z3 prints (set-info :status ...) and uses logic-free scripts; give cvc5 ALL
    text = '(set-logic ALL)\n' + '\n'.join(l for l in text.splitlines() if not l.startswith('(set-info'))
    with tempfile.NamedTemporaryFile('w', suffix='.smt2', delete=False) as f:
        f.write(text)
        path = f.name
    try:
        p = subprocess.run(['/usr/bin/cvc5', '--strings-exp', f'--tlimit={timeout_s * 1000}', path],
                           capture_output=True, text=True, timeout=timeout_s + 5)
        out = (p.stdout or '').strip().splitlines()
        return out[0] if out else 'unknown'
    except Exception as e:
        return 'unknown'
    finally:
        os.unlink(path)


def run_z3new(smt2, timeout_s=CLI_TIMEOUT_S):
    with tempfile.NamedTemporaryFile('w', suffix='.smt2', delete=False) as f:
        f.write(smt2)
        path = f.name
    try:
        p = subprocess.run(['z3-new', f'-T:{timeout_s}', path], capture_output=True, text=True, timeout=timeout_s + 5)
        out = (p.stdout or '').strip().splitlines()
        return out[0] if out else 'unknown'
    except Exception:
        return 'unknown'
    finally:
        os.unlink(path)


def prove(ob, second_solver=False, timeout_ms=None):
    """-> Verdict.  status in proved / refuted / undecided"""
    t0 = time.time()
    s = z3.Solver()
    s.set('timeout', timeout_ms or Z3_TIMEOUT_MS)
    s.add(*ob.pc)
    s.add(z3.Not(ob.goal))
    goal_text = str(z3.simplify(ob.goal))
    if len(goal_text) > 600:
        goal_text = goal_text[:600] + '...'
    r = s.check()
    backend = 'z3'
    model = None
    reason = None
    if r == z3.unsat:
        status = 'proved'
    elif r == z3.sat:
        status = 'refuted'
        model = _model_to_dict(s.model())
    else:
        reason = s.reason_unknown()
        status = 'undecided'
        smt2 = s.to_smt2()
        cli_t = max(5, min(CLI_TIMEOUT_S, int((timeout_ms or Z3_TIMEOUT_MS) / 1000) * 2))
        c = run_cvc5(smt2, cli_t)
        if c == 'unsat':
            status, backend = 'proved', 'cvc5'
        elif c == 'sat':
            # cvc5 models are not parsed; a sat answer alone is kept as undecided unless
            # z3 can confirm with a longer budget
            s2 = z3.Solver()
            s2.set('timeout', (timeout_ms or Z3_TIMEOUT_MS) * 3)
            s2.add(*ob.pc)
            s2.add(z3.Not(ob.goal))
            if s2.check() == z3.sat:
                status, backend, model = 'refuted', 'z3', _model_to_dict(s2.model())
            else:
                status, backend, reason = 'refuted', 'cvc5', 'cvc5 sat (no model extracted)'
        else:
            zn = run_z3new(smt2, cli_t)
            if zn == 'unsat':
                status, backend = 'proved', 'z3-new'
    if status == 'proved' and second_solver and backend == 'z3':
        c = run_cvc5(s.to_smt2())
        if c == 'sat':
            status, reason = 'undecided', 'z3 unsat but cvc5 sat (solver disagreement)'
        elif c == 'unsat':
            backend = 'z3+cvc5'
    return Verdict(ob.name, ob.tag, status, backend, time.time() - t0, model, reason, ob.meta, goal_text)


def satisfiable(pc, timeout_ms=5000):
    s = z3.Solver()
    s.set('timeout', timeout_ms)
    s.add(*pc)
    return s.check()
