"""Aggregation, known findings, replays, evidence, exit codes."""
from __future__ import annotations

import json
import os
import re
import subprocess
import sys
import time

from . import VERIF, REPO

VENV_PY = '/venv/bin/python'


def load_known():
    p = os.path.join(VERIF, 'known_findings.json')
    if not os.path.exists(p):
        return []
    return json.load(open(p)).get('findings', [])


def open_findings(prop=None):
    return [f for f in load_known() if f.get('status') == 'open' and (prop is None or f['property'] == prop)]


def is_open(fid):
    return any(f.get('id') == fid for f in open_findings())


def safe(name):
    return re.sub(r'[^A-Za-z0-9_.\-]+', '_', name)[:150]


def run_py(script, payload, timeout=600, py=VENV_PY):
    """run a /verif-relative script under the repo's interpreter with JSON on stdin; -> dict"""
    env = dict(os.environ)
    env['PYTHONPATH'] = VERIF + os.pathsep + env.get('REPO', REPO)
    env.setdefault('REPO', REPO)
    try:
        p = subprocess.run([py, os.path.join(VERIF, script)], input=json.dumps(payload), text=True,
                           capture_output=True, timeout=timeout, env=env, cwd=env['REPO'])
    except subprocess.TimeoutExpired:
        return {'status': 'error', 'error': f'timeout after {timeout}s'}
    out = p.stdout.strip().splitlines()
    for line in reversed(out):
        if line.startswith('{'):
            try:
                return json.loads(line)
            except ValueError:
                pass
    return {'status': 'error', 'error': 'no JSON result', 'stdout': p.stdout[-2000:], 'stderr': p.stderr[-4000:], 'rc': p.returncode}


def run_bounded(prop, b, tier, seed):
    t0 = time.time()
    payload = dict(b.get('args', {}), tier=tier, seed=seed, name=b['name'])
    r = run_py(b['script'], payload, timeout=b.get('timeout', 900), py=b.get('py', VENV_PY))
    r.setdefault('status', 'error')
    r['name'] = b['name']
    r['bound'] = b.get('bound', '')
    r['seconds'] = round(time.time() - t0, 2)
    return r


def do_replay(prop, path):
    data = json.load(open(path))
    rp = data.get('replay')
    print(json.dumps({k: data.get(k) for k in ('property', 'obligation', 'status', 'solver', 'reproduced')}, indent=1))
    if not rp or not rp.get('script'):
        print('no native replay script recorded for this obligation (no-failing-input-found)')
        return 1
    r = run_py(rp['script'], rp['payload'])
    print(json.dumps(r, indent=1)[:4000])
    return 1 if r.get('reproduced') else 0


def write_replay(prop, name, body):
    d = os.path.join(VERIF, 'replays', prop)
    os.makedirs(d, exist_ok=True)
    p = os.path.join(d, safe(name) + '.json')
    with open(p, 'w') as f:
        json.dump(body, f, indent=1, default=str)
    return p


def tree_hash():
    import hashlib
    root = os.environ.get('REPO', REPO)
    h = hashlib.sha256()
    for base in ('replicat', 'src'):
        for dp, dn, fn in sorted(os.walk(os.path.join(root, base))):
            dn.sort()
            if 'tests' in dp.split(os.sep) or '__pycache__' in dp:
                continue
            for f in sorted(fn):
                if f.endswith(('.py', '.cpp')):
                    h.update(f.encode())
                    h.update(open(os.path.join(dp, f), 'rb').read())
    return h.hexdigest()[:20]


COVERAGE_GUARD = re.compile(r'checked(\[.*\])?$')


def load_baseline(prop):
    p = os.path.join(VERIF, 'baseline', f'{prop}.json')
    if os.path.exists(p):
        return json.load(open(p))
    return None


def _aggregate_obligations(verdicts):
    agg = {}
    for v in verdicts:
        k = (v['name'], v['tag'], v['status'], v['backend'])
        agg[k] = agg.get(k, 0) + 1
    return [{'name': k[0], 'tag': k[1], 'status': k[2], 'backend': k[3], 'paths': n} for k, n in agg.items()]


def finish(prop, spec, results, bounded, tier, seed, t0, verbose=False, partial=False, record=False):
    known = open_findings(prop)
    base = load_baseline(prop)
    th = tree_hash()
    base_proved = set(base['proved']) if base else set()
    tree_changed = bool(base) and base.get('tree_hash') != th
    known_ids = {f['id'] for f in known}
    verdicts = []
    defects, undecided = [], []
    functions = []
    solver_time = 0.0
    max_q = 0.0
    backends = {}
    for r in results:
        functions.append({'unit': r['unit'], 'target': r['target'], 'source_hash': r.get('info', {}).get('source_hash'),
                          'paths': r.get('info', {}).get('paths'), 'status': r['status'],
                          'dropped_calls': r.get('info', {}).get('dropped_calls')})
        if r['status'] == 'defect' and tree_changed and str(r.get('error', '')).startswith('engine exception'):
            # a sidecar that trips over the shape of CHANGED code (a value it expected symbolic is now a literal, a local is gone ...)
            # could not evaluate its contract there: undecided.  On the tree the baseline was recorded from the same exception is a
            # defect of the checker (exit 3)
            undecided.append((r['unit'], 'the sidecar could not evaluate its contract on the changed code: ' + str(r.get('error', '')).strip().splitlines()[-1][:200]))
        elif r['status'] == 'defect':
            defects.append((r['unit'], r.get('error', '')))
        elif r['status'] == 'undecided':
            undecided.append((r['unit'], r.get('error', '')))
        shape0 = (base or {}).get('loop_shapes', {}).get(r['unit'])
        shape1 = r.get('info', {}).get('loop_shape')
        reshaped = bool(base) and shape0 is not None and shape1 is not None and shape0 != shape1
        for v in r['verdicts']:
            v['unit'] = r['unit']
            v['loops_reshaped'] = reshaped
            v['unit_unknown_used'] = r.get('info', {}).get('unknown_used') or []
            verdicts.append(v)
            solver_time += v['seconds']
            max_q = max(max_q, v['seconds'])
            if v['status'] == 'proved':
                backends[v['backend']] = backends.get(v['backend'], 0) + 1
    violations, known_hits, drift = [], [], []
    discharged = 0
    counted = 0
    for v in verdicts:
        tag = v['tag']
        if tag.startswith('known:'):
            fid = tag.split(':', 1)[1]
            if v['status'] == 'refuted':
                known_hits.append((fid, v))
            elif v['status'] == 'proved':
                v['note'] = f'known finding {fid} no longer reproduces on this obligation'
            continue
        counted += 1
        if v['status'] == 'proved':
            discharged += 1
        elif v['status'] == 'refuted':
            if tag == 'helper':
                drift.append(v)
            elif v.get('loops_reshaped'):
                # the loops of this function are not the loops the baseline was recorded with (a loop added, removed, re-nested or given
                # another header): the loop contracts, attached by ordinal, describe other loops.  Whatever fails in this unit is undecided
                undecided.append((v['name'], 'the loop structure of the function changed; its loop contracts are attached by ordinal and need re-attaching'))
            elif (v.get('meta') or {}).get('library_unknowns_on_path'):
                # the path this obligation speaks about went through a library / module-level object nobody under contract models
                # (typically the real body of a renamed helper, inlined): its result was over-approximated as arbitrary, so the
                # counter-model need not be an execution.  Undecided - the stand-ins decide on real executions.
                undecided.append((v['name'], 'refuted only under an arbitrary result of unmodelled library objects: '
                                  + ', '.join(v['meta']['library_unknowns_on_path'][:5])))
            elif COVERAGE_GUARD.search(v['name']) and v.get('unit_unknown_used'):
                # a coverage guard counts the paths / call sites the contract is written for.  When the unit ran into code the engine has
                # no model for (over-approximated as unknown), too few of them means the contract could not SEE the code - undecided.
                # With everything interpreted the same guard failing means the code really lacks them, and stays a violation.
                undecided.append((v['name'], 'coverage guard not met while the unit used unmodelled state/callables: '
                                  + ', '.join(v['unit_unknown_used'][:5])))
            else:
                violations.append(v)
        elif tree_changed and v['name'] in base_proved and not (v.get('meta') or {}).get('library_unknowns_on_path') and not v.get('loops_reshaped'):
            # discharged on the recorded baseline tree, not dischargeable on this (changed) tree
            v['regressed'] = True
            violations.append(v)
        else:
            undecided.append((v['name'], v.get('reason') or 'solver unknown'))
    bviol = []
    bounded_summ = []
    for b in bounded:
        summ = {k: b.get(k) for k in ('name', 'status', 'cases', 'distinct', 'bound', 'seconds', 'error', 'exhaustive')}
        summ['failures'] = []
        if b['status'] == 'error':
            defects.append((b['name'], (b.get('error') or '') + ' ' + (b.get('stderr') or '')[-1500:]))
        for f in b.get('failures', []):
            cls = f.get('class')
            if cls in known_ids or (cls and is_open(cls)):
                # the stand-in classifies a failing case by the witness class of a listed finding; a stand-in shared between properties
                # (the store conformance runs under C02/C03/C06/C08/C13) meets the same listed defect whatever property it runs under
                known_hits.append((cls, {'name': b['name'], 'bounded': True, 'case': f}))
            else:
                bviol.append((b, f))
            summ['failures'].append(f)
        bounded_summ.append(summ)

    lines = []
    exit_code = 0
    # replays for violations
    spec_replays = getattr(spec, 'REPLAYS', {})
    units_by_name = {getattr(u, 'name', None): u for u in getattr(spec, 'UNITS', [])}
    for v in violations:
        rp = None
        # units whose parameters are scalars: the solver's counter-model is an input of the real function -> replay it natively
        nat = getattr(units_by_name.get(v.get('unit')), 'native', None)
        if nat and v.get('model') and not v.get('regressed'):
            rp = {'script': 'bounded/native_replay.py', 'payload': {'oracle': nat[0], 'model': v['model'], 'extra': nat[1] if len(nat) > 1 else {}}}
        for key, fn in (spec_replays.items() if rp is None else []):
            if v['name'].startswith(key) or key in v['name']:
                try:
                    rp = fn(v)
                except Exception as e:
                    rp = {'error': f'replay builder failed: {e}'}
                break
        reproduced = False
        native = None
        if rp and rp.get('script'):
            native = run_py(rp['script'], rp['payload'])
            reproduced = bool(native.get('reproduced'))
        path = write_replay(prop, v['name'], {
            'property': prop, 'obligation': v['name'], 'status': v['status'], 'tier': tier,
            'solver': {'backend': v['backend'], 'model': v.get('model'), 'goal': v.get('goal'), 'reason': v.get('reason')},
            'replay': rp, 'native_result': native, 'reproduced': reproduced,
            'note': None if reproduced else ('no-failing-input-found: ' + (
                'this obligation was discharged on the recorded baseline tree and no back end can discharge it on the current (changed) tree'
                if v.get('regressed') else 'the obligation is refuted by the solver but the model was not reproduced natively')),
        })
        lines.append(f'VIOLATION property={prop} replay={path}' + ('' if reproduced else ' obligation=' + v['name'] + ' no-failing-input-found'))
        exit_code = 1
    for b, f in bviol:
        path = write_replay(prop, b['name'] + '.' + str(f.get('id', 'case')), {
            'property': prop, 'obligation': b['name'], 'status': 'bounded-counterexample', 'tier': tier,
            'replay': {'script': b_script(spec, b['name']), 'payload': {'only_case': f.get('case'), 'name': b['name'], 'tier': tier, 'seed': seed}},
            'case': f, 'reproduced': True})
        lines.append(f'VIOLATION property={prop} replay={path}')
        exit_code = 1
    seen = set()
    for fid, v in known_hits:
        if fid in seen:
            continue
        seen.add(fid)
        f = next((x for x in known if x['id'] == fid), None) or next((x for x in open_findings() if x['id'] == fid), None)
        if f is None:
            continue
        # a finding recorded under another property can surface through a shared contract: it is the same listed defect
        lines.append(f'KNOWN-FINDING: property={prop} {fid} {f["what"]}' + ('' if f['property'] == prop else f' (recorded under {f["property"]})'))
    for f in known:
        if f['id'] not in seen and not partial:
            lines.append(f'NOTE: known finding {f["id"]} of {prop} was not reproduced by this run')
    if exit_code == 0 and defects:
        exit_code = 3
        for u, e in defects:
            lines.append(f'CHECKER-DEFECT property={prop} unit={u}: {e[-1500:]}')
    if exit_code == 0 and (undecided or drift):
        exit_code = 2
        for u, e in undecided:
            lines.append(f'UNDECIDED property={prop} {u}: {e[:600]}')
        for v in drift:
            lines.append(f'UNDECIDED property={prop} HELPER-DRIFT {v["name"]} refuted (helper obligation, not a property violation); model={json.dumps(v.get("model"))[:300]}')
    if verbose:
        for v in verdicts:
            print(f'  [{v["status"]:9}] {v["tag"]:8} {v["name"]}  ({v["backend"]}, {v["seconds"]}s)')
        for u, e in undecided:
            print('  UNDECIDED', u, e[:3000])
        for u, e in defects:
            print("  DEFECT", u, e[-3000:])

    # evidence ---------------------------------------------------------------
    level = getattr(spec, 'LEVEL', 'proof')
    samples = []
    for v in verdicts[:]:
        if v['status'] == 'proved' and v['tag'] == 'top' and len(samples) < 3:
            samples.append({'obligation': v['name'], 'goal': v.get('goal'), 'backend': v['backend'], 'seconds': v['seconds']})
    if not samples:
        for v in verdicts[:3]:
            samples.append({'obligation': v['name'], 'goal': v.get('goal'), 'status': v['status']})
    cov = {
        'obligations': counted,
        'discharged': discharged,
        'checker_cmd': f'./check {prop} --tier {tier}',
        'trusted_base': list(getattr(spec, 'TRUSTED', [])),
        'functions_under_contract': functions,
        'discharged_by_backend': backends,
        'solver_seconds_total': round(solver_time, 3),
        'solver_seconds_max_query': round(max_q, 3),
        # one entry per (name, tag, status, back end); `paths` = on how many program paths an obligation of that name was generated
        'obligation_names': _aggregate_obligations(verdicts),
        'helper_drift': [v['name'] for v in drift],
        'tree_hash': th, 'baseline_tree_hash': base.get('tree_hash') if base else None,
        'undecided': [u for u, _ in undecided],
        'known_findings_reproduced': sorted(seen),
        'bounded_stand_ins': bounded_summ,
        'bounded_note': 'bounded stand-ins are labelled bounded and are NOT counted in obligations/discharged',
        'extraction_drops': 'calls on the observer allow-list (logger.*, logging.*, tqdm trackers, display_status/danger) are executed as skip; annotations/docstrings ignored; decorators replaced by assumed contracts',
        'samples': samples,
    }
    if level != 'proof' or counted == 0:
        cases = sum((b.get('cases') or 0) for b in bounded)
        distinct = sum((b.get('distinct') or 0) for b in bounded)
        cov.update({'evaluations': cases, 'distinct_nontrivial': distinct,
                    'rule': getattr(spec, 'RULE', 'see bounded_stand_ins[].bound')})
        if samples == [] or level != 'proof':
            bs = [s for b in bounded for s in (b.get('samples') or [])][:3]
            cov['samples'] = bs or samples or ['(none)']
    ev = {
        'property_id': prop, 'tier': tier, 'seed': seed, 'level': level,
        'coverage': cov,
        'assumptions': list(getattr(spec, 'ASSUMPTIONS', [])),
        'wall_s': round(time.time() - t0, 2),
        'violations': len(violations) + len(bviol),
    }
    if record and exit_code == 0 and not partial:
        os.makedirs(os.path.join(VERIF, 'baseline'), exist_ok=True)
        with open(os.path.join(VERIF, 'baseline', f'{prop}.json'), 'w') as f:
            json.dump({'tree_hash': th, 'proved': sorted({v['name'] for v in verdicts if v['status'] == 'proved'}),
                       'loop_shapes': {r['unit']: r.get('info', {}).get('loop_shape') for r in results if r.get('info', {}).get('loop_shape')}}, f, indent=0)
    if not partial and not os.environ.get('VF_NO_EVIDENCE'):
        os.makedirs(os.path.join(VERIF, 'evidence'), exist_ok=True)
        with open(os.path.join(VERIF, 'evidence', f'{prop}.json'), 'w') as f:
            json.dump(ev, f, indent=1, default=str)
    for l in lines:
        print(l)
    print(f'{prop}: tier={tier} obligations={counted} discharged={discharged} violations={len(violations) + len(bviol)} '
          f'known={len(seen)} undecided={len(undecided)} drift={len(drift)} defects={len(defects)} '
          f'bounded={[(b["name"], b["status"], b.get("cases")) for b in bounded]} wall={ev["wall_s"]}s exit={exit_code}')
    return exit_code


def b_script(spec, name):
    for b in getattr(spec, 'BOUNDED', []):
        if b['name'] == name:
            return b['script']
    return None
