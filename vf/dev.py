"""developer helper: python3-vt -m vf.dev <prop> [unit-substring]  (raises tracebacks)"""
import sys, importlib, time
sys.path.insert(0, __import__('vf').VERIF)
from vf import solve
prop = sys.argv[1]
spec = importlib.import_module(f'specs.{prop}')
for u in spec.UNITS:
    if len(sys.argv) > 2 and sys.argv[2] not in u.name:
        continue
    t0 = time.time()
    obs, info, res = u.execute()
    print(u.name, info.get('paths'), 'paths', len(obs), 'obligations', f'{time.time()-t0:.2f}s exec')
    for ob in obs:
        v = solve.prove(ob)
        flag = '' if v.status == 'proved' else '   <<<<<<'
        print(f'  [{v.status:9}] {ob.tag:7} {ob.name} ({v.backend} {v.seconds:.3f}s){flag}')
        if v.status == 'refuted' and '-m' in sys.argv:
            print('     model:', v.model)
