"""Regenerate /verif/MANIFEST.json from the spec modules: python3-vt -m vf.manifest"""
import importlib, json, os, sys
from . import VERIF
sys.path.insert(0, VERIF)

NA_DEFAULT = 'machinery not built yet (build round in progress)'


def main():
    props = [json.loads(l) for l in open(os.path.join(VERIF, 'properties.jsonl'))]
    checks, na = [], []
    for p in props:
        pid = p['id']
        path = os.path.join(VERIF, 'specs', f'{pid}.py')
        spec = None
        if os.path.exists(path):
            spec = importlib.import_module(f'specs.{pid}')
        if spec is None or not hasattr(spec, 'MANIFEST'):
            na.append({'property_id': pid, 'reason': getattr(spec, 'NOT_APPLICABLE', NA_DEFAULT) if spec else NA_DEFAULT})
            continue
        m = spec.MANIFEST
        checks.append({
            'property_id': pid,
            'quick_cmd': f'./check {pid} --tier quick',
            'thorough_cmd': f'./check {pid} --tier thorough',
            'evidence_file': f'/verif/evidence/{pid}.json',
            'replay_cmd_template': f'./check {pid} --replay {{path}}',
            'engine': 'vf',
            'level_claimed': {'category': getattr(spec, 'LEVEL', 'proof'), 'text': m['text'], 'design_ref': m.get('design_ref', 'DESIGN.md 6')},
            'level_note': m['note'],
            'technique': m['technique'],
        })
    man = {
        'version': 1,
        'setup_cmd': 'python3-vt -c "import z3, sys; sys.path.insert(0, \'/verif\'); import vf.cli" && /usr/bin/cvc5 --version >/dev/null && z3-new --version >/dev/null',
        'hooks': {
            'guard': 'VAULTAH_REPLICAT_VERIF',
            'enable': 'no hooks in /repo: contracts are sidecar files under /verif/specs keyed by structural selectors; closures are reached through the AST (proofs) and through the public API (bounded stand-ins)',
            'baseline_off_cmd': 'cd /repo && /venv/bin/python -m pytest -ra -q -p no:cacheprovider --timeout=900 --continue-on-collection-errors',
            'source_commits': [],
            'add_only': True,
        },
        'engines': [{'name': 'vf', 'path': '/verif/vf', 'serves_properties': [c['property_id'] for c in checks],
                     'kind_free_text': 'own VC generator: symbolic execution of the real Python AST (and a mini C++ front end for next_cut) against sidecar contracts and loop invariants; obligations discharged by z3 / cvc5; bounded stand-ins under /verif/bounded run the real code'}],
        'checks': checks,
        'notes': 'Exit codes of ./check: 0 held, 1 violation (VIOLATION line), 2 undecided, 3 checker defect. known_findings.json lists confirmed defects (open -> KNOWN-FINDING lines, fixed -> suppress nothing).',
        'not_applicable': na,
    }
    with open(os.path.join(VERIF, 'MANIFEST.json'), 'w') as f:
        json.dump(man, f, indent=1)
    import jsonschema
    jsonschema.validate(man, json.load(open('/root/.vp/MANIFEST.schema.json')))
    print('MANIFEST.json:', len(checks), 'checks,', len(na), 'not applicable')


if __name__ == '__main__':
    main()
