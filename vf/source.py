"""Structural selectors into /repo's *current* source (re-read on every run)."""
from __future__ import annotations

import ast
import hashlib
import os

from . import REPO

_cache = {}


def repo_root():
    return os.environ.get('REPO', REPO)


def load_module(relpath):
    path = os.path.join(repo_root(), relpath)
    key = (path, os.stat(path).st_mtime_ns)
    if key not in _cache:
        with open(path, encoding='utf-8') as f:
            text = f.read()
        _cache[key] = (ast.parse(text, filename=path), text)
    return _cache[key]


class SelectorError(Exception):
    pass


def _children_defs(node):
    """defs/classes directly inside `node`'s body (also inside if/try/with at the
    same function level, since nested defs are sometimes conditional)."""
    out = []

    def walk(stmts):
        for s in stmts:
            if isinstance(s, (ast.FunctionDef, ast.AsyncFunctionDef, ast.ClassDef)):
                out.append(s)
            elif isinstance(s, (ast.If, ast.With, ast.AsyncWith, ast.For, ast.While, ast.AsyncFor)):
                walk(s.body)
                walk(getattr(s, 'orelse', []))
            elif isinstance(s, ast.Try):
                walk(s.body)
                for h in s.handlers:
                    walk(h.body)
                walk(s.orelse)
                walk(s.finalbody)

    walk(node.body)
    return out


def select(relpath, dotted, nth=None):
    """`Class.method.nested` -> ast node.  If several siblings share a name
    (requires_auth defines `wrapper` twice) `nth` picks the ordinal (0-based)."""
    tree, text = load_module(relpath)
    node = tree
    parts = dotted.split('.')
    for i, part in enumerate(parts):
        cands = [c for c in _children_defs(node) if c.name == part]
        if not cands:
            raise SelectorError(f'{relpath}::{dotted}: no `{part}`')
        if len(cands) > 1 and i == len(parts) - 1 and nth is not None:
            node = cands[nth]
        elif len(cands) > 1 and i == len(parts) - 1:
            raise SelectorError(f'{relpath}::{dotted}: `{part}` ambiguous ({len(cands)})')
        else:
            node = cands[0]
    return node


def source_of(relpath, node):
    _, text = load_module(relpath)
    return ast.get_source_segment(text, node)


def node_hash(relpath, node):
    seg = source_of(relpath, node) or ''
    return hashlib.sha256(seg.encode()).hexdigest()[:16]


def module_assign(relpath, name):
    """value node of a top-level `name = ...` assignment"""
    tree, _ = load_module(relpath)
    for s in tree.body:
        if isinstance(s, ast.Assign):
            for t in s.targets:
                if isinstance(t, ast.Name) and t.id == name:
                    return s.value
    raise SelectorError(f'{relpath}: no top-level {name}')


def class_attr(relpath, cls, name):
    node = select(relpath, cls)
    for s in node.body:
        if isinstance(s, ast.Assign):
            for t in s.targets:
                if isinstance(t, ast.Name) and t.id == name:
                    return s.value
    raise SelectorError(f'{relpath}::{cls}: no attribute {name}')


def loops_in(fn):
    """ordered loop nodes of a function body, not descending into nested defs.
    Returns dict selector -> node, selectors `For#1`, `While#2`, `AsyncFor#1`
    (ordinal per kind, source order)."""
    out, counts = {}, {}

    def walk(n):
        for c in ast.iter_child_nodes(n):
            if isinstance(c, (ast.FunctionDef, ast.AsyncFunctionDef, ast.ClassDef, ast.Lambda)):
                continue
            if isinstance(c, (ast.For, ast.While, ast.AsyncFor)):
                k = type(c).__name__
                counts[k] = counts.get(k, 0) + 1
                out[f'{k}#{counts[k]}'] = c
            walk(c)

    walk(fn)
    return out


def loop_shape(fn):
    """the loop structure of a function (nested defs included): kind, nesting depth and header text of every loop, in source order.
    Loop contracts are attached by ordinal, so they describe THESE loops; when the shape differs from the one the baseline was recorded
    with, a failing loop obligation says nothing about the property."""
    out = []

    def walk(n, depth):
        for c in ast.iter_child_nodes(n):
            if isinstance(c, (ast.ClassDef, ast.Lambda)):
                continue
            if isinstance(c, (ast.For, ast.AsyncFor)):
                out.append(f'{depth}:{type(c).__name__}:{ast.unparse(c.iter)[:80]}')
                walk(c, depth + 1)
            elif isinstance(c, ast.While):
                out.append(f'{depth}:While:{ast.unparse(c.test)[:80]}')
                walk(c, depth + 1)
            else:
                walk(c, depth)

    walk(fn, 0)
    return out


def decorators(fn):
    return [ast.unparse(d) for d in fn.decorator_list]


def class_mro(relpath, cls):
    """linearisation over the classes defined in the same file (depth first, left to right, first occurrence);
    bases defined elsewhere (ABC, imported classes) are left out"""
    tree, _ = load_module(relpath)
    classes = {c.name: c for c in tree.body if isinstance(c, ast.ClassDef)}
    out = []

    def walk(name):
        if name in out or name not in classes:
            return
        out.append(name)
        for b in classes[name].bases:
            if isinstance(b, ast.Name):
                walk(b.id)
    walk(cls)
    return out


def resolve_method(relpath, cls, name):
    """`Class.name` of the first class in cls' MRO (same file) that defines `name`, or None"""
    for c in class_mro(relpath, cls):
        try:
            node = select(relpath, f'{c}.{name}')
        except SelectorError:
            continue
        if isinstance(node, (ast.FunctionDef, ast.AsyncFunctionDef)):
            return f'{c}.{name}'
    return None


def subclasses(relpath, base):
    """names of the classes of the file that have `base` in their MRO (base excluded), source order"""
    tree, _ = load_module(relpath)
    return [c.name for c in tree.body if isinstance(c, ast.ClassDef) and c.name != base and base in class_mro(relpath, c.name)]


# ---------------------------------------------------------------- memoising decorators
MEMO_DECORATORS = ('lru_cache', 'cache', 'cached_property', 'memoize', 'memoized', 'cached')


_MUTATORS = {'add', 'update', 'append', 'extend', 'insert', 'pop', 'popitem', 'clear', 'remove', 'discard', 'setdefault', 'sort', 'reverse',
             'appendleft', 'extendleft', 'popleft', 'difference_update', 'intersection_update', 'symmetric_difference_update'}
_MUTABLE_CTORS = {'set', 'list', 'dict', 'bytearray', 'defaultdict', 'deque', 'OrderedDict', 'Counter'}


def _mutable_default(d):
    if isinstance(d, (ast.List, ast.Dict, ast.Set, ast.ListComp, ast.DictComp, ast.SetComp)):
        return True
    if isinstance(d, ast.Call):
        head = ast.unparse(d.func).split('.')[-1]
        return head in _MUTABLE_CTORS
    return False


def shared_mutable_defaults(fn):
    """Parameters of fn whose default is a mutable container built ONCE at definition time and which the body changes in place
    (method call from the mutator list, augmented assignment, item/slice store or delete): the container - and with it the function's
    behaviour - carries over from one call to the next.  -> [param names]"""
    if not isinstance(fn, (ast.FunctionDef, ast.AsyncFunctionDef)):
        return []
    a = fn.args
    pos = a.posonlyargs + a.args
    cands = []
    for p, d in zip(pos[len(pos) - len(a.defaults):], a.defaults):
        if _mutable_default(d):
            cands.append(p.arg)
    for p, d in zip(a.kwonlyargs, a.kw_defaults):
        if d is not None and _mutable_default(d):
            cands.append(p.arg)
    if not cands:
        return []
    out = []
    for name in cands:
        rebound_first = False
        hit = False
        for n in ast.walk(fn):
            if isinstance(n, ast.Call) and isinstance(n.func, ast.Attribute) and isinstance(n.func.value, ast.Name) \
                    and n.func.value.id == name and n.func.attr in _MUTATORS:
                hit = True
            elif isinstance(n, ast.AugAssign) and isinstance(n.target, ast.Name) and n.target.id == name:
                hit = True
            elif isinstance(n, (ast.Subscript,)) and isinstance(n.ctx, (ast.Store, ast.Del)) and isinstance(n.value, ast.Name) \
                    and n.value.id == name:
                hit = True
        if hit:
            out.append(name)
    return out


def memo_decorators(fn):
    out = []
    for d in getattr(fn, 'decorator_list', []):
        text = ast.unparse(d)
        head = text.split('(')[0].split('.')[-1]
        if head in MEMO_DECORATORS:
            out.append(text)
    return out


def _self_attr_reads(fn):
    """(attributes of `self` read as data, methods of `self` that are called) in the body of fn"""
    if not fn.args.args:
        return set(), set()
    me = fn.args.args[0].arg
    called, read = set(), set()
    call_funcs = {id(n.func) for n in ast.walk(fn) if isinstance(n, ast.Call)}
    for n in ast.walk(fn):
        if isinstance(n, ast.Attribute) and isinstance(n.value, ast.Name) and n.value.id == me and isinstance(n.ctx, ast.Load):
            (called if id(n) in call_funcs else read).add(n.attr)
    return read, called


def mutable_self_state_read(relpath, dotted):
    """attributes of `self` that the method `Class.method` reads (directly or through methods of the same class it calls) and that some
    method of the class other than __init__/__post_init__ assigns: state a cached result can outlive.  [] for plain functions."""
    parts = dotted.split('.')
    if len(parts) < 2:
        return []
    cls_node = select(relpath, parts[0])
    if not isinstance(cls_node, ast.ClassDef):
        return []
    methods = {m.name: m for m in cls_node.body if isinstance(m, (ast.FunctionDef, ast.AsyncFunctionDef))}
    assigned = set()
    for name, m in methods.items():
        if name in ('__init__', '__post_init__') or not m.args.args:
            continue
        me = m.args.args[0].arg
        for n in ast.walk(m):
            if isinstance(n, ast.Attribute) and isinstance(n.value, ast.Name) and n.value.id == me and isinstance(n.ctx, (ast.Store, ast.Del)):
                assigned.add(n.attr)
            if isinstance(n, ast.Call) and isinstance(n.func, ast.Name) and n.func.id in ('setattr', 'delattr') and len(n.args) >= 2 \
                    and isinstance(n.args[0], ast.Name) and n.args[0].id == me:
                assigned.add(n.args[1].value if isinstance(n.args[1], ast.Constant) else '*')
    seen, todo, reads = set(), [parts[1]], set()
    while todo:
        name = todo.pop()
        if name in seen or name not in methods:
            continue
        seen.add(name)
        r, c = _self_attr_reads(methods[name])
        reads |= r
        # properties are read like data
        todo.extend(c | {x for x in r if x in methods})
    if '*' in assigned:
        return sorted(reads)
    return sorted(reads & assigned)
