"""Symbolic executor for the Python subset used by the target functions.

All-paths execution with forking; loops are cut at sidecar invariants, calls at
sidecar contracts/models.  Anything the engine cannot interpret raises
sym.Unsupported -> the unit is UNDECIDED (never silently skipped, never a
violation).
"""
from __future__ import annotations

import ast
import copy

import z3

from . import sym, source
from .sym import SV, INT, BOOL, REAL, STR, BYTES, Opt, Tup, Ref, Unsupported, lift


# ------------------------------------------------------------------ basics
class Exc:
    """an exception value"""

    def __init__(self, cls, args=(), cause=None, attrs=None):
        self.cls, self.args, self.cause = cls, tuple(args), cause
        self.attrs = attrs or {}

    def __repr__(self):
        return f'Exc({self.cls})'


class Raised:
    def __init__(self, exc):
        self.exc = exc


EXC_PARENTS = {
    'KeyError': 'LookupError', 'IndexError': 'LookupError', 'LookupError': 'Exception',
    'FileNotFoundError': 'OSError', 'FileExistsError': 'OSError', 'PermissionError': 'OSError',
    'NotADirectoryError': 'OSError', 'IsADirectoryError': 'OSError', 'TimeoutError': 'OSError', 'ConnectionError': 'OSError',
    'InterruptedError': 'OSError', 'BlockingIOError': 'OSError',
    'OSError': 'Exception', 'ValueError': 'Exception', 'TypeError': 'Exception',
    'AttributeError': 'Exception', 'AssertionError': 'Exception', 'RuntimeError': 'Exception',
    'StopIteration': 'Exception', 'JSONDecodeError': 'ValueError', 'SyntaxError': 'Exception',
    'ReplicatError': 'Exception', 'DecryptionError': 'ReplicatError',
    'AuthRequired': 'ReplicatError', 'InvalidConfig': 'ReplicatError',
    'InvalidTag': 'Exception',
    'HTTPError': 'Exception', 'HTTPStatusError': 'HTTPError', 'RequestError': 'HTTPError',
    'Full': 'Exception', 'Empty': 'Exception',
    'KeyboardInterrupt': 'BaseException', 'Exception': 'BaseException', 'SystemExit': 'BaseException', 'GeneratorExit': 'BaseException',
    'CancelledError': 'BaseException',
    'BodyError': 'Exception',      # what a `with` body may throw into a context manager
    'AnyError': 'Exception',       # an unspecified exception from an opaque callee
}


def exc_isinstance(cls, handler):
    while cls is not None:
        if cls == handler:
            return True
        cls = EXC_PARENTS.get(cls)
    return False


ASSERTS_MAY_BE_STRIPPED = True


class ExcClass:
    def __init__(self, name):
        self.name = name

    def __repr__(self):
        return f'ExcClass({self.name})'


class GenCM:
    """a REAL `@contextlib.contextmanager` generator function applied to its arguments: `with` runs its body up to the single
    `yield`, then the with-body IN PLACE of the yield (in the caller's frame: an exception of the body is raised at the yield,
    which is what contextmanager does), then the rest of the generator"""

    def __init__(self, closure, args, kwargs):
        self.closure, self.args, self.kwargs = closure, args, kwargs


def is_contextmanager_def(node):
    return (isinstance(node, (ast.FunctionDef, ast.AsyncFunctionDef))
            and [ast.unparse(d) for d in node.decorator_list] in (['contextlib.contextmanager'], ['contextmanager'],
                                                                    ['contextlib.asynccontextmanager'], ['asynccontextmanager']))


def gencm_factory(closure):
    return Model(f'contextmanager:{closure.name}', lambda i, s, a, k: iter([(s, GenCM(closure, list(a), dict(k)))]))


class Obj:
    """Immutable python-level namespace (modules, `self` facades, ...)"""

    def __init__(self, _name='obj', **attrs):
        self._name = _name
        self._attrs = attrs

    def get(self, name):
        if name not in self._attrs:
            src = getattr(self, '_class_source', None)
            if src is not None:
                # a method of the real class the sidecar has no model for (e.g. a helper extracted by a change):
                # the REAL method is inlined, bound to this facade
                dotted = source.resolve_method(src[0], src[1], name)       # the class' own method or an inherited one
                node = source.select(src[0], dotted) if dotted else None
                if isinstance(node, (ast.FunctionDef, ast.AsyncFunctionDef)) and not node.decorator_list:
                    return Closure(node, 0, name, bound_self=self)
                if isinstance(node, (ast.FunctionDef, ast.AsyncFunctionDef)) and [ast.unparse(d) for d in node.decorator_list] == ['staticmethod']:
                    return Closure(node, 0, name)            # a static method: the real function, nothing bound
                if is_contextmanager_def(node):
                    return gencm_factory(Closure(node, 0, name, bound_self=self))
            if getattr(self, '_lenient', False):
                return Unknown(f'{self._name}.{name}', self)
            raise Unsupported(f'{self._name} has no modelled attribute {name!r}')
        return self._attrs[name]

    def __repr__(self):
        return f'Obj({self._name})'


class Unknown:
    """State the sidecar does not know about (e.g. an attribute added by a change): it may hold anything.
    Every observation of it yields a fresh symbolic result, so obligations must hold whatever it contains
    (a sound over-approximation).  Optional hook `owner._on_unknown(interp, st, name)` lets a unit object to
    any dependence on hidden instance state."""

    def __init__(self, name, owner=None):
        self.name, self.owner = name, owner

    def __repr__(self):
        return f'Unknown({self.name})'

    def note(self, interp, st):
        # depth: 0 = observed by the function under contract itself, >= 1 = inside a callee that was inlined for want of a contract
        st.emit('unknown_state_used', name=self.name, depth=len(getattr(interp, 'fn_stack', []) or []))
        hook = getattr(self.owner, '_on_unknown', None)
        if hook is not None:
            hook(interp, st, self.name)

    def vf_getattr(self, interp, st, name):
        self.note(interp, st)
        u = Unknown(f'{self.name}.{name}', self.owner)
        yield st, Model(u.name, lambda i, s, a, k: iter([(s, Unknown(u.name + '()', self.owner))]))


class PyRef:
    """reference to a concrete-shaped python container held in State.store"""

    def __init__(self, id_, kind):
        self.id, self.kind = id_, kind

    def __repr__(self):
        return f'PyRef({self.kind}#{self.id})'


class NTup(tuple):
    """named tuple value"""
    names = ()


def make_ntup(names, values):
    t = NTup(values)
    t.names = tuple(names)
    return t


class Closure:
    def __init__(self, node, env, name=None, bound_self=None):
        self.node, self.env, self.name = node, env, name or getattr(node, 'name', '<lambda>')
        self.bound_self = bound_self


class Model:
    """A modelled callee.  fn(interp, st, args, kwargs) yields (st, value|Raised)"""

    def __init__(self, name, fn):
        self.name, self.fn = name, fn

    def __repr__(self):
        return f'Model({self.name})'


class Bound:
    """method of a symbolic/py value bound at attribute-access time"""

    def __init__(self, recv, name):
        self.recv, self.name = recv, name


class Event:
    def __init__(self, kind, **data):
        self.kind, self.data = kind, data

    def __getattr__(self, k):
        try:
            return self.data[k]
        except KeyError:
            raise AttributeError(k)

    def __repr__(self):
        return f'Event({self.kind}, {self.data})'


class State:
    def __init__(self):
        self.pc = []
        self.frames = {0: ({}, None, set())}
        self.cur = 0
        self.frame_n = 0
        self.heap = sym.Heap()
        self.heap.owner = self
        self.store = {}
        self.events = []
        self.ghost = {}
        self.exc_stack = []
        self.alloc_base = z3.Int('R0')
        self.alloc_n = 0
        self.store_n = 0
        self.locks_held = ()
        self.notes = []
        self.frozen = frozenset()

    def mutating(self, ref):
        """called before a concrete-shaped container is mutated or interned"""
        if ref.id in self.frozen:
            raise Unsupported('a concrete-shaped container created before a cut loop is mutated inside it: '
                              'give the variable a heap type hint (local_types) in the sidecar')

    def copy(self):
        s = State.__new__(State)
        s.pc = list(self.pc)
        s.frames = {k: (dict(v[0]), v[1], set(v[2])) for k, v in self.frames.items()}
        s.cur, s.frame_n = self.cur, self.frame_n
        s.heap = self.heap.copy()
        s.heap.owner = s
        s.store = {k: (copy.copy(v) if isinstance(v, (list, dict, set)) else v) for k, v in self.store.items()}
        s.events = list(self.events)
        s.ghost = dict(self.ghost)
        s.exc_stack = list(self.exc_stack)
        s.alloc_base, s.alloc_n, s.store_n = self.alloc_base, self.alloc_n, self.store_n
        s.locks_held = self.locks_held
        s.notes = list(self.notes)
        s.frozen = self.frozen
        return s

    # environments: frames addressed by id so closures survive forks
    def push_frame(self, parent):
        self.frame_n += 1
        self.frames[self.frame_n] = ({}, parent, set())
        self.cur = self.frame_n
        return self.frame_n

    def lookup(self, name):
        f = self.cur
        while f is not None:
            vars_, parent, _ = self.frames[f]
            if name in vars_:
                return vars_[name]
            f = parent
        raise Unsupported(f'unbound name {name!r}')

    def has(self, name):
        f = self.cur
        while f is not None:
            vars_, parent, _ = self.frames[f]
            if name in vars_:
                return True
            f = parent
        return False

    def assign(self, name, val):
        vars_, parent, nonlocals = self.frames[self.cur]
        if name in nonlocals:
            f = parent
            while f is not None:
                v2, p2, _ = self.frames[f]
                if name in v2:
                    v2[name] = val
                    return
                f = p2
            raise Unsupported(f'nonlocal {name} not found')
        vars_[name] = val

    def assume(self, z):
        if z3.is_true(z):
            return
        self.pc.append(z)

    def alloc(self):
        r = self.alloc_base + self.alloc_n
        self.alloc_n += 1
        return z3.simplify(r)

    def new_py(self, kind, value):
        self.store_n += 1
        key = self.store_n
        self.store[key] = value
        return PyRef(key, kind)

    def emit(self, kind, **data):
        ev = Event(kind, pc_len=len(self.pc), locks=self.locks_held, **data)
        self.events.append(ev)
        return ev


class Obligation:
    def __init__(self, name, pc, goal, tag='top', meta=None):
        self.name, self.pc, self.goal, self.tag = name, list(pc), goal, tag
        self.meta = meta or {}


class LoopSpec:
    """inv(ctx) -> z3 Bool.  ctx has .st, .k (iterations done), .n, .elem(i),
    .entry (state at loop entry).  modifies: names / ('heap', cls, field) /
    ('ghost', name)."""

    def __init__(self, inv, modifies=(), decreases=None, name=None, unroll=False, tag='top', types=None):
        self.inv, self.modifies, self.decreases, self.name = inv, tuple(modifies), decreases, name
        self.unroll = unroll
        self.tag = tag
        self.types = types or {}
        self.at_end = None
        self.at_entry = None


class LoopCtx:
    def __init__(self, st, k, n, elem, entry, interp):
        self.st, self.k, self.n, self.elem, self.entry, self.interp = st, k, n, elem, entry, interp

    def v(self, name):
        x = self.st.lookup(name)
        return x.z if isinstance(x, SV) else x

    def v0(self, name):
        x = self.entry.lookup(name)
        return x.z if isinstance(x, SV) else x

    def g(self, name):
        x = self.st.ghost[name]
        return x.z if isinstance(x, SV) else x

    def frontier(self):
        return self.st.alloc_base + self.st.alloc_n


class IterSpec:
    """abstract iteration domain: n (z3 Int, or None when unbounded) and elem(i)"""

    def __init__(self, n, elem, assumptions=(), on_next=None):
        self.n, self.elem, self.assumptions = n, elem, list(assumptions)
        self.on_next = on_next


OUT_NORMAL = ('normal',)


class Interp:
    FEAS_TIMEOUT_MS = 150

    def __init__(self, unit_name='unit', loops=None, contextmanager=False, drop=None, max_paths=4000,
                 local_types=None):
        self.unit_name = unit_name
        self.local_types = local_types or {}
        self.loops = loops or {}
        self.loop_nodes = {}
        self.obligations = []
        self.contextmanager = contextmanager
        self.paths = 0
        self.max_paths = max_paths
        self.dropped_calls = {}
        self.drop = drop if drop is not None else DEFAULT_DROP
        self.solver_checks = 0
        self.on_yield = None
        self.fn_stack = []
        self.loop_paths = {}

    # ---------------------------------------------------------- utilities
    _hq = {}

    @classmethod
    def has_quant(cls, z):
        k = z.get_id()
        r = cls._hq.get(k)
        if r is None:
            if z3.is_quantifier(z):
                r = True
            elif z3.is_app(z):
                r = any(cls.has_quant(c) for c in z.children())
            else:
                r = False
            cls._hq[k] = r
        return r

    def feasible(self, st):
        """path pruning only: checks the quantifier-free part of the path condition
        (an over-approximation: infeasible paths that survive are harmless)"""
        s = z3.Solver()
        s.set('timeout', self.FEAS_TIMEOUT_MS)
        s.add(*[c for c in st.pc if not self.has_quant(c)])
        self.solver_checks += 1
        return s.check() != z3.unsat

    def branch(self, st, cond):
        """cond: z3 Bool -> yields (st, bool)"""
        cond = z3.simplify(cond)
        if z3.is_true(cond):
            yield st, True
            return
        if z3.is_false(cond):
            yield st, False
            return
        a = st.copy()
        a.assume(cond)
        if self.feasible(a):
            yield a, True
        b = st
        b.assume(z3.Not(cond))
        if self.feasible(b):
            yield b, False

    def oblige(self, st, name, goal, tag='top', meta=None, split=False):
        lib = sorted({str(e.data.get('name')) for e in st.events if e.kind == 'unknown_state_used' and str(e.data.get('name', '')).startswith('module:')
                      and e.data.get('depth', 0) >= 1})[:8]
        if lib:
            meta = dict(meta or {}, library_unknowns_on_path=lib)
        if split and z3.is_and(goal) and goal.num_args() > 1:
            for j, c in enumerate(goal.children()):
                self.obligations.append(Obligation(f'{self.unit_name}.{name}/{j}', st.pc, c, tag, meta))
            return
        self.obligations.append(Obligation(f'{self.unit_name}.{name}', st.pc, goal, tag, meta))

    # truthiness ---------------------------------------------------------
    def truth(self, st, v):
        """-> z3 Bool"""
        if isinstance(v, bool):
            return z3.BoolVal(v)
        if v is None:
            return z3.BoolVal(False)
        if isinstance(v, (int, float, str, bytes, tuple)):
            return z3.BoolVal(bool(v))
        if isinstance(v, PyRef):
            return z3.BoolVal(bool(self.deref(st, v))) if not isinstance(self.deref(st, v), SV) else self.truth(st, self.deref(st, v))
        if isinstance(v, SV):
            t = v.ty
            if t == BOOL:
                return v.z
            if t == INT:
                return v.z != 0
            if t == REAL:
                return v.z != 0
            if t in (STR, BYTES):
                return z3.Length(v.z) > 0
            if isinstance(t, Opt):
                inner = SV(t.inner, t.val(v.z))
                if isinstance(t.inner, (Ref, sym.Opaque)) and getattr(getattr(t.inner, 'cls', None), 'kind', None) is None:
                    return z3.Not(t.is_none(v.z))
                return z3.And(z3.Not(t.is_none(v.z)), self.truth(st, inner))
            if isinstance(t, Ref):
                kind = getattr(t.cls, 'kind', None)
                if kind == 'list':
                    return st.heap.read(t.cls, 'len', v.z) > 0
                if kind == 'set':
                    m = st.heap.read(t.cls, 'm', v.z)
                    x = z3.Const(sym.fresh_name('w'), t.cls.elem.sort())
                    return z3.Exists([x], z3.Select(m, x))
                if kind == 'dict':
                    m = st.heap.read(t.cls, 'has', v.z)
                    x = z3.Const(sym.fresh_name('w'), t.cls.kt.sort())
                    return z3.Exists([x], z3.Select(m, x))
                return z3.BoolVal(True)
            if isinstance(t, sym.Opaque):
                tr = getattr(t, 'truth', None)
                if tr is not None:
                    return tr(v.z)
                return z3.BoolVal(True)
        if isinstance(v, Unknown):
            v.note(self, st)
            return z3.Bool(sym.fresh_name('unknown_truth'))
        if isinstance(v, (Obj, Model, Closure, ExcClass, Bound)):
            return z3.BoolVal(True)
        raise Unsupported(f'truth of {v!r}')

    def deref(self, st, r):
        """contents of a concrete-shaped container; anything else (unknown state, a symbolic value) is returned as it
        is, so that sidecars can state `isinstance(x, dict)` as an obligation instead of crashing"""
        if not isinstance(r, PyRef):
            return r
        return st.store[r.id]

    # ---------------------------------------------------------- expressions
    def ev(self, node, st):
        m = getattr(self, 'ev_' + type(node).__name__, None)
        if m is None:
            raise Unsupported(f'expression {type(node).__name__} at line {getattr(node, "lineno", "?")}')
        yield from m(node, st)

    def ev_seq(self, nodes, st):
        results = [(st, [])]
        for n in nodes:
            new = []
            for s, vals in results:
                if vals and isinstance(vals[-1], Raised):
                    new.append((s, vals))
                    continue
                for s2, v in self.ev(n, s):
                    new.append((s2, vals + [v]))
            results = new
        for s, vals in results:
            if vals and isinstance(vals[-1], Raised):
                yield s, vals[-1]
            else:
                yield s, vals

    def ev_Constant(self, node, st):
        yield st, node.value

    def ev_Name(self, node, st):
        try:
            yield st, st.lookup(node.id)
        except Unsupported:
            # a module-level constant of the file the unit comes from (literal values only)
            rel = getattr(self, 'relpath', None)
            if rel is None:
                raise
            top = getattr(self, 'unit_node', None)
            if top is not None and isinstance(top, (ast.FunctionDef, ast.AsyncFunctionDef)) and any(
                    a.arg == node.id for a in top.args.posonlyargs + top.args.args + top.args.kwonlyargs):
                # a parameter of the function a REGION unit is cut from, which the sidecar did not need so far
                yield st, Unknown(f'param:{node.id}')
                return
            if top is not None and any(isinstance(n, ast.Name) and n.id == node.id and isinstance(n.ctx, ast.Store) for n in ast.walk(top)):
                # a local that is assigned on other paths only: unbound here (UnboundLocalError) or, inside a cut loop,
                # whatever an earlier iteration left in it -> an arbitrary value
                st.emit('possibly_unbound_local', name=node.id)
                yield st, Unknown(f'local:{node.id}')
                return
            try:
                fnode = source.select(rel, node.id)
            except Exception:
                fnode = None
            if isinstance(fnode, (ast.FunctionDef, ast.AsyncFunctionDef)) and not fnode.decorator_list:
                # a module-level helper of the same file that no sidecar models (e.g. extracted by a change): the REAL
                # function, inlined
                yield st, Closure(fnode, 0, node.id)
                return
            if is_contextmanager_def(fnode):
                yield st, gencm_factory(Closure(fnode, 0, node.id))
                return
            if isinstance(fnode, (ast.FunctionDef, ast.AsyncFunctionDef)) and fnode.decorator_list:
                if len(source.memo_decorators(fnode)) == len(fnode.decorator_list):
                    # a MEMOISED module-level helper: a call either runs the real body or is answered from the cache - then
                    # nothing of the body happens (no effect is repeated) and the result is that of an EARLIER call with equal
                    # arguments, i.e. unknown state from this call's point of view
                    inner = Closure(fnode, 0, node.id)
                    name = node.id

                    def memoised(interp, st2, args, kwargs, inner=inner, name=name):
                        hit = st2.copy()
                        hit.emit('memo_hit', function=name)
                        yield hit, Unknown(f'cached:{name}()')
                        yield from interp.call_closure(st2, inner, args, kwargs)

                    yield st, Model(f'memoised:{name}', memoised)
                    return
                # some other decorator the engine has no semantics for: an unknown callable
                yield st, Unknown(f'module:{node.id}')
                return
            if top is not None and self._assigned_in_enclosing_function(rel, top, node.id):
                # a variable of an ENCLOSING function that the sidecar does not bind (a closure variable a change started
                # to use): whatever the enclosing function holds there
                st.emit('unknown_closure_variable', name=node.id)
                yield st, Unknown(f'closure:{node.id}')
                return
            try:
                v = ast.literal_eval(source.module_assign(rel, node.id))
                if isinstance(v, (dict, list, set)):
                    # a module-level MUTABLE object is shared by all calls (and all instances): if this function can
                    # mutate it - directly or through a local alias - its contents on entry are whatever earlier calls
                    # left there; otherwise it is a constant table
                    if top is not None and self._mutates_module_object(top, node.id):
                        st.emit('shared_module_state_used', name=node.id)
                        yield st, Unknown(f'module:{node.id}')
                        return
                    v = st.new_py({dict: 'dict', list: 'list', set: 'set'}[type(v)], v if not isinstance(v, set) else list(v))
            except Exception:
                # a name the module imports but no sidecar models (e.g. an import added by a change): an unknown
                # library object; whatever is computed from it is unconstrained
                tree, _ = source.load_module(rel)
                imported = {(a.asname or a.name).split('.')[0] for n in tree.body if isinstance(n, (ast.Import, ast.ImportFrom)) for a in n.names}
                assigned = {t.id for n in tree.body if isinstance(n, ast.Assign) for t in n.targets if isinstance(t, ast.Name)}
                classes = {n.name for n in tree.body if isinstance(n, ast.ClassDef)}
                if node.id not in imported | assigned | classes:
                    raise Unsupported(f'unbound name {node.id!r}')
                # an imported name, a module-level object that is not a literal, or a class of the module, none of which a
                # sidecar models: an unknown object
                v = Unknown(f'module:{node.id}')
                if node.id == 'time' and node.id in imported and any(
                        isinstance(n, ast.Import) and any(a.name == 'time' and a.asname is None for a in n.names) for n in tree.body):
                    # the standard `time` module, bound by no sidecar: sleeping changes no program state, clock readings are arbitrary reals
                    yield st, default_time_module()
                    return
                if node.id in assigned:
                    # a module-level name bound once, at import, to a non-literal expression (`X = f(b'')`): evaluate the initialiser
                    # here - taken only when it has exactly one outcome and the value is immutable (then "computed at import" and
                    # "computed at use" cannot be told apart)
                    depth = self.__dict__.setdefault('_module_init_depth', 0)
                    if depth < 3:
                        self._module_init_depth = depth + 1
                        try:
                            probe = st.copy()
                            saved = probe.cur
                            probe.cur = 0
                            n_ev, n_pc = len(probe.events), len(probe.pc)
                            outs = list(self.ev(source.module_assign(rel, node.id), probe))
                            if len(outs) == 1 and not isinstance(outs[0][1], Raised) and isinstance(outs[0][1], (SV, str, bytes, int, float, bool)) \
                                    and not isinstance(outs[0][1], Unknown) \
                                    and not any(e.kind != 'typing' for e in outs[0][0].events[n_ev:]):
                                for c in outs[0][0].pc[n_pc:]:
                                    st.assume(c)            # definitional facts of the value (e.g. hash of the literal)
                                yield st, outs[0][1]
                                return
                        except (Unsupported, z3.Z3Exception, KeyError, AttributeError, TypeError, ValueError):
                            pass
                        finally:
                            self._module_init_depth = depth
                const = self._imported_repo_constant(rel, tree, node.id)
                if const is not None:
                    yield st, const[0]
                    return
                helper = self._imported_repo_helper(rel, tree, node.id)
                if helper is not None:
                    # a plain function imported from a sibling module of the repository (e.g. a helper a change moved there): the REAL
                    # function, inlined - only when its body needs nothing from its own module's namespace
                    yield st, Closure(helper, 0, node.id)
                    return
                # ... except the few library objects whose meaning is fixed and matters for control flow
                for n in tree.body:
                    if isinstance(n, ast.ImportFrom) and n.module == 'contextlib':
                        for a in n.names:
                            if (a.asname or a.name) == node.id and a.name == 'suppress':
                                v = _SUPPRESS
                    if isinstance(n, ast.Import):
                        for a in n.names:
                            if (a.asname or a.name) == node.id and a.name == 'contextlib':
                                v = Obj('contextlib', suppress=_SUPPRESS)
                                v._lenient = True
            yield st, v

    @staticmethod
    def _imported_repo_constant(rel, tree, name):
        """`from .mod import NAME` where NAME is a module-level literal (int / str / bytes / bool / None) of a sibling module of the
        repository: -> (value,) or None"""
        import os
        from . import source
        for n in tree.body:
            if not (isinstance(n, ast.ImportFrom) and n.level >= 1):
                continue
            for a in n.names:
                if (a.asname or a.name) != name:
                    continue
                base = os.path.dirname(rel)
                for _ in range(n.level - 1):
                    base = os.path.dirname(base)
                cand = os.path.join(base, *(n.module.split('.') if n.module else [])) + '.py'
                try:
                    v = ast.literal_eval(source.module_assign(cand, a.name))
                except Exception:
                    return None
                if v is None or isinstance(v, (int, str, bytes, bool, float)):
                    return (v,)
                return None
        return None

    @staticmethod
    def _imported_repo_helper(rel, tree, name):
        import builtins, os
        from . import source, models
        for n in tree.body:
            if not (isinstance(n, ast.ImportFrom) and n.level >= 1):
                continue
            for a in n.names:
                if (a.asname or a.name) != name:
                    continue
                base = os.path.dirname(rel)
                for _ in range(n.level - 1):
                    base = os.path.dirname(base)
                cand = os.path.join(base, *(n.module.split('.') if n.module else [])) + '.py'
                try:
                    fnode = source.select(cand, a.name)
                except Exception:
                    return None
                if not isinstance(fnode, (ast.FunctionDef, ast.AsyncFunctionDef)) or fnode.decorator_list:
                    return None
                bound = {x.arg for x in ast.walk(fnode) if isinstance(x, ast.arg)}
                bound |= {x.id for x in ast.walk(fnode) if isinstance(x, ast.Name) and isinstance(x.ctx, ast.Store)}
                bound |= {x.name for x in ast.walk(fnode) if isinstance(x, (ast.FunctionDef, ast.AsyncFunctionDef)) and x is not fnode}
                free = {x.id for x in ast.walk(fnode) if isinstance(x, ast.Name) and isinstance(x.ctx, ast.Load)} - bound
                if all(hasattr(builtins, f) or f in models.BUILTINS for f in free):
                    return fnode
                return None
        return None

    @staticmethod
    def _assigned_in_enclosing_function(rel, fn, name):
        try:
            tree, _ = source.load_module(rel)
        except Exception:
            return False
        for outer in ast.walk(tree):
            if isinstance(outer, (ast.FunctionDef, ast.AsyncFunctionDef)) and outer is not fn and any(n is fn for n in ast.walk(outer)):
                for n in ast.walk(outer):
                    if isinstance(n, ast.Name) and n.id == name and isinstance(n.ctx, ast.Store):
                        return True
                    if isinstance(n, ast.arg) and n.arg == name:
                        return True
        return False

    @staticmethod
    def _mutates_module_object(fn, name):
        aliases = {name}
        for n in ast.walk(fn):
            if isinstance(n, ast.Assign) and isinstance(n.value, ast.Name) and n.value.id in aliases:
                aliases |= {t.id for t in n.targets if isinstance(t, ast.Name)}
        for n in ast.walk(fn):
            if isinstance(n, ast.Subscript) and isinstance(n.ctx, (ast.Store, ast.Del)) and isinstance(n.value, ast.Name) and n.value.id in aliases:
                return True
            if (isinstance(n, ast.Call) and isinstance(n.func, ast.Attribute) and isinstance(n.func.value, ast.Name) and n.func.value.id in aliases
                    and n.func.attr in ('append', 'extend', 'add', 'update', 'discard', 'remove', 'pop', 'clear', 'setdefault', 'insert', 'popitem', 'sort')):
                return True
            if isinstance(n, ast.AugAssign) and isinstance(n.target, ast.Name) and n.target.id in aliases:
                return True
        return False

    def ev_NamedExpr(self, node, st):
        for s, v in self.ev(node.value, st):
            if not isinstance(v, Raised):
                s.assign(node.target.id, v)
            yield s, v

    def ev_Await(self, node, st):
        for s, v in self.ev(node.value, st):
            if isinstance(v, SV) and hasattr(v.ty, 'on_await'):
                yield from v.ty.on_await(self, s, v)       # e.g. the result (or exception) of a future
            else:
                yield s, v

    def ev_Tuple(self, node, st):
        if any(isinstance(e, ast.Starred) for e in node.elts):
            raise Unsupported('starred in tuple')
        for s, vals in self.ev_seq(node.elts, st):
            yield s, (vals if isinstance(vals, Raised) else tuple(vals))

    def ev_List(self, node, st):
        for s, vals in self.ev_seq(node.elts, st):
            yield s, (vals if isinstance(vals, Raised) else s.new_py('list', list(vals)))

    def ev_Set(self, node, st):
        for s, vals in self.ev_seq(node.elts, st):
            yield s, (vals if isinstance(vals, Raised) else s.new_py('set', list(vals)))

    def ev_Dict(self, node, st):
        if any(k is None for k in node.keys):
            yield from self._dict_with_unpacking(node, st)
            return
        for s, ks in self.ev_seq(node.keys, st):
            if isinstance(ks, Raised):
                yield s, ks
                continue
            for s2, vs in self.ev_seq(node.values, s):
                if isinstance(vs, Raised):
                    yield s2, vs
                    continue
                for k in ks:
                    if not isinstance(k, (str, int, bytes)):
                        raise Unsupported('dict display with symbolic key')
                yield s2, s2.new_py('dict', dict(zip(ks, vs)))

    def _dict_with_unpacking(self, node, st):
        """{**a, k: v, **b}: entries in display order, later ones replace earlier ones (the position of a replaced key is kept, as in
        CPython).  Unpacked operands must be dicts with concrete keys."""
        from . import ops
        key_nodes = [k for k in node.keys if k is not None]
        for s, ks in self.ev_seq(key_nodes, st):
            if isinstance(ks, Raised):
                yield s, ks
                continue
            for s2, vs in self.ev_seq(node.values, s):
                if isinstance(vs, Raised):
                    yield s2, vs
                    continue
                out = {}
                ki = iter(ks)
                for kn, v in zip(node.keys, vs):
                    if kn is None:
                        v = ops.resolve(s2, v)
                        if not (isinstance(v, PyRef) and v.kind == 'dict'):
                            raise Unsupported('dict unpacking of a value that is not a concrete-keyed dict')
                        out.update(self.deref(s2, v))
                    else:
                        k = next(ki)
                        if not isinstance(k, (str, int, bytes)):
                            raise Unsupported('dict display with symbolic key')
                        out[k] = v
                yield s2, s2.new_py('dict', out)

    def ev_DictComp(self, node, st):
        """{k: v for target in concrete-items}: keys must evaluate to concrete values"""
        if len(node.generators) != 1 or node.generators[0].ifs:
            raise Unsupported('dict comprehension shape')
        gen = node.generators[0]
        for s, itv in self.ev(gen.iter, st):
            if isinstance(itv, Raised):
                yield s, itv
                continue
            items = self.concrete_items(s, itv)
            if items is None:
                s.emit('opaque_comprehension', text=ast.unparse(node)[:120])
                yield s, Unknown('comprehension:' + ast.unparse(node)[:60])
                continue

            def go(i, s, acc):
                if i == len(items):
                    yield s, s.new_py('dict', dict(acc))
                    return
                saved = s.cur
                s.push_frame(saved)
                self.assign_target(s, gen.target, items[i])
                for s1, k in self.ev(node.key, s):
                    if isinstance(k, Raised):
                        s1.cur = saved
                        yield s1, k
                        continue
                    if not isinstance(k, (str, int, bytes)):
                        raise Unsupported('dict comprehension with symbolic key')
                    for s2, v in self.ev(node.value, s1):
                        s2.cur = saved
                        if isinstance(v, Raised):
                            yield s2, v
                            continue
                        yield from go(i + 1, s2, acc + [(k, v)])

            yield from go(0, s, [])

    def ev_JoinedStr(self, node, st):
        parts = []
        for v in node.values:
            if isinstance(v, ast.Constant):
                parts.append(v)
            else:
                parts.append(v)
        exprs = [p.value if isinstance(p, ast.FormattedValue) else p for p in parts]
        for s, vals in self.ev_seq(exprs, st):
            if isinstance(vals, Raised):
                yield s, vals
                continue
            out = []
            for p, v in zip(parts, vals):
                if isinstance(p, ast.FormattedValue):
                    spec = None
                    if p.format_spec is not None:
                        spec = ''.join(x.value for x in p.format_spec.values if isinstance(x, ast.Constant))
                    out.append(self.format_value(s, v, p.conversion, spec))
                else:
                    out.append(v)
            yield s, self.concat_strs(out)

    def format_value(self, st, v, conversion, spec):
        if isinstance(v, Unknown):
            v.note(self, st)
            return sym.fresh(STR, 'formatted_unknown')      # unknown state formatted into a string: an arbitrary string
        if isinstance(v, (PyRef, Obj, Model, Closure, ExcClass, Bound)) or not isinstance(v, (SV, str, bytes, int, float, bool, tuple, type(None))):
            return sym.fresh(STR, 'formatted_object')       # a container / object rendered into a message: an arbitrary string
        if v is None or isinstance(v, (bool, tuple, float)):
            return repr(v) if conversion == 114 and not spec and not isinstance(v, tuple) else (str(v) if conversion in (-1, 115) and not spec and not isinstance(v, tuple) else sym.fresh(STR, 'formatted_value'))
        if conversion not in (-1, 115) or spec:
            # !r or format specs: an opaque but deterministic function of the value
            f = self.uf(f'fmt_{conversion}_{spec}', self.ty_of(v), STR)
            return SV(STR, f(lift(v).z))
        if isinstance(v, str):
            return v
        if isinstance(v, SV) and v.ty == STR:
            return v
        if isinstance(v, int) and not isinstance(v, bool):
            return str(v)
        if isinstance(v, SV) and v.ty == INT:
            f = self.uf('str_of_int', INT, STR)
            return SV(STR, f(v.z))
        f = self.uf(f'str_of_{self.ty_of(v).name()}', self.ty_of(v), STR)
        return SV(STR, f(lift(v).z))

    def concat_strs(self, parts):
        if all(isinstance(p, str) for p in parts):
            return ''.join(parts)
        zs = [lift(p, STR).z for p in parts if not (isinstance(p, str) and p == '')]
        if len(zs) == 1:
            return SV(STR, zs[0])
        return SV(STR, z3.Concat(*zs))

    _ufs = {}

    def uf(self, name, *tys):
        key = (name,) + tuple(t.name() for t in tys)
        if key not in Interp._ufs:
            Interp._ufs[key] = z3.Function(name, *[t.sort() for t in tys])
        return Interp._ufs[key]

    def ty_of(self, v):
        if isinstance(v, SV):
            return v.ty
        return lift(v).ty

    def ev_Lambda(self, node, st):
        yield st, Closure(node, st.cur, '<lambda>')

    def ev_IfExp(self, node, st):
        for s, c in self.ev(node.test, st):
            if isinstance(c, Raised):
                yield s, c
                continue
            for s2, b in self.branch(s, self.truth(s, c)):
                yield from self.ev(node.body if b else node.orelse, s2)

    def ev_BoolOp(self, node, st):
        is_and = isinstance(node.op, ast.And)

        def go(i, s):
            for s2, v in self.ev(node.values[i], s):
                if isinstance(v, Raised) or i == len(node.values) - 1:
                    yield s2, v
                    continue
                for s3, b in self.branch(s2, self.truth(s2, v)):
                    if b == is_and:
                        yield from go(i + 1, s3)
                    else:
                        yield s3, v

        yield from go(0, st)

    def ev_UnaryOp(self, node, st):
        for s, v in self.ev(node.operand, st):
            if isinstance(v, Raised):
                yield s, v
            elif isinstance(node.op, ast.Not):
                t = z3.simplify(z3.Not(self.truth(s, v)))
                yield s, (z3.is_true(t) if z3.is_true(t) or z3.is_false(t) else SV(BOOL, t))
            elif isinstance(node.op, ast.USub):
                if isinstance(v, (int, float)):
                    yield s, -v
                else:
                    yield s, SV(v.ty, -v.z)
            else:
                raise Unsupported('unary op')

    def ev_BinOp(self, node, st):
        for s, vals in self.ev_seq([node.left, node.right], st):
            if isinstance(vals, Raised):
                yield s, vals
                continue
            yield from self.binop(s, node.op, vals[0], vals[1])

    def binop(self, st, op, a, b):
        from . import ops
        yield from ops.binop(self, st, op, a, b)

    def ev_Compare(self, node, st):
        from . import ops

        def go(i, s, left):
            for s2, right in self.ev(node.comparators[i], s):
                if isinstance(right, Raised):
                    yield s2, right
                    continue
                for s3, r in ops.compare(self, s2, node.ops[i], left, right):
                    if isinstance(r, Raised) or i == len(node.ops) - 1:
                        yield s3, r
                        continue
                    for s4, b in self.branch(s3, self.truth(s3, r)):
                        if b:
                            yield from go(i + 1, s4, right)
                        else:
                            yield s4, False

        for s, left in self.ev(node.left, st):
            if isinstance(left, Raised):
                yield s, left
            else:
                yield from go(0, s, left)

    def ev_Attribute(self, node, st):
        from . import ops
        for s, v in self.ev(node.value, st):
            if isinstance(v, Raised):
                yield s, v
            else:
                yield from ops.getattr_(self, s, v, node.attr)

    def ev_Subscript(self, node, st):
        from . import ops
        for s, v in self.ev(node.value, st):
            if isinstance(v, Raised):
                yield s, v
                continue
            if isinstance(node.slice, ast.Slice):
                sl = node.slice
                parts = [sl.lower, sl.upper, sl.step]
                exprs = [p for p in parts if p is not None]
                for s2, vals in self.ev_seq(exprs, s):
                    if isinstance(vals, Raised):
                        yield s2, vals
                        continue
                    it = iter(vals)
                    lo, hi, step = [next(it) if p is not None else None for p in parts]
                    yield from ops.getslice(self, s2, v, lo, hi, step)
            else:
                for s2, idx in self.ev(node.slice, s):
                    if isinstance(idx, Raised):
                        yield s2, idx
                    else:
                        yield from ops.getitem(self, s2, v, idx)

    def ev_Starred(self, node, st):
        raise Unsupported('starred expression')

    def ev_Call(self, node, st):
        # drop allow-list: effect-free observers are executed as `skip`
        txt = call_name(node.func)
        if txt is not None and self.is_dropped(txt):
            self.dropped_calls[txt] = self.dropped_calls.get(txt, 0) + 1
            yield st, None
            return
        for s, f in self.ev(node.func, st):
            if isinstance(f, Raised):
                yield s, f
                continue
            arg_nodes, star_idx = [], []
            for i, a in enumerate(node.args):
                if isinstance(a, ast.Starred):
                    star_idx.append(i)
                    arg_nodes.append(a.value)
                else:
                    arg_nodes.append(a)
            kw_nodes = [k.value for k in node.keywords]
            for s2, vals in self.ev_seq(arg_nodes + kw_nodes, s):
                if isinstance(vals, Raised):
                    yield s2, vals
                    continue
                args = []
                for i, v in enumerate(vals[: len(arg_nodes)]):
                    if i in star_idx:
                        args.append(StarArg(v))
                    else:
                        args.append(v)
                kwargs = {}
                for k, v in zip(node.keywords, vals[len(arg_nodes):]):
                    if k.arg is None:
                        if isinstance(v, PyRef) and v.kind == 'dict':
                            kwargs.update(self.deref(s2, v))
                        else:
                            kwargs['**'] = v
                    else:
                        kwargs[k.arg] = v
                yield from self.call(s2, f, args, kwargs, node)

    def is_dropped(self, txt):
        for pat in self.drop:
            if pat.endswith('*'):
                if txt.startswith(pat[:-1]):
                    return True
            elif txt == pat:
                return True
        return False

    def call(self, st, f, args, kwargs, node=None):
        from . import ops
        if isinstance(f, Model):
            unk = [a for a in args if isinstance(a, Unknown)]
            if unk:
                from . import models
                if f is models.BUILTINS.get('map') and len(args) == 2 and not isinstance(args[0], Unknown):
                    # map(f, <unknown>): WHICH function is applied is known even when the items are not
                    yield st, models.MapVal(args[0], args[1])
                    return
                if any(f is m for m in models.BUILTINS.values()):
                    # a builtin applied to unknown state (next(), len(), str(), ...): an unknown result
                    unk[0].note(self, st)
                    yield st, Unknown(f'{f.name}({unk[0].name})', unk[0].owner)
                    return
            yield from f.fn(self, st, args, kwargs)
        elif isinstance(f, Closure):
            yield from self.call_closure(st, f, args, kwargs)
        elif isinstance(f, Bound):
            yield from ops.call_method(self, st, f.recv, f.name, args, kwargs)
        elif isinstance(f, ExcClass):
            yield st, Exc(f.name, args)
        elif isinstance(f, Unknown):
            f.note(self, st)
            yield st, Unknown(f.name + '()', f.owner)
        elif isinstance(f, SV) and getattr(f.ty, 'callable', False):
            m = f.ty.attrs['__call__']
            yield from m.fn(self, st, [f] + list(args), kwargs)
        else:
            raise Unsupported(f'call of {f!r} ({ast.unparse(node) if node else ""})')

    def call_closure(self, st, f, args, kwargs):
        node = f.node
        callstack = st.ghost.get('$callstack', ())
        if callstack.count(id(node)) >= 2:
            # a RECURSIVE call (of the function under contract, or of a real function being inlined) is unfolded ONCE; below that its
            # result is arbitrary - a value nobody has specified, or an exception - and whatever is refuted on such a path is undecided
            # (same rule as a library object without a model: the counter-model need not be an execution)
            st.emit('recursive_call', function=f.name)
            st.emit('unknown_state_used', name=f'module:recursion({f.name})', depth=1)
            t = st.copy()
            yield st, Unknown(f'module:recursion({f.name})')
            t.emit('recursive_call_raised', function=f.name)
            yield t, Raised(Exc('AnyError'))
            return
        if any(isinstance(a, StarArg) for a in args):
            raise Unsupported('star-args into closure')
        kwargs = dict(kwargs)
        saved = st.cur
        a = node.args
        params = [p.arg for p in a.posonlyargs + a.args]
        args = list(args)
        if f.bound_self is not None:
            args = [f.bound_self] + args
        if len(args) > len(params):
            raise Unsupported(f'too many args for {f.name}')
        vars_ = {}
        for p, v in zip(params, args):
            vars_[p] = v
        defaults = a.defaults
        dparams = params[len(params) - len(defaults):] if defaults else []
        for p in params[len(args):]:
            if p in kwargs:
                vars_[p] = kwargs.pop(p)
            elif p in dparams:
                vars_[p] = self.const_eval(defaults[dparams.index(p)], st, f.env)
                self._shared_default(st, f, node, p)
            else:
                raise Unsupported(f'missing arg {p} for {f.name}')
        for p, d in zip(a.kwonlyargs, a.kw_defaults):
            if p.arg in kwargs:
                vars_[p.arg] = kwargs.pop(p.arg)
            elif d is not None:
                vars_[p.arg] = self.const_eval(d, st, f.env)
                self._shared_default(st, f, node, p.arg)
            else:
                raise Unsupported(f'missing kwonly {p.arg} for {f.name}')
        if a.kwarg is not None:
            vars_[a.kwarg.arg] = st.new_py('dict', dict(kwargs))
            kwargs = {}
        if a.vararg is not None:
            vars_[a.vararg.arg] = ()
        if kwargs:
            raise Unsupported(f'unexpected kwargs {list(kwargs)} for {f.name}')
        st.push_frame(f.env)
        st.frames[st.cur][0].update(vars_)
        if isinstance(node, ast.Lambda):
            for s, v in self.ev(node.body, st):
                s.cur = saved
                yield s, v
            return
        self.fn_stack.append(f.name)
        # the call stack lives in the STATE: paths are enumerated lazily, the caller's continuation runs while this generator is suspended
        st.ghost['$callstack'] = callstack + (id(node),)
        try:
            for s, out in self.exec_block(node.body, st):
                s.cur = saved
                s.ghost['$callstack'] = callstack
                if out[0] == 'normal':
                    yield s, None
                elif out[0] == 'return':
                    yield s, out[1]
                elif out[0] == 'raise':
                    yield s, Raised(out[1])
                else:
                    raise Unsupported('break/continue escaping function')
        finally:
            self.fn_stack.pop()

    def _shared_default(self, st, f, node, param):
        """Python builds a default value once, when the `def` runs: a mutable default that the body changes in place is state shared by
        all calls that leave the parameter out.  The engine evaluates defaults per call, which is only faithful when that never happens."""
        from . import source
        if param in source.shared_mutable_defaults(node):
            key = (f.name, param)
            seen = self.__dict__.setdefault('_shared_default_seen', set())
            if key in seen:
                return
            seen.add(key)
            self.obligations.append(Obligation(
                f'{self.unit_name}.default_argument_is_not_state_shared_between_calls[{f.name}.{param}]', list(st.pc), z3.BoolVal(False),
                'top', {'function': f.name, 'parameter': param, 'line': getattr(node, 'lineno', None)}))

    def const_eval(self, node, st, env):
        saved = st.cur
        st.cur = env
        try:
            res = list(self.ev(node, st))
        finally:
            st.cur = saved
        if len(res) != 1 or isinstance(res[0][1], Raised):
            raise Unsupported('non-trivial default value')
        return res[0][1]

    # comprehension support: only over concrete-shaped iterables --------------
    def ev_ListComp(self, node, st):
        yield from self._comp(node, st, 'list')

    def ev_GeneratorExp(self, node, st):
        yield from self._comp(node, st, 'list')

    def ev_SetComp(self, node, st):
        yield from self._comp(node, st, 'set')

    def _comp(self, node, st, kind):
        if len(node.generators) == 2 and kind == 'set':
            yield from self._union_comp(node, st)
            return
        if len(node.generators) != 1:
            raise Unsupported('comprehension shape')
        gen = node.generators[0]
        for s, itv in self.ev(gen.iter, st):
            if isinstance(itv, Raised):
                yield s, itv
                continue
            items = self.concrete_items(s, itv)
            if items is None and kind == 'list' and not (isinstance(itv, SV) and hasattr(itv.ty, 'comprehension')):
                yield from self._filter_comp(node, s, itv)
                continue
            if items is None:
                if isinstance(itv, SV) and hasattr(itv.ty, 'comprehension'):
                    yield from itv.ty.comprehension(self, s, itv, node)
                    continue
                # a comprehension the engine has no closed form for: its value is unconstrained (the element
                # expression is assumed free of side effects, as comprehensions in this code base are)
                s.emit('opaque_comprehension', text=ast.unparse(node)[:120])
                yield s, Unknown('comprehension:' + ast.unparse(node)[:60])
                continue

            def go(i, s, acc):
                if i == len(items):
                    yield s, s.new_py(kind, list(acc))
                    return
                saved = s.cur
                s.push_frame(saved)
                self.assign_target(s, gen.target, items[i])
                keep_states = [(s, True)]
                for cond in gen.ifs:
                    nxt = []
                    for s1, keep in keep_states:
                        if not keep:
                            nxt.append((s1, False))
                            continue
                        for s2, c in self.ev(cond, s1):
                            for s3, b in self.branch(s2, self.truth(s2, c)):
                                nxt.append((s3, b))
                    keep_states = nxt
                for s1, keep in keep_states:
                    if keep:
                        for s2, v in self.ev(node.elt, s1):
                            s2.cur = saved
                            yield from go(i + 1, s2, acc + [v])
                    else:
                        s1.cur = saved
                        yield from go(i + 1, s1, acc)

            yield from go(0, s, [])

    def _filter_comp(self, node, st, itv):
        """[elt for target in IT if cond]: the sub-sequence of IT's images that satisfy cond, in order.
        elt and cond are evaluated once for a generic index (they must be pure and non-forking)."""
        from . import ops
        gen = node.generators[0]
        it = ops.iterspec(self, st, itv)
        if it.n is None:
            raise Unsupported('unbounded comprehension source')
        for a in it.assumptions:
            st.assume(a)
        i = z3.Int(sym.fresh_name('fi'))
        saved = st.cur
        st.push_frame(saved)
        self.assign_target(st, gen.target, it.elem(i))
        cond = z3.BoolVal(True)
        npc = len(st.pc)
        for c in gen.ifs:
            r = list(self.ev(c, st))
            if len(r) != 1 or isinstance(r[0][1], Raised):
                raise Unsupported('comprehension condition forks')
            cond = z3.And(cond, self.truth(st, r[0][1]))
        r = list(self.ev(node.elt, st))
        if len(r) != 1 or isinstance(r[0][1], Raised) or not isinstance(r[0][1], SV) or len(st.pc) != npc:
            raise Unsupported('comprehension element forks / is not symbolic')
        elt = r[0][1]
        st.cur = saved
        f_elt = lambda k: z3.substitute(elt.z, (i, k))
        f_cond = lambda k: z3.substitute(cond, (i, k))
        res = ops.new_heap(st, sym.ListC(elt.ty))
        lc = sym.ListC(elt.ty)
        m = z3.Int(sym.fresh_name('flen'))
        arr = z3.Const(sym.fresh_name('filtered'), z3.ArraySort(z3.IntSort(), elt.ty.sort()))
        idx = z3.Function(sym.fresh_name('fidx'), z3.IntSort(), z3.IntSort())
        j, j2 = z3.Ints(f'{sym.fresh_name("j")} {sym.fresh_name("j2")}')
        st.assume(z3.And(0 <= m, m <= it.n))
        st.assume(z3.ForAll([j], z3.Implies(z3.And(0 <= j, j < m), z3.And(
            0 <= idx(j), idx(j) < it.n, z3.Select(arr, j) == f_elt(idx(j)), f_cond(idx(j))))))
        st.assume(z3.ForAll([j, j2], z3.Implies(z3.And(0 <= j, j < j2, j2 < m), idx(j) < idx(j2))))
        finv = z3.Function(sym.fresh_name('finv'), z3.IntSort(), z3.IntSort())
        st.assume(z3.ForAll([i], z3.Implies(z3.And(0 <= i, i < it.n, cond), z3.And(0 <= finv(i), finv(i) < m, idx(finv(i)) == i))))
        st.heap.write(lc, 'arr', res.z, arr)
        st.heap.write(lc, 'len', res.z, m)
        st.emit('filter_comp', result=res, idx=idx, finv=finv, cond=f_cond, elt=f_elt, n=it.n)
        yield st, res

    def _union_comp(self, node, st):
        """{y for t in IT for y in E(t)}  ->  the union of elems(E(elem(k))) over k < n"""
        from . import ops, models
        g1, g2 = node.generators
        if g1.ifs or g2.ifs or not (isinstance(node.elt, ast.Name) and isinstance(g2.target, ast.Name)
                                    and node.elt.id == g2.target.id):
            raise Unsupported('set comprehension shape')
        for s, itv in self.ev(g1.iter, st):
            if isinstance(itv, Raised):
                yield s, itv
                continue
            it = ops.iterspec(self, s, itv)
            if it.n is None:
                raise Unsupported('unbounded comprehension source')
            for a in it.assumptions:
                s.assume(a)
            k = z3.Int(sym.fresh_name('ck'))
            saved = s.cur
            s.push_frame(saved)
            self.assign_target(s, g1.target, it.elem(k))
            res = list(self.ev(g2.iter, s))
            if len(res) != 1 or isinstance(res[0][1], Raised) or res[0][0] is not s:
                raise Unsupported('inner comprehension iterable forks')
            arr, et = models.elems_of(self, s, res[0][1])
            s.cur = saved
            R = z3.Const(sym.fresh_name('union'), z3.ArraySort(et.sort(), z3.BoolSort()))
            y = z3.Const(sym.fresh_name('y'), et.sort())
            s.assume(z3.ForAll([k, y], z3.Implies(z3.And(0 <= k, k < it.n, z3.Select(arr, y)), z3.Select(R, y))))
            s.assume(z3.ForAll([y], z3.Implies(z3.Select(R, y), z3.Exists([k], z3.And(0 <= k, k < it.n, z3.Select(arr, y))))))
            r = ops.new_heap(s, sym.SetC(et))
            s.heap.write(sym.SetC(et), 'm', r.z, R)
            s.emit('union_comp', result=r, n=it.n)
            yield s, r

    def concrete_items(self, st, v):
        from .models import MapVal
        if isinstance(v, MapVal) and hasattr(v.f, 'pure'):
            src = self.concrete_items(st, v.over)
            return None if src is None else [v.f.pure(x) for x in src]
        if isinstance(v, tuple):
            return list(v)
        if isinstance(v, PyRef):
            c = self.deref(st, v)
            if isinstance(c, SV):
                return None
            if v.kind == 'dict':
                return list(c.keys())
            return list(c)
        if isinstance(v, ConcreteIter):
            return list(v.items)
        return None

    # ---------------------------------------------------------- statements
    def exec_block(self, stmts, st):
        """yields (state, outcome)"""
        if not stmts:
            yield st, OUT_NORMAL
            return
        head, rest = stmts[0], stmts[1:]
        for s, out in self.exec_stmt(head, st):
            if out[0] == 'normal':
                yield from self.exec_block(rest, s)
            else:
                yield s, out

    def exec_stmt(self, node, st):
        self.paths += 1
        if self.paths > self.max_paths * 50:
            raise Unsupported('path explosion')
        m = getattr(self, 'ex_' + type(node).__name__, None)
        if m is None:
            raise Unsupported(f'statement {type(node).__name__} at line {node.lineno}')
        pc0 = list(st.pc)
        try:
            yield from m(node, st)
        except Unsupported:
            # path pruning uses only the quantifier-free part of the path condition, so an
            # infeasible path may survive; a construct that cannot be interpreted on such a
            # path is irrelevant
            s = z3.Solver()
            s.set('timeout', 3000)
            s.add(*pc0)
            if s.check() == z3.unsat:
                return
            raise

    def ex_Pass(self, node, st):
        yield st, OUT_NORMAL

    def ex_Expr(self, node, st):
        if isinstance(node.value, ast.Constant):
            yield st, OUT_NORMAL
            return
        if isinstance(node.value, (ast.Yield, ast.YieldFrom)):
            yield from self.do_yield(node.value, st)
            return
        for s, v in self.ev(node.value, st):
            yield s, (('raise', v.exc) if isinstance(v, Raised) else OUT_NORMAL)

    def ev_Yield(self, node, st):
        for s, out in self.do_yield(node, st):
            if out[0] == 'raise':
                yield s, Raised(out[1])
            else:
                yield s, None

    def do_yield(self, node, st):
        if isinstance(node, ast.YieldFrom):
            # every element of the operand is yielded, in order: recorded as ONE quantified event
            for s, v in self.ev(node.value, st):
                if isinstance(v, Raised):
                    yield s, ('raise', v.exc)
                    continue
                s.emit('yield_from', value=v)
                yield s, OUT_NORMAL
            return
        vals = self.ev(node.value, st) if node.value is not None else [(st, None)]
        for s, v in vals:
            if isinstance(v, Raised):
                yield s, ('raise', v.exc)
                continue
            if s.ghost.get('$cm_stack') and s.ghost['$cm_stack'][-1][5] == s.cur:
                yield from self.yield_into_with(s, v)
                continue
            s.emit('yield', value=v)
            if self.on_yield is not None:
                self.on_yield(self, s, v)
            if self.contextmanager:
                # the with-body may finish normally or throw into the generator
                t = s.copy()
                yield s, OUT_NORMAL
                t.emit('body_raised')
                yield t, ('raise', Exc('BodyError'))
            else:
                yield s, OUT_NORMAL

    def ex_Return(self, node, st):
        if node.value is None:
            yield st, ('return', None)
            return
        for s, v in self.ev(node.value, st):
            yield s, (('raise', v.exc) if isinstance(v, Raised) else ('return', v))

    def ex_Global(self, node, st):
        raise Unsupported('global')

    def ex_Nonlocal(self, node, st):
        st.frames[st.cur][2].update(node.names)
        yield st, OUT_NORMAL

    def ex_FunctionDef(self, node, st):
        if node.decorator_list:
            raise Unsupported(f'decorated nested def {node.name}')
        st.assign(node.name, Closure(node, st.cur, node.name))
        yield st, OUT_NORMAL

    ex_AsyncFunctionDef = ex_FunctionDef

    def ex_Assert(self, node, st):
        for s, v in self.ev(node.test, st):
            if isinstance(v, Raised):
                yield s, ('raise', v.exc)
                continue
            for s2, b in self.branch(s, self.truth(s, v)):
                if b:
                    yield s2, OUT_NORMAL
                else:
                    # `assert` is not a check the program can rely on: under `python -O` / PYTHONOPTIMIZE the statement is
                    # compiled away.  Both interpreters are covered: the failing test raises (default) AND is skipped (optimised).
                    stripped = s2.copy() if ASSERTS_MAY_BE_STRIPPED else None
                    yield s2, ('raise', Exc('AssertionError'))
                    if stripped is not None:
                        stripped.emit('assert_stripped', line=getattr(node, 'lineno', None))
                        yield stripped, OUT_NORMAL

    def ex_Assign(self, node, st):
        for s, v in self.ev(node.value, st):
            if isinstance(v, Raised):
                yield s, ('raise', v.exc)
                continue
            states = [(s, OUT_NORMAL)]
            # python assigns targets left to right
            for t in node.targets:
                nxt = []
                for s1, out in states:
                    if out[0] != 'normal':
                        nxt.append((s1, out))
                        continue
                    for s2, out2 in self.assign_target_gen(s1, t, v):
                        nxt.append((s2, out2))
                states = nxt
            yield from states

    def ex_AnnAssign(self, node, st):
        if node.value is None:
            yield st, OUT_NORMAL
            return
        for s, v in self.ev(node.value, st):
            if isinstance(v, Raised):
                yield s, ('raise', v.exc)
            else:
                yield from self.assign_target_gen(s, node.target, v)

    def assign_target(self, st, target, v):
        res = list(self.assign_target_gen(st, target, v))
        if len(res) != 1 or res[0][1][0] != 'normal' or res[0][0] is not st:
            raise Unsupported('forking assignment in simple context')

    def assign_target_gen(self, st, target, v):
        from . import ops
        if isinstance(target, ast.Name):
            hint = self.local_types.get(target.id)
            if hint is not None and (not isinstance(v, SV) or v.ty != hint):
                from . import ops as _ops
                v = _ops.to_ty(self, st, v, hint)
            st.assign(target.id, v)
            yield st, OUT_NORMAL
        elif isinstance(target, (ast.Tuple, ast.List)):
            items = ops.unpack(self, st, v, len(target.elts))
            states = [(st, OUT_NORMAL)]
            for t, item in zip(target.elts, items):
                nxt = []
                for s1, out in states:
                    if out[0] != 'normal':
                        nxt.append((s1, out))
                    else:
                        nxt.extend(self.assign_target_gen(s1, t, item))
                states = nxt
            yield from states
        elif isinstance(target, ast.Attribute):
            for s, o in self.ev(target.value, st):
                if isinstance(o, Raised):
                    yield s, ('raise', o.exc)
                else:
                    ops.setattr_(self, s, o, target.attr, v)
                    yield s, OUT_NORMAL
        elif isinstance(target, ast.Subscript):
            for s, o in self.ev(target.value, st):
                if isinstance(o, Raised):
                    yield s, ('raise', o.exc)
                    continue
                if isinstance(target.slice, ast.Slice):
                    raise Unsupported('slice assignment')
                for s2, idx in self.ev(target.slice, s):
                    if isinstance(idx, Raised):
                        yield s2, ('raise', idx.exc)
                        continue
                    for s3, r in ops.setitem(self, s2, o, idx, v):
                        yield s3, (('raise', r.exc) if isinstance(r, Raised) else OUT_NORMAL)
        else:
            raise Unsupported(f'assignment target {type(target).__name__}')

    def ex_AugAssign(self, node, st):
        # target read, op, store
        load = copy.copy(node.target)
        load.ctx = ast.Load()
        for s, cur in self.ev(load, st):
            if isinstance(cur, Raised):
                yield s, ('raise', cur.exc)
                continue
            for s2, rhs in self.ev(node.value, s):
                if isinstance(rhs, Raised):
                    yield s2, ('raise', rhs.exc)
                    continue
                from . import ops
                if getattr(self, 'on_augassign', None) is not None:
                    self.on_augassign(self, s2, node, cur, rhs)       # sidecar observer (e.g. "which piece is appended when")
                for s3, r in ops.augop(self, s2, node.op, cur, rhs):
                    if isinstance(r, Raised):
                        yield s3, ('raise', r.exc)
                    elif r is ops.INPLACE_DONE:
                        yield s3, OUT_NORMAL
                    else:
                        yield from self.assign_target_gen(s3, node.target, r)

    def ex_Delete(self, node, st):
        from . import ops
        states = [(st, OUT_NORMAL)]
        for t in node.targets:
            nxt = []
            for s, out in states:
                if out[0] != 'normal':
                    nxt.append((s, out))
                    continue
                nxt.extend(ops.delete(self, s, t))
            states = nxt
        yield from states

    def ex_If(self, node, st):
        for s, c in self.ev(node.test, st):
            if isinstance(c, Raised):
                yield s, ('raise', c.exc)
                continue
            for s2, b in self.branch(s, self.truth(s, c)):
                yield from self.exec_block(node.body if b else node.orelse, s2)

    def ex_Raise(self, node, st):
        if node.exc is None:
            if not st.exc_stack:
                raise Unsupported('bare raise outside handler')
            yield st, ('raise', st.exc_stack[-1])
            return
        for s, v in self.ev(node.exc, st):
            if isinstance(v, Raised):
                yield s, ('raise', v.exc)
                continue
            if isinstance(v, ExcClass):
                v = Exc(v.name)
            if not isinstance(v, Exc):
                raise Unsupported(f'raise of {v!r}')
            if node.cause is not None:
                v = Exc(v.cls, v.args, cause=True, attrs=v.attrs)
            yield s, ('raise', v)

    def ex_Try(self, node, st):
        def after_handlers(s, out):
            """run else/handlers, no finally yet"""
            if out[0] == 'normal':
                if node.orelse:
                    yield from self.exec_block(node.orelse, s)
                else:
                    yield s, out
                return
            if out[0] != 'raise':
                yield s, out
                return
            exc = out[1]
            yield from self.match_handlers(node.handlers, 0, s, exc)

        # which lookup failures the code itself expects in this body (syntactic): a subscript of state the sidecar has no model for
        # may then fail with that exception (vf.ops.getitem)
        caught = set()
        for h in node.handlers:
            ts = [h.type] if h.type is not None and not isinstance(h.type, ast.Tuple) else (h.type.elts if h.type is not None else [])
            for t in ts:
                caught.add(ast.unparse(t).split('.')[-1])
        stack = self.__dict__.setdefault('try_catches', [])
        stack.append(caught)

        body_out = []
        try:
            body_out = list(self.exec_block(node.body, st))
        finally:
            stack.pop()
        for s, out in body_out:
            for s2, out2 in after_handlers(s, out):
                if not node.finalbody:
                    yield s2, out2
                    continue
                for s3, out3 in self.exec_block(node.finalbody, s2):
                    if out3[0] == 'normal':
                        yield s3, out2
                    else:
                        yield s3, out3

    def match_handlers(self, handlers, i, st, exc):
        if i == len(handlers):
            yield st, ('raise', exc)
            return
        h = handlers[i]
        if h.type is None:
            names = ['BaseException']
        else:
            res = list(self.ev(h.type, st))
            if len(res) != 1:
                raise Unsupported('forking handler type')
            tv = res[0][1]
            tvs = tv if isinstance(tv, tuple) else (tv,)
            names = []
            for t in tvs:
                if not isinstance(t, ExcClass):
                    raise Unsupported(f'handler type {t!r}')
                names.append(t.name)

        def run_handler(s):
            s.exc_stack.append(exc)
            if h.name:
                s.assign(h.name, exc)
            for s2, out in self.exec_block(h.body, s):
                s2.exc_stack.pop()
                yield s2, out

        if exc.cls == 'AnyError':
            # unspecified exception class: it may or may not be of the handler's type
            if any(n in ('BaseException', 'Exception') for n in names):
                yield from run_handler(st)
            else:
                a = st.copy()
                a.emit('anyerror_matched', handler=names)
                yield from run_handler(a)
                yield from self.match_handlers(handlers, i + 1, st, exc)
            return
        if any(exc_isinstance(exc.cls, n) for n in names):
            yield from run_handler(st)
        else:
            yield from self.match_handlers(handlers, i + 1, st, exc)

    def ex_With(self, node, st):
        yield from self.do_with(node.items, node.body, st)

    ex_AsyncWith = ex_With

    def do_with(self, items, body, st):
        from . import ops
        if not items:
            yield from self.exec_block(body, st)
            return
        item, rest = items[0], items[1:]
        for s, cm in self.ev(item.context_expr, st):
            if isinstance(cm, Raised):
                yield s, ('raise', cm.exc)
                continue
            if isinstance(cm, GenCM):
                yield from self.with_generator_cm(s, cm, item, rest, body)
                continue
            for s2, entered in ops.cm_enter(self, s, cm):
                if isinstance(entered, Raised):
                    yield s2, ('raise', entered.exc)
                    continue
                if item.optional_vars is not None:
                    self.assign_target(s2, item.optional_vars, entered)
                for s3, out in self.do_with(rest, body, s2):
                    for s4, out2 in ops.cm_exit(self, s3, cm, out):
                        yield s4, out2

    def with_generator_cm(self, st, cm, item, rest, body):
        for n in ast.walk(ast.Module(body=list(body), type_ignores=[])):
            if isinstance(n, (ast.Return, ast.Break, ast.Continue, ast.Yield, ast.YieldFrom, ast.Await)) :
                if isinstance(n, ast.Await):
                    continue
                raise Unsupported('with-body of an inlined generator context manager leaves by return/break/continue/yield')
        stack = st.ghost.get('$cm_stack', ())
        st.ghost['$cm_stack'] = stack + ((st.cur, item.optional_vars, tuple(rest), tuple(body), len(stack), st.frame_n + 1),)
        for s, r in self.call_closure(st, cm.closure, cm.args, cm.kwargs):
            cur = s.ghost.get('$cm_stack', ())
            if len(cur) > len(stack):
                # the generator ended without reaching its yield on this path
                s.ghost['$cm_stack'] = stack
                if isinstance(r, Raised):
                    yield s, ('raise', r.exc)
                else:
                    yield s, ('raise', Exc('RuntimeError', ("generator didn't yield",)))
                continue
            if isinstance(r, Raised):
                yield s, ('raise', r.exc)
            else:
                yield s, OUT_NORMAL

    def yield_into_with(self, st, value):
        """the single yield of an inlined generator context manager: the with-body runs here, in the caller's frame"""
        stack = st.ghost['$cm_stack']
        caller, target, rest, body, depth, _ = stack[-1]
        st.ghost['$cm_stack'] = stack[:-1]
        gen_frame = st.cur
        st.cur = caller
        if target is not None:
            self.assign_target(st, target, value)
        for s, out in self.do_with(list(rest), list(body), st):
            s.cur = gen_frame
            if out[0] in ('normal', 'raise'):
                yield s, out
            else:
                raise Unsupported(f'with-body left by {out[0]}')

    # loops ----------------------------------------------------------------
    def loop_selector(self, node):
        for sel, n in self.loop_nodes.items():
            if n is node:
                return sel
        return None

    def ex_While(self, node, st):
        sel = self.loop_selector(node)
        spec = self.loops.get(sel)
        if spec is None:
            raise Unsupported(f'while loop {sel} without invariant')
        yield from self.cut_loop(node, st, spec, sel, None)

    def ex_For(self, node, st):
        from . import ops
        sel = self.loop_selector(node)
        spec = self.loops.get(sel)
        for s, itv in self.ev(node.iter, st):
            if isinstance(itv, Raised):
                yield s, ('raise', itv.exc)
                continue
            items = self.concrete_items(s, itv)
            if items is not None:
                yield from self.unroll(node, s, items, 0)
                continue
            if spec is None:
                raise Unsupported(f'loop {sel} over symbolic iterable without invariant')
            it = ops.iterspec(self, s, itv)
            s.ghost['$iter_' + sel] = itv        # what the loop walks (sidecars refer to it by loop, not by variable name)
            yield from self.cut_loop(node, s, spec, sel, it)

    ex_AsyncFor = ex_For

    def loop_else(self, node, st):
        # `for ... else` / `while ... else`: the else block runs when the loop ends WITHOUT break (exhaustion / false test)
        if node.orelse:
            yield from self.exec_block(node.orelse, st)
        else:
            yield st, OUT_NORMAL

    def unroll(self, node, st, items, i):
        if i == len(items):
            yield from self.loop_else(node, st)
            return
        for s0, _ in self.assign_target_gen(st, node.target, items[i]):
            for s, out in self.exec_block(node.body, s0):
                if out[0] in ('normal', 'continue'):
                    yield from self.unroll(node, s, items, i + 1)
                elif out[0] == 'break':
                    yield s, OUT_NORMAL
                else:
                    yield s, out

    def cut_loop(self, node, st, spec, sel, it):
        name = spec.name or sel
        entry = st.copy()
        k0 = z3.IntVal(0)
        n = it.n if it is not None else None
        elem = it.elem if it is not None else None
        for a in (it.assumptions if it is not None else []):
            st.assume(a)
            entry.assume(a)
        if spec.at_entry is not None:
            # definitional ghost axioms (e.g. partial sums of the sequence being walked)
            for z in spec.at_entry(LoopCtx(st, k0, n, elem, entry, self)):
                st.assume(z)
                entry.assume(z)
        # 1. invariant holds on entry
        self.oblige(st, f'{name}.inv_entry', self._inv(spec, LoopCtx(st, k0, n, elem, entry, self)), tag=spec.tag, split=True)
        # 2. arbitrary iteration
        body_st = st.copy()
        k = z3.Int(sym.fresh_name('k'))
        outer_frozen = st.frozen
        body_st.frozen = frozenset(body_st.store.keys()) | outer_frozen
        body_st.emit('loop_body', loop=name)
        # objects allocated by earlier iterations live below a fresh (unknown) frontier
        newbase = z3.Int(sym.fresh_name('R'))
        body_st.assume(newbase >= body_st.alloc_base + body_st.alloc_n)
        body_st.alloc_base, body_st.alloc_n = newbase, 0
        self.havoc(body_st, node, spec)
        body_st.assume(k >= 0)
        body_st.assume(self._inv(spec, LoopCtx(body_st, k, n, elem, entry, self)))
        # values of the local variables at the start of the generic iteration (for per-iteration contracts)
        body_st.ghost['$start_' + name] = dict(body_st.frames[body_st.cur][0])
        exit_st = body_st.copy()
        exit_st.frozen = outer_frozen
        if not hasattr(self, '_frame_bases'):
            self._frame_bases = {}
        self._frame_bases[name] = {(m[1].name, m[2]): (body_st.heap.arr(m[1], m[2]), [body_st.lookup(nm).z for nm in m[3]])
                                   for m in spec.modifies if isinstance(m, tuple) and m[0] == 'heap_at'}
        exit_st.events[-1] = Event('loop_exit', loop=name, pc_len=len(exit_st.pc), locks=exit_st.locks_held)
        heap_before = set(body_st.heap.written)
        body_st.heap.written = set()
        ghost_before = dict(body_st.ghost)
        if it is not None:
            if n is not None:
                body_st.assume(k < n)
            starts = list(self.assign_target_gen(body_st, node.target, elem(k)))
            if it.on_next is not None:
                for s, _ in starts:
                    it.on_next(self, s, k)
        else:
            starts = []
            for s, c in self.ev(node.test, body_st):
                if isinstance(c, Raised):
                    yield s, ('raise', c.exc)
                    continue
                for s2, b in self.branch(s, self.truth(s, c)):
                    if b:
                        starts.append((s2, OUT_NORMAL))
        dec0 = spec.decreases(LoopCtx(body_st, k, n, elem, entry, self)) if spec.decreases else None
        for s0, _ in starts:
            for s, out in self.exec_block(node.body, s0):
                self.check_frame(s, spec, name, ghost_before)
                self.loop_paths.setdefault(name, []).append((s, out))
                if out[0] in ('normal', 'continue'):
                    if spec.at_end is not None:
                        # definitional ghost facts about this iteration (e.g. fcontent(k) := consumed)
                        for z in spec.at_end(LoopCtx(s, k, n, elem, entry, self)):
                            s.assume(z)
                    self.oblige(s, f'{name}.inv_preserved',
                                self._inv(spec, LoopCtx(s, k + 1, n, elem, entry, self)), tag=spec.tag, split=True)
                    if dec0 is not None:
                        dec1 = spec.decreases(LoopCtx(s, k + 1, n, elem, entry, self))
                        self.oblige(s, f'{name}.decreases', z3.And(dec1 < dec0, dec0 >= 0), tag='top')
                elif out[0] == 'break':
                    s.heap.written |= heap_before
                    yield s, OUT_NORMAL
                else:
                    s.heap.written |= heap_before
                    yield s, out
        # 3. after the loop
        exit_st.heap.written |= heap_before
        if it is not None:
            if n is not None:
                exit_st.assume(k == n)
            else:
                return
            if self.feasible(exit_st):
                exit_st.ghost['$k_' + name] = SV(INT, k)
                exit_st.ghost['$exit_' + name] = dict(exit_st.frames[exit_st.cur][0])          # the locals as the loop left them
                yield from self.loop_else(node, exit_st)
        else:
            for s, c in self.ev(node.test, exit_st):
                if isinstance(c, Raised):
                    continue
                for s2, b in self.branch(s, self.truth(s, c)):
                    if not b:
                        s2.ghost['$k_' + name] = SV(INT, k)
                        s2.ghost['$exit_' + name] = dict(s2.frames[s2.cur][0])
                        yield from self.loop_else(node, s2)

    def _inv(self, spec, ctx):
        # invariant evaluation is ghost code: its heap reads are not lock-discipline events
        n0 = len(ctx.st.notes)
        n1 = len(ctx.entry.notes)
        r = spec.inv(ctx)
        del ctx.st.notes[n0:]
        del ctx.entry.notes[n1:]
        return r

    def assigned_names(self, node):
        names = set()
        for n in ast.walk(node):
            if isinstance(n, (ast.FunctionDef, ast.AsyncFunctionDef, ast.Lambda)) and n is not node:
                continue
            if isinstance(n, ast.Name) and isinstance(n.ctx, (ast.Store, ast.Del)):
                names.add(n.id)
        return names

    def havoc(self, st, node, spec):
        names = set()
        for part in [node.body] + ([[node.target]] if hasattr(node, 'target') else []):
            for s in part:
                names |= self.assigned_names(s)
        for m in spec.modifies:
            if isinstance(m, str):
                names.add(m)
        for nm in names:
            if not st.has(nm):
                continue
            v = st.lookup(nm)
            if isinstance(v, SV):
                st.assign(nm, sym.fresh(v.ty, nm))
            elif isinstance(v, (int, float, str, bytes, bool)) and not isinstance(v, type(None)):
                st.assign(nm, sym.fresh(lift(v).ty, nm))
            elif v is None:
                hint = spec.types.get(nm)
                if hint is None:
                    raise Unsupported(f'havoc of None-initialised {nm}: add a type hint')
                st.assign(nm, sym.fresh(hint, nm))
            elif isinstance(v, (PyRef, tuple)):
                # a concrete-shaped container re-bound in the loop without a sidecar type: arbitrary after any iteration
                st.assign(nm, Unknown(f'local:{nm}'))
            # closures / models: re-bound defs are not expected
        # containers built before the loop and mutated IN PLACE inside it (x.add(..), x[k] = .., del x[k]) without a
        # sidecar type: their contents at the start of the generic iteration are arbitrary
        mutated = set()
        for part in [node.body]:
            for s_ in part:
                for n_ in ast.walk(s_):
                    if (isinstance(n_, ast.Call) and isinstance(n_.func, ast.Attribute) and isinstance(n_.func.value, ast.Name)
                            and n_.func.attr in ('append', 'extend', 'add', 'update', 'discard', 'remove', 'pop', 'clear', 'setdefault',
                                                 'insert', 'popitem', 'difference_update', 'intersection_update', 'sort')):
                        mutated.add(n_.func.value.id)
                    elif isinstance(n_, (ast.Subscript,)) and isinstance(n_.ctx, (ast.Store, ast.Del)) and isinstance(n_.value, ast.Name):
                        mutated.add(n_.value.id)
        for nm in mutated - names:
            if st.has(nm) and isinstance(st.lookup(nm), PyRef) and nm not in self.local_types:
                st.assign(nm, Unknown(f'local:{nm}'))
        for m in spec.modifies:
            if isinstance(m, tuple) and m[0] == 'heap':
                st.heap.havoc(m[1], m[2])
            elif isinstance(m, tuple) and m[0] == 'heap_at':
                # havoc the field only at the named references (evaluated at loop entry)
                arr = st.heap.arr(m[1], m[2])
                for nm in m[3]:
                    r = st.lookup(nm)
                    fv = z3.Const(sym.fresh_name(f'hv_{m[1].name}_{m[2]}'), sym.Heap.field_sort(m[1], m[2]))
                    arr = z3.Store(arr, r.z, fv)
                st.heap.arrays[(m[1].name, m[2])] = arr
            elif isinstance(m, tuple) and m[0] == 'ghost':
                g = st.ghost[m[1]]
                st.ghost[m[1]] = sym.fresh(g.ty, m[1])
        if spec.modifies and any(isinstance(m, tuple) and m[0] == 'events' for m in spec.modifies):
            pass

    def check_frame(self, st, spec, name, ghost_before):
        allowed = {(m[1].name, m[2]) for m in spec.modifies if isinstance(m, tuple) and m[0] in ('heap', 'heap_at')}
        for key, (before, refs) in getattr(self, '_frame_bases', {}).get(name, {}).items():
            if key in st.heap.written:
                r = z3.Int(sym.fresh_name('fr'))
                after = st.heap.arrays[key]
                self.oblige(st, f'{name}.frame_{key[0]}_{key[1]}',
                            z3.ForAll([r], z3.Implies(z3.And(*[r != x for x in refs]),
                                                      z3.Select(after, r) == z3.Select(before, r))), tag='helper')
        extra = st.heap.written - allowed
        if extra:
            raise Unsupported(f'loop {name} writes heap fields {sorted(extra)} not in modifies')
        gallowed = {m[1] for m in spec.modifies if isinstance(m, tuple) and m[0] == 'ghost'}
        for g, v in st.ghost.items():
            if g.startswith('$'):
                continue
            if g in ghost_before and ghost_before[g] is not v and g not in gallowed:
                raise Unsupported(f'loop {name} writes ghost {g} not in modifies')

    def ex_Break(self, node, st):
        yield st, ('break',)

    def ex_Continue(self, node, st):
        yield st, ('continue',)

    def ex_Import(self, node, st):
        raise Unsupported('import statement inside unit')

    def ex_ImportFrom(self, node, st):
        # `from x import y` inside a function: names must be provided by the sidecar env
        for a in node.names:
            nm = a.asname or a.name
            if not st.has(nm):
                raise Unsupported(f'local import of {nm} not modelled')
        yield st, OUT_NORMAL

    # ---------------------------------------------------------- entry point
    def run_function(self, fn_node, st, args=None, stmt=None):
        """execute the body of fn_node (or only the statement selected by `stmt`,
        e.g. 'For#1') in state st (env must already bind params)."""
        from . import source
        self.loop_nodes = {**source.loops_in(fn_node), **self.loop_nodes}
        st.ghost['$callstack'] = (id(fn_node),)
        body = fn_node.body
        if isinstance(stmt, tuple):
            start, end = stmt
            i0 = [i for i, s_ in enumerate(body) if start(s_)]
            if not i0:
                raise Unsupported('region start statement not found')
            i1 = [i for i, s_ in enumerate(body) if i > i0[0] and end(s_)]
            if not i1:
                raise Unsupported('region end statement not found')
            body = body[i0[0]:i1[0]]
        elif callable(stmt):
            # region: from the first top-level statement satisfying the predicate to the end of the body
            idx = [i for i, s_ in enumerate(body) if stmt(s_)]
            if not idx:
                raise Unsupported('region start statement not found')
            body = body[idx[0]:]
        elif stmt is not None:
            if stmt not in self.loop_nodes:
                raise Unsupported(f'statement selector {stmt} not found')
            body = [self.loop_nodes[stmt]]
        results = []
        for s, out in self.exec_block(body, st):
            results.append((s, out))
            if len(results) > self.max_paths:
                raise Unsupported('too many paths')
        return results


def _suppress(interp, st, args, kwargs):
    """contextlib.suppress(*classes): a context manager that swallows exceptions of those classes raised in its body"""
    from .ops import CM
    names = []
    for a in args:
        if isinstance(a, ExcClass):
            names.append(a.name)
        else:
            raise Unsupported('contextlib.suppress of a non-class')
    yield st, CM('suppress', suppress=names)


_SUPPRESS = Model('contextlib.suppress', _suppress)


class StarArg:
    def __init__(self, v):
        self.v = v


class ConcreteIter:
    def __init__(self, items):
        self.items = list(items)


def call_name(func):
    try:
        return ast.unparse(func)
    except Exception:
        return None


def default_time_module():
    def sleep(interp, st, args, kwargs):
        st.emit('sleep', seconds=args[0] if args else None)
        yield st, None

    def reading(interp, st, args, kwargs):
        v = sym.fresh(sym.REAL, 'clock')
        st.assume(v.z >= 0)
        yield st, v

    return Obj('time', sleep=Model('time.sleep', sleep), **{n: Model('time.' + n, reading) for n in ('time', 'monotonic', 'perf_counter')})


DEFAULT_DROP = (
    'logger.*', 'logging.*', 'self.display_status', 'self.display_danger',
    'bytes_tracker.*', 'finished_tracker.*', 'finished_snapshots_tracker.*',
    'finished_chunks_tracker.*', 'deleted_objects_tracker.*', 'self._tracker.*',
)
