"""Units: one real function (selected structurally from /repo's current source)
under a sidecar contract."""
from __future__ import annotations

import ast
import time
import traceback

import z3

from . import sym, source, solve, models
from .sym import SV, INT, BOOL, STR, BYTES, Opt, Ref, Unsupported
from .interp import Interp, State, Obligation, LoopSpec, Closure, Model, Obj, Exc, Raised


class Path:
    def __init__(self, st, out):
        self.st, self.out = st, out
        self.notes = list(st.notes)

    @property
    def kind(self):
        return self.out[0]

    @property
    def value(self):
        return self.out[1] if len(self.out) > 1 else None

    def events(self, kind=None):
        return [e for e in self.st.events if kind is None or e.kind == kind]

    def pc_at(self, ev):
        pc = PC(self.st.pc[: ev.pc_len])
        pc.path = self
        return pc

    def library_unknowns(self):
        return library_unknowns(self.st.events)


class PC(list):
    """a path-condition prefix that remembers the path it was cut from"""
    path = None


def library_unknowns(events):
    """names of LIBRARY / module-level objects without a model that this path observed INSIDE A CALLEE that was inlined for want of a
    contract (typically after a helper was renamed and its real body inlined): modular reasoning has nothing to say about such a call.
    A library call the function under contract makes ITSELF is different: its result is arbitrary and the contract has to hold anyway.  Instance state, parameters, locals and closure variables a change introduced are NOT
    in this list: an obligation that such state can falsify is reported."""
    return sorted({str(e.data.get('name')) for e in events if e.kind == 'unknown_state_used' and str(e.data.get('name', '')).startswith('module:')
                   and e.data.get('depth', 0) >= 1})[:8]


class Builder:
    def __init__(self, interp):
        self.interp = interp
        self.st = State()
        self.st.frames[0][0].update(models.BUILTINS)
        self.requires = []

    def bind(self, name, value):
        self.st.frames[0][0][name] = value
        return value

    def sym(self, name, ty, bind=True):
        v = sym.const(ty, name)
        if bind:
            self.bind(name, v)
        return v

    def ref(self, name, cls, bind=True):
        v = sym.const(Ref(cls), name)
        self.assume(z3.And(v.z >= 0, v.z < self.st.alloc_base))
        if bind:
            self.bind(name, v)
        return v

    def assume(self, z):
        self.st.assume(z)
        self.requires.append(z)

    def ghost(self, name, value):
        self.st.ghost[name] = value
        return value


class UnitResult:
    def __init__(self, unit, interp, paths, builder):
        self.unit, self.interp, self.paths, self.builder = unit, interp, paths, builder
        self.extra = []

    def oblige(self, path_or_pc, name, goal, tag='top', meta=None):
        pc = path_or_pc.st.pc if isinstance(path_or_pc, Path) else path_or_pc
        path = path_or_pc if isinstance(path_or_pc, Path) else getattr(path_or_pc, 'path', None)
        if path is not None:
            lib = path.library_unknowns()
            if lib:
                meta = dict(meta or {}, library_unknowns_on_path=lib)
        self.extra.append(Obligation(f'{self.unit.name}.{name}', list(pc), goal, tag, meta))

    def body_paths(self, loop):
        """end states of the generic iteration of a cut loop"""
        return [Path(s, o) for s, o in self.interp.loop_paths.get(loop, [])]

    def all_paths(self):
        out = list(self.paths)
        for name in self.interp.loop_paths:
            out.extend(self.body_paths(name))
        return out

    def returns(self):
        return [p for p in self.paths if p.kind in ('return', 'normal')]

    def raises(self, cls=None):
        return [p for p in self.paths if p.kind == 'raise' and (cls is None or p.value.cls == cls)]


class Unit:
    def __init__(self, name, relpath, selector, setup, post=None, loops=None, nth=None,
                 contextmanager=False, drop=None, expect_min_obligations=1, prop=None,
                 replay=None, on_yield=None, notes='', local_types=None, stmt=None, node_loader=None):
        self.name, self.relpath, self.selector = name, relpath, selector
        self.setup, self.post, self.loops, self.nth = setup, post, loops or {}, nth
        self.contextmanager, self.drop = contextmanager, drop
        self.expect_min_obligations = expect_min_obligations
        self.prop = prop
        self.replay = replay
        self.on_yield = on_yield
        self.notes = notes
        self.local_types = local_types or {}
        self.stmt = stmt
        self.node_loader = node_loader

    def target(self):
        return f'{self.relpath}::{self.selector}' + (f'#{self.nth}' if self.nth is not None else '') + (f'::{self.stmt if isinstance(self.stmt, str) else "region"}' if self.stmt else '')

    def execute(self):
        """-> (obligations, info dict).  raises Unsupported when undecided."""
        if self.node_loader is not None:
            node = self.node_loader()
        else:
            node = source.select(self.relpath, self.selector, self.nth)
        interp = Interp(self.name, loops=self.loops, contextmanager=self.contextmanager,
                        drop=self.drop, local_types=self.local_types)
        interp.on_yield = self.on_yield
        interp.on_augassign = getattr(self, 'on_augassign', None)
        interp.relpath = self.relpath
        interp.unit_node = node
        self._last_interp = interp
        b = Builder(interp)
        b.node = node
        self.setup(b)
        b.st.notes.clear()       # heap reads made by the sidecar itself are not program accesses
        # every parameter must be bound by the sidecar
        a = node.args
        for p in (a.posonlyargs + a.args + a.kwonlyargs if self.stmt is None else []):
            if not b.st.has(p.arg):
                # a parameter the sidecar does not know (added by a change): it may hold anything
                from .interp import Unknown
                b.bind(p.arg, Unknown(f'param:{p.arg}'))
        req_sat = solve.satisfiable(b.st.pc)
        if req_sat == z3.unsat:
            raise VacuityError(f'{self.name}: contradictory requires')
        # the function runs on a COPY: the builder's state keeps the entry values (sidecars read parameters from it even when
        # the code re-binds them)
        entry = b.st
        b.st = entry.copy()
        results = interp.run_function(node, b.st, stmt=self.stmt)
        b.st = entry
        paths = [Path(s, o) for s, o in results]
        res = UnitResult(self, interp, paths, b)
        if self.post is not None:
            self.post(res)
        # a memoising decorator (lru_cache, cache, cached_property ...) keys the result on the arguments only: it is transparent only if
        # the method reads no instance state that can change after the first call
        memo = source.memo_decorators(node) if self.node_loader is None else []
        if memo:
            stale = source.mutable_self_state_read(self.relpath, self.selector)
            res.extra.append(Obligation(f'{self.name}.memoised_result_cannot_outlive_the_state_it_was_computed_from', [], z3.BoolVal(not stale),
                                        'top', {'decorators': memo, 'mutable_state_read': stale}))
        if memo and not any('typed=True' in m.replace(' ', '') for m in memo):
            # functools caches key on the arguments by EQUALITY and hash: True, 1 and 1.0 share an entry unless typed=True.  A memoised
            # function that hands a numeric argument back as (part of) its result then returns an equal value of ANOTHER type
            for prm in (a.posonlyargs + a.args + a.kwonlyargs if self.stmt is None else []):
                v0 = entry.lookup(prm.arg) if entry.has(prm.arg) else None
                if isinstance(v0, SV) and v0.ty in (INT, BOOL, sym.REAL):
                    echoed = [p for p in paths if p.kind == 'return' and isinstance(p.value, SV) and p.value.ty == v0.ty and z3.eq(p.value.z, v0.z)]
                    if echoed:
                        res.extra.append(Obligation(f'{self.name}.memoised_result_is_keyed_by_value_and_type[{prm.arg}]', list(echoed[0].st.pc),
                                                    z3.BoolVal(False), 'top', {'decorators': memo, 'parameter_type': v0.ty.name()}))
        # a mutable default argument the body changes in place is state shared between calls (defaults are built once, at `def` time)
        for prm in (source.shared_mutable_defaults(node) if self.stmt is None else []):
            res.extra.append(Obligation(f'{self.name}.default_argument_is_not_state_shared_between_calls[{getattr(node, "name", "?")}.{prm}]', [],
                                        z3.BoolVal(False), 'top', {'parameter': prm}))
        obligations = interp.obligations + res.extra
        info = {
            'target': self.target(),
            'source_hash': (source.node_hash(self.relpath, node) if self.node_loader is None
                            else __import__('hashlib').sha256(getattr(node, 'cxx_text', '').encode()).hexdigest()[:16]),
            'paths': len(paths),
            'path_kinds': sorted({p.kind + (':' + p.value.cls if p.kind == 'raise' else '') for p in paths}),
            'dropped_calls': dict(interp.dropped_calls),
            'feasibility_checks': interp.solver_checks,
            'loop_shape': source.loop_shape(node) if self.node_loader is None else None,
            # state / callables the engine had no model for on some path (over-approximated): explains a coverage guard that fails
            'unknown_used': sorted({str(e.data.get('name')) for p in res.all_paths() for e in p.st.events
                                    if e.kind in ('unknown_state_used', 'opaque_comprehension', 'unknown_closure_variable')})[:20],
        }
        return obligations, info, res


class Lemma:
    """A lemma over contracts only: build(ob) adds obligations from scratch."""

    def __init__(self, name, build, prop=None, notes=''):
        self.name, self.build, self.prop, self.notes = name, build, prop, notes

    def target(self):
        return f'lemma::{self.name}'

    def execute(self):
        obs = []

        def add(name, assumptions, goal, tag='top', meta=None):
            obs.append(Obligation(f'{self.name}.{name}', list(assumptions), goal, tag, meta))

        self.build(add)
        return obs, {'target': self.target(), 'paths': 0, 'source_hash': None, 'dropped_calls': {}}, None


class VacuityError(Exception):
    pass


def run_unit(unit, second_solver=False, timeout_ms=None):
    """Run a unit or lemma fully; returns a JSON-able dict."""
    t0 = time.time()
    out = {'unit': unit.name, 'target': unit.target(), 'verdicts': [], 'status': 'ok', 'info': {}, 'notes': unit.notes}
    try:
        obligations, info, res = unit.execute()
        out['info'] = info
        if len(obligations) < getattr(unit, 'expect_min_obligations', 1):
            out['status'] = 'defect'
            out['error'] = f'only {len(obligations)} obligations generated (vacuity guard)'
            return out
        for v in solve.prove_all(obligations, timeout_s=max(5, int((timeout_ms or 10000) / 1000)),
                                 second_solver=second_solver):
            out['verdicts'].append(v.as_dict())
        # canary: a false goal under the first path's condition must be refuted
        if res is not None and res.paths:
            can = Obligation(f'{unit.name}.canary', res.paths[0].st.pc, z3.BoolVal(False), 'canary')
            cv, _ = solve.prove_fast(can)
            out['canary'] = cv.status
            if cv.status == 'proved':
                out['status'] = 'defect'
                out['error'] = 'canary proved: path condition of first path is contradictory (vacuous)'
    except Unsupported as e:
        out['status'] = 'undecided'
        out['error'] = f'Unsupported: {e}'
        # obligations generated before the engine gave up are still decided (a refuted one is reported)
        interp = getattr(unit, '_last_interp', None)
        if interp is not None and interp.obligations:
            try:
                for v in solve.prove_all(interp.obligations, timeout_s=5):
                    if v.status == 'refuted':
                        out['verdicts'].append(v.as_dict())
            except Exception:
                pass
    except source.SelectorError as e:
        out['status'] = 'undecided'
        out['error'] = f'Selector: {e}'
    except z3.Z3Exception as e:
        # a value the symbolic encoding cannot represent reached a z3 constructor (e.g. unknown state used as a sequence): the
        # construct is outside the engine's reach, which is UNDECIDED - not a crash of the check and not a violation
        out['status'] = 'undecided'
        out['error'] = f'Unsupported: value outside the symbolic encoding ({str(e)[:120]})'
    except VacuityError as e:
        out['status'] = 'defect'
        out['error'] = str(e)
    except Exception as e:
        interp = getattr(unit, '_last_interp', None)
        used_unknown = False
        try:
            for st_, _ in (getattr(interp, '_all_end_states', None) or []):
                pass
        except Exception:
            pass
        tb = traceback.format_exc()
        # a sidecar that trips over a value it cannot interpret (unknown state introduced by a change: `Unknown`) could not
        # evaluate its contract on this code: undecided, not a checker defect.  Anything else is a defect of the checker.
        if "'Unknown' object" in tb or 'Unknown(' in tb:
            out['status'] = 'undecided'
            out['error'] = 'Unsupported: the sidecar met state it has no model for while evaluating its contract: ' + tb.strip().splitlines()[-1][:200]
            # obligations the engine itself generated while executing the code are still decided (a refuted one is reported)
            if interp is not None and interp.obligations:
                try:
                    for v in solve.prove_all(interp.obligations, timeout_s=5):
                        if v.status == 'refuted':
                            out['verdicts'].append(v.as_dict())
                except Exception:
                    pass
        else:
            out['status'] = 'defect'
            out['error'] = 'engine exception: ' + tb
    out['seconds'] = round(time.time() - t0, 3)
    return out
