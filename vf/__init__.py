"""vf - a small contract-based deductive verifier for the Python (and one C++)
functions of vaultah/replicat.  See /verif/DESIGN.md.

Runs under python3-vt (z3-solver 5.x).  Re-reads /repo's current source on
every run; contracts are sidecar files under /verif/specs.
"""
import os

REPO = os.environ.get('REPO', '/repo')
VERIF = os.path.dirname(os.path.dirname(os.path.abspath(__file__)))
