"""./check <id> [--tier quick|thorough] [--replay file] [--units a,b] [-v]

Exit codes: 0 held / 1 violation (VIOLATION line) / 2 undecided / 3 checker defect.
"""
from __future__ import annotations

import argparse
import importlib
import json
import multiprocessing as mp
import os
import subprocess
import sys
import time

from . import VERIF, REPO


def _run_one(args):
    prop, idx, second, timeout_ms = args
    # re-import inside the worker: z3 objects are not picklable
    spec = importlib.import_module(f'specs.{prop}')
    unit = spec.UNITS[idx]
    from .unit import run_unit
    return run_unit(unit, second_solver=second, timeout_ms=timeout_ms)


def load_known():
    p = os.path.join(VERIF, 'known_findings.json')
    if not os.path.exists(p):
        return []
    return json.load(open(p))['findings']


def main(argv=None):
    ap = argparse.ArgumentParser()
    ap.add_argument('prop')
    ap.add_argument('--tier', default=os.environ.get('VERIF_TIER', 'quick'), choices=['quick', 'thorough'])
    ap.add_argument('--replay')
    ap.add_argument('--units')
    ap.add_argument('-v', action='store_true')
    ap.add_argument('--jobs', type=int, default=int(os.environ.get('VF_JOBS', '16')))
    ap.add_argument('--no-bounded', action='store_true')
    ap.add_argument('--record-baseline', action='store_true')
    args = ap.parse_args(argv)
    prop = args.prop
    seed = int(os.environ.get('VERIF_SEED', '0'))
    sys.path.insert(0, VERIF)
    t0 = time.time()
    from . import report
    if args.replay:
        return report.do_replay(prop, args.replay)
    try:
        spec = importlib.import_module(f'specs.{prop}')
    except Exception:
        import traceback
        traceback.print_exc()
        print(f'CHECKER-DEFECT property={prop} cannot load spec')
        return 3
    units = list(enumerate(spec.UNITS))
    if args.units:
        want = set(args.units.split(','))
        units = [(i, u) for i, u in units if u.name in want or any(u.name.startswith(w) for w in want)]
    second = args.tier == 'thorough'
    timeout_ms = 180000 if args.tier == 'thorough' else 45000
    jobs = [(prop, i, second, timeout_ms) for i, _ in units]
    if len(jobs) > 1 and args.jobs > 1:
        # one future per unit; a worker that dies (solver crash) breaks the pool instead of hanging it: the units
        # without a result are then re-run one by one in fresh processes, and reported as checker defects if that
        # fails again (never as a verdict on the property)
        from concurrent.futures import ProcessPoolExecutor
        from concurrent.futures.process import BrokenProcessPool
        ctx = mp.get_context('fork')
        results = [None] * len(jobs)
        for attempt, width in ((0, min(args.jobs, len(jobs))), (1, 1), (2, 1)):
            todo = [k for k, r in enumerate(results) if r is None]
            if not todo:
                break
            if width == 1:
                for k in todo:
                    with ProcessPoolExecutor(1, mp_context=ctx) as ex:
                        try:
                            results[k] = ex.submit(_run_one, jobs[k]).result()
                        except BrokenProcessPool:
                            pass
                continue
            with ProcessPoolExecutor(width, mp_context=ctx) as ex:
                futs = {k: ex.submit(_run_one, jobs[k]) for k in todo}
                for k, f in futs.items():
                    try:
                        results[k] = f.result()
                    except BrokenProcessPool:
                        pass
        for k, r in enumerate(results):
            if r is None:
                u = units[k][1]
                results[k] = {'unit': u.name, 'target': u.target(), 'status': 'defect', 'verdicts': [], 'info': {},
                              'error': 'worker process died three times (solver crash)', 'seconds': 0}
    else:
        results = [_run_one(j) for j in jobs]
    bounded = []
    if not args.no_bounded:
        for b in getattr(spec, 'BOUNDED', []):
            if args.units and b['name'] not in args.units.split(','):
                continue
            if b.get('tier', 'quick') == 'thorough' and args.tier != 'thorough':
                continue
            bounded.append(report.run_bounded(prop, b, args.tier, seed))
    return report.finish(prop, spec, results, bounded, args.tier, seed, t0, verbose=args.v,
                         partial=bool(args.units), record=args.record_baseline)


if __name__ == '__main__':
    sys.exit(main())
