"""Run the checks against the BEHAVIOUR-PRESERVING refactorings kept under /verif/benign_patches/<name>/ (developer command): patches
written by independent sub-agents that were told to change nothing observable (8-25 lines: extracted helpers, renamed locals,
loops <-> comprehensions, early returns, ...).  Every check must end 0 (held) or 2 (undecided: a construct or a loop shape the
sidecars have no contract for) - NEVER 1: a violation reported on such a tree is a false alarm.

python3-vt selftest/benign_patches.py [name ...] [--all-props]"""
import json, os, shutil, subprocess, sys

sys.path.insert(0, os.path.dirname(os.path.abspath(__file__)))
from seeded import scratch_copy, VERIF          # noqa: E402


def main():
    args = [a for a in sys.argv[1:] if not a.startswith('-')]
    root = os.path.join(VERIF, 'benign_patches')
    names = args or sorted(os.listdir(root))
    bad = 0
    for name in names:
        d = os.path.join(root, name)
        meta = json.load(open(os.path.join(d, 'meta.json')))
        props = meta['properties'] if '--all-props' not in sys.argv else [f'C{i:02d}' for i in range(1, 21)]
        tree = scratch_copy()
        try:
            p = subprocess.run(['patch', '-p1', '-s', '-i', os.path.join(d, 'patch.diff')], cwd=tree, capture_output=True, text=True)
            if p.returncode:
                print(f'== {name}: PATCH-FAILED {p.stdout[-200:]}')
                continue
            t = subprocess.run(['/venv/bin/python', '-m', 'pytest', '-q', '-p', 'no:cacheprovider', '-x'], cwd=tree, capture_output=True, text=True)
            tests = t.stdout.strip().splitlines()[-1] if t.stdout.strip() else t.stderr[-200:]
            print(f'== {name}: tests: {tests}')
            for prop in props:
                env = dict(os.environ, REPO=tree, VF_NO_EVIDENCE='1')
                r = subprocess.run([os.path.join(VERIF, 'check'), prop], capture_output=True, text=True, env=env, timeout=3600)
                lines = [l[:220] for l in r.stdout.splitlines() if l.startswith(('VIOLATION', 'UNDECIDED', 'CHECKER'))]
                flag = '  <<<<<< FALSE ALARM' if r.returncode == 1 else ('  <<< checker crash' if r.returncode == 3 else '')
                bad += r.returncode in (1, 3)
                print(f'   {prop}: exit {r.returncode} {lines[:2]}{flag}')
        finally:
            shutil.rmtree(tree, ignore_errors=True)
    sys.exit(1 if bad else 0)


if __name__ == '__main__':
    main()
