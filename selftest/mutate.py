"""Mutation self-test helper (developer command, not a property check).

python3-vt selftest/mutate.py <prop> <relpath> <old> <new> [--units u]
Copies /repo's sources to a scratch dir outside /repo and /verif, applies one textual
replacement (must match exactly once), runs ./check with REPO pointing there and
removes the scratch copy."""
import os, shutil, subprocess, sys, tempfile

def run(prop, relpath, old, new, extra=()):
    tmp = tempfile.mkdtemp(prefix='vfmut_')
    try:
        for d in ('replicat', 'src'):
            shutil.copytree(os.path.join('/repo', d), os.path.join(tmp, d))
        for f in os.listdir('/repo'):
            if f.endswith('.so'):
                os.symlink(os.path.join('/repo', f), os.path.join(tmp, f))
        p = os.path.join(tmp, relpath)
        s = open(p).read()
        if s.count(old) != 1:
            print(f'pattern matches {s.count(old)} times'); return 99, ''
        open(p, 'w').write(s.replace(old, new))
        env = dict(os.environ, REPO=tmp, VF_NO_EVIDENCE='1')
        r = subprocess.run(['/verif/check', prop, '--no-bounded', *extra], capture_output=True, text=True, env=env)
        return r.returncode, r.stdout + r.stderr
    finally:
        shutil.rmtree(tmp, ignore_errors=True)

if __name__ == '__main__':
    prop, relpath, old, new = sys.argv[1:5]
    rc, out = run(prop, relpath, old.encode().decode('unicode_escape'), new.encode().decode('unicode_escape'), sys.argv[5:])
    lines = out.strip().splitlines()
    for l in lines[-12:]:
        print(l[:400])
    print('exit', rc)
