"""D20 (open, C09): after a restore that fails because SEVERAL chunks cannot be downloaded, the process does not exit.

restore() propagates the first failure out of asyncio.gather while other loader threads are still working; the command handler does not
close the repository on failure, asyncio.run() tears the loop down, and a loader thread that asked the loop for a connection slot just before
that (`asyncio.run_coroutine_threadsafe(self._slots.get(), loop).result()` in _acquire_slot_threadsafe) waits for ever.  The executor's
threads are joined at interpreter exit, so `replicat restore` prints the error and then hangs.

usage (from the tree under test):  /venv/bin/python /verif/selftest/findings/D20_demo.py <concurrent> <files>     e.g. 5 60
exit status 1 with a FileNotFoundError traceback = terminated as it should; no exit within ~20 s = the finding (run it under `timeout 20`)."""
import sys, os, asyncio, pathlib, tempfile, shutil, random
sys.path.insert(0, os.getcwd())
import replicat.repository as R
from replicat.backends.local import Local
print(R.__file__)
async def go(root, conc, nfiles):
    r = R.Repository(Local(root/'repo'), concurrent=conc, quiet=True, cache_directory=None)
    await r.init(settings={'encryption': None, 'chunking': {'min_length': 8, 'max_length': 64}})
    src = root/'src'; src.mkdir()
    rnd = random.Random(1)
    for i in range(nfiles):
        (src/f'f{i}').write_bytes(rnd.randbytes(700))
    s = await r.snapshot(paths=[src])
    chunks = sorted((root/'repo'/'data').rglob('*'))
    files = [c for c in chunks if c.is_file()]
    for f in files[::2]:
        f.unlink()
    await r.restore(path=root/'out')      # like _cmd_handler: close() only after a successful command
    await r.close()
conc, nfiles = int(sys.argv[1]), int(sys.argv[2])
root = pathlib.Path(tempfile.mkdtemp())
try:
    asyncio.run(go(root, conc, nfiles))
finally:
    shutil.rmtree(root, ignore_errors=True)
print('main done')
