"""D16: Local.list_files turns ANY OSError on the prefix directory into an empty listing; `clean` then sees no snapshots and deletes
every chunk.  Real EACCES: the repository's snapshots/ directory is unreadable for the (non-root) user running clean."""
import asyncio, os, sys, shutil, tempfile, stat
sys.path.insert(0, os.getcwd())
import replicat.repository as R
from replicat.backends.local import Local
print(R.__file__)

async def build(root):
    repo = R.Repository(Local(root / 'repo'), concurrent=2, quiet=True, cache_directory=None)
    await repo.init(settings={'encryption': None, 'chunking': {'min_length': 8, 'max_length': 64}})
    await repo.unlock()
    (root / 'src').mkdir()
    (root / 'src' / 'a').write_bytes(os.urandom(500))
    await repo.snapshot(paths=[root / 'src'])
    await repo.close()

async def clean(root):
    repo = R.Repository(Local(root / 'repo'), concurrent=2, quiet=True, cache_directory=None)
    await repo.unlock()
    await repo.clean()
    await repo.close()

async def restore(root):
    repo = R.Repository(Local(root / 'repo'), concurrent=2, quiet=True, cache_directory=None)
    await repo.unlock()
    await repo.restore(path=root / 'out')
    await repo.close()

from pathlib import Path
root = Path(tempfile.mkdtemp(prefix='d16_', dir='/tmp'))
os.chmod(root, 0o777)
try:
    asyncio.run(build(root))
    for d, ds, fs in os.walk(root):
        os.chmod(d, 0o777)
        for f in fs:
            os.chmod(os.path.join(d, f), 0o666)
    n_before = sum(len(fs) for _, _, fs in os.walk(root / 'repo' / 'data'))
    os.chmod(root / 'repo' / 'snapshots', 0o000)         # e.g. a botched chown/rsync: the directory cannot be listed
    pid = os.fork()
    if pid == 0:
        os.setgid(65534); os.setuid(65534)
        import time; time.sleep = lambda s: None
        try:
            asyncio.run(clean(root))
            os._exit(0)
        except BaseException as e:
            print('clean failed:', type(e).__name__, e)
            os._exit(7)
    _, st = os.waitpid(pid, 0)
    code = os.waitstatus_to_exitcode(st)
    os.chmod(root / 'repo' / 'snapshots', 0o777)
    n_after = sum(len(fs) for _, _, fs in os.walk(root / 'repo' / 'data'))
    print('clean exit', code, 'chunks before', n_before, 'after', n_after)
    bad = False
    if n_after < n_before:
        bad = True
        print('VIOLATION: clean removed', n_before - n_after, 'chunks that the (still listed) snapshot references')
        try:
            asyncio.run(restore(root))
        except BaseException as e:
            print('restore of the remaining snapshot fails:', type(e).__name__, str(e)[:100])
finally:
    os.chmod(root / 'repo' / 'snapshots', 0o777)
    shutil.rmtree(root, ignore_errors=True)
os._exit(1 if bad else 0)
