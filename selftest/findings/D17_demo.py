import asyncio, os, sys, tempfile, shutil
sys.path.insert(0, os.getcwd())
from pathlib import Path
import replicat.repository as R
from replicat.backends.local import Local
print(R.__file__)
async def go(root, settings):
    r = R.Repository(Local(root / 'repo'), concurrent=2, quiet=True, cache_directory=None)
    try:
        res = await r.init(password=b'pw', settings=settings)
    except Exception as e:
        left = list(Local(root/'repo').list_files('')) if (root/'repo').exists() else []
        return 'rejected: %s: %s (objects left: %d)' % (type(e).__name__, str(e)[:80], len(left))
    await r.close()
    r2 = R.Repository(Local(root / 'repo'), concurrent=2, quiet=True, cache_directory=None)
    try:
        await r2.unlock(password=b'pw', key=r2.serialize(res.key) if res.key else None)
        (root/'src').mkdir(); (root/'src'/'f').write_bytes(b'x'*100)
        await r2.snapshot(paths=[root/'src'])
        await r2.restore(path=root/'out')
        return 'accepted and usable'
    except Exception as e:
        return 'ACCEPTED BUT UNUSABLE: %s: %s' % (type(e).__name__, str(e)[:100])
    finally:
        await r2.close()
import io, contextlib
for settings in ({'hashing': {'name': 'aes_gcm'}, 'encryption': None}, {'hashing': {'name': 'scrypt'}, 'encryption': None}, {'chunking': {'name': 'sha2'}, 'encryption': None},
                 {'encryption': {'cipher': {'name': 'blake2b'}, 'kdf': {'name': 'scrypt', 'n': 4, 'r': 1, 'p': 1}}}, {'encryption': {'kdf': {'name': 'aes_gcm'}}}):
    root = Path(tempfile.mkdtemp(prefix='d17_'))
    with contextlib.redirect_stdout(io.StringIO()):
        out = asyncio.run(go(root, settings))
    print(settings, '->', out)
    shutil.rmtree(root, ignore_errors=True)
