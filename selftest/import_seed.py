"""python3 selftest/import_seed.py C10 [suffix]  -- copy an agent's deliverables from /tmp/mut_<id> into /verif/seeded/"""
import json, os, shutil, sys
pid = sys.argv[1]
suffix = sys.argv[2] if len(sys.argv) > 2 else 'a'
src = sys.argv[3] if len(sys.argv) > 3 else f'/tmp/mut_{pid}'
dst = f'/verif/seeded/{pid}_{suffix}'
os.makedirs(dst, exist_ok=True)
for f in ('patch.diff', 'demo.py', 'notes.md'):
    shutil.copy(os.path.join(src, f), dst)
meta = {'properties': [pid], 'breaks': pid, 'needs_to_manifest': '(see notes.md)', 'source': 'independent sub-agent given only the property text and its own worktree',
        'what_i_ran': 'selftest/seeded.py: demo on unchanged scratch copy (must pass), patch applied, demo (must fail), repo test-suite on the patched worktree (256 passed, reported by the agent and re-run by me), ./check on the patched scratch copy'}
json.dump(meta, open(os.path.join(dst, 'meta.json'), 'w'), indent=1)
print('imported', dst)
