"""Run the checks against the seeded changes kept under /verif/seeded/<name>/ (developer command).

python3-vt selftest/seeded.py [name ...] [--all-props] [--tier quick]
For each seeded change: copy /repo's sources to a scratch dir outside /repo and /verif, apply patch.diff, run the
demonstration (must fail there and pass on the unchanged tree), run ./check <property> with REPO pointing to the
scratch tree, print the verdict, remove the scratch copy."""
import json, os, shutil, subprocess, sys, tempfile

VERIF = os.path.dirname(os.path.dirname(os.path.abspath(__file__)))


def scratch_copy():
    tmp = tempfile.mkdtemp(prefix='vfseed_')
    for d in ('replicat', 'src'):
        shutil.copytree(os.path.join('/repo', d), os.path.join(tmp, d))
    for f in os.listdir('/repo'):
        if f.endswith('.so'):
            os.symlink(os.path.join('/repo', f), os.path.join(tmp, f))
    for f in ('README.md',):
        if os.path.exists(os.path.join('/repo', f)):
            shutil.copy(os.path.join('/repo', f), tmp)
    return tmp


def run_demo(tree, demo):
    env = dict(os.environ, REPO=tree, PYTHONPATH=tree)
    try:
        r = subprocess.run(['/venv/bin/python', demo], cwd=tree, capture_output=True, text=True, timeout=300, env=env)
        return r.returncode, (r.stdout + r.stderr)[-400:]
    except subprocess.TimeoutExpired:
        return 124, 'timeout'


def main():
    args = [a for a in sys.argv[1:] if not a.startswith('-')]
    tier = 'quick'
    if '--tier' in sys.argv:
        tier = sys.argv[sys.argv.index('--tier') + 1]
        args = [a for a in args if a != tier]
    root = os.path.join(VERIF, 'seeded')
    names = args or sorted(os.listdir(root))
    summary = []
    for name in names:
        d = os.path.join(root, name)
        meta = json.load(open(os.path.join(d, 'meta.json')))
        props = meta['properties'] if '--all-props' not in sys.argv else [f'C{i:02d}' for i in range(1, 21)]
        tree = scratch_copy()
        try:
            base_rc, _ = run_demo(tree, os.path.join(d, 'demo.py'))
            p = subprocess.run(['git', 'apply', '--directory', '.', os.path.join(d, 'patch.diff')], cwd=tree, capture_output=True, text=True)
            if p.returncode:
                p = subprocess.run(['patch', '-p1', '-i', os.path.join(d, 'patch.diff')], cwd=tree, capture_output=True, text=True)
            if p.returncode:
                summary.append((name, 'PATCH-FAILED', p.stderr[-200:]))
                continue
            mut_rc, mut_out = run_demo(tree, os.path.join(d, 'demo.py'))
            verdicts = {}
            for prop in props:
                env = dict(os.environ, REPO=tree, VF_NO_EVIDENCE='1', VERIF_TIER=tier)
                r = subprocess.run([os.path.join(VERIF, 'check'), prop, '--tier', tier], capture_output=True, text=True, env=env, timeout=3600)
                lines = [l for l in r.stdout.splitlines() if l.startswith(('VIOLATION', 'UNDECIDED', 'CHECKER'))]
                verdicts[prop] = (r.returncode, lines if '-v' in sys.argv else lines[:2])
            summary.append((name, f'demo unchanged={base_rc} changed={mut_rc}', verdicts))
        finally:
            shutil.rmtree(tree, ignore_errors=True)
    for name, demo, verdicts in summary:
        print(f'== {name}: {demo}')
        if isinstance(verdicts, dict):
            for prop, (rc, lines) in verdicts.items():
                print(f'   {prop}: exit {rc}  {"; ".join((l if "-v" in sys.argv else l[:160]) for l in lines)}')
        else:
            print('  ', verdicts)


if __name__ == '__main__':
    main()
