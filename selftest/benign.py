"""Harmless edits that must NOT raise an alarm (developer command): python3-vt selftest/benign.py [name ...]
Each edit is applied to a scratch copy of /repo's sources, then every check named for it is run with REPO pointing there."""
import os, shutil, subprocess, sys, tempfile

VERIF = os.path.dirname(os.path.dirname(os.path.abspath(__file__)))
ALL = [f'C{i:02d}' for i in range(1, 21)]
R = 'replicat/repository.py'
EDITS = {
    'logging_everywhere': (ALL, [
        (R, "            finished_files_count = 0\n", "            finished_files_count = 0\n            logger.debug('chunk done %r', chunk.counter)\n"),
        (R, "        chunks_to_delete.difference_update(chunks_to_keep)\n", "        chunks_to_delete.difference_update(chunks_to_keep)\n        logger.info('will delete %d chunks', len(chunks_to_delete))\n"),
        (R, "            logger.info('Verifying %s', location)\n            if self.props.hash_digest(decrypted_contents) != digest:", "            logger.info('Verifying %s (%d bytes)', location, len(decrypted_contents))\n            if self.props.hash_digest(decrypted_contents) != digest:"),
        ('replicat/utils/__init__.py', "        start = time.perf_counter()\n        data = self._file.read(size)", "        logger.debug('limited read of %r', size)\n        start = time.perf_counter()\n        data = self._file.read(size)"),
        ('replicat/backends/s3c.py', "        now = datetime.utcnow()\n        x_amz_date", "        now = datetime.utcnow()\n        logger.debug('signing %s %s', method, canonical_uri)\n        x_amz_date"),
    ]),
    'rename_locals': (['C01', 'C14', 'C08', 'C02'], [
        (R, "                part_start = max(file.stream_start - chunk.stream_start, 0)\n                part_end = min(file.stream_end, chunk.stream_end) - chunk.stream_start\n                file_data['chunks'].append(\n                    {\n                        'range': [part_start, part_end],",
            "                lo = max(file.stream_start - chunk.stream_start, 0)\n                hi = min(file.stream_end, chunk.stream_end) - chunk.stream_start\n                file_data['chunks'].append(\n                    {\n                        'range': [lo, hi],"),
        (R, "        referenced_locations = set(\n            map(self._chunk_digest_to_location, referenced_digests)\n        )\n        to_delete = set()", "        referenced_locations = set(\n            map(self._chunk_digest_to_location, referenced_digests)\n        )\n        to_delete = set()\n        unrelated_counter = 0"),
    ]),
    'reorder_independent': (['C01', 'C05', 'C07', 'C14', 'C02', 'C03', 'C09'], [
        (R, "                state.chunk_counter += 1\n                stream_start = state.bytes_chunked\n                state.bytes_chunked += len(output_chunk)\n                digest = self.props.hash_digest(output_chunk)\n",
            "                digest = self.props.hash_digest(output_chunk)\n                stream_start = state.bytes_chunked\n                state.bytes_chunked += len(output_chunk)\n                state.chunk_counter += 1\n"),
        (R, "        chunks_to_delete = set()\n        chunks_to_keep = set()\n        snapshots_locations = set()\n", "        snapshots_locations = set()\n        chunks_to_keep = set()\n        chunks_to_delete = set()\n"),
    ]),
    'messages_and_comments': (['C01', 'C02', 'C04', 'C06', 'C08', 'C15', 'C17', 'C18'], [
        (R, "raise exceptions.ReplicatError(f'Chunk at {location!r} is corrupted')", "raise exceptions.ReplicatError(f'Chunk stored at {location!r} failed verification')"),
        (R, "f'Cannot delete snapshot {name} (different key)'", "f'Snapshot {name} belongs to a different key and cannot be deleted'"),
        (R, "        # TODO: locking\n        self.display_status('Loading snapshots')\n        chunks_to_delete", "        # NOTE: no locking yet, see the issue tracker\n        self.display_status('Loading snapshots')\n        chunks_to_delete"),
    ]),
    'harmless_new_state': (['C02', 'C07', 'C05', 'C03', 'C09', 'C01'], [
        (R, "        self._slots = asyncio.PriorityQueue(maxsize=concurrent)\n", "        self._slots = asyncio.PriorityQueue(maxsize=concurrent)\n        self._stats = {'chunks': 0}\n"),
        (R, "                if exists:\n                    _chunk_done(chunk)\n", "                self._stats['chunks'] = 1\n                if exists:\n                    _chunk_done(chunk)\n"),
    ]),
    'equivalent_expressions': (['C01', 'C10', 'C11', 'C20', 'C16', 'C12'], [
        (R, "-(prev_file.stream_end - prev_file.stream_start) % alignment", "(prev_file.stream_start - prev_file.stream_end) % alignment"),
        ('replicat/utils/adapters.py', "                pos = chunker.next_cut(buffer, bool(next_chunk is None))", "                final = next_chunk is None\n                pos = chunker.next_cut(buffer, final)"),
        ('src/adapters.cpp', "k > max_value", "k >= max_value"),
        ('replicat/utils/__init__.py', "        expected_elapsed = len(data) / self._rate_limiter.read_limit\n", "        limit = self._rate_limiter.read_limit\n        expected_elapsed = len(data) / limit\n"),
        ('replicat/backends/s3c.py', "        signed_headers = \";\".join(canonical_headers)", "        signed_headers = ';'.join(list(canonical_headers))"),
    ]),
    # equivalent refactors of the code the later contracts (rounds 2-5) talk about
    'equivalent_refactors_2': (['C12', 'C03', 'C19', 'C20', 'C13', 'C16', 'C18', 'C02', 'C08', 'C15', 'C05', 'C07', 'C01', 'C09'], [
        # copyfileobj's length passed positionally
        ('replicat/backends/local.py', "                shutil.copyfileobj(stream, file, length=chunk_size)", "                shutil.copyfileobj(stream, file, chunk_size)"),
        # the give-up predicate written with a local
        ('replicat/backends/s3c.py', "def _check_403(e):\n    return (\n        isinstance(e, httpx.HTTPStatusError)\n        and e.response.status_code == httpx.codes.FORBIDDEN\n    )",
         "def _check_403(e):\n    if not isinstance(e, httpx.HTTPStatusError):\n        return False\n    status = e.response.status_code\n    return status == httpx.codes.FORBIDDEN"),
        # the tail of _load_snapshots with renamed loop variables and an explicit `is not None`
        (R, "        async for task in utils.as_completed(future_to_path):\n            if (body := await task) is None:\n                continue\n            yield future_to_path[task], body",
         "        async for done in utils.as_completed(future_to_path):\n            loaded = await done\n            if loaded is not None:\n                yield future_to_path[done], loaded"),
        # cache primitives through a local
        (R, "        file = Path(self._cache_directory, path)\n        file.parent.mkdir(parents=True, exist_ok=True)\n        file.write_bytes(data)",
         "        entry = Path(self._cache_directory, path)\n        entry.parent.mkdir(exist_ok=True, parents=True)\n        entry.write_bytes(data)"),
        # as_completed with a local alias of the callback
        ('replicat/utils/__init__.py', "    for task in tasks:\n        task.add_done_callback(queue.put_nowait)", "    report = queue.put_nowait\n    for task in tasks:\n        task.add_done_callback(report)"),
        # the restore tail with the generator bound to a name first
        (R, "            await asyncio.gather(\n                *(\n                    loop.run_in_executor(loader, _download_chunk, *x)\n                    for x in chunks_references.items()\n                )\n            )",
         "            jobs = (\n                loop.run_in_executor(loader, _download_chunk, *x)\n                for x in chunks_references.items()\n            )\n            await asyncio.gather(*jobs)"),
        # parse_repository via partition-free rewrite of the length test
        ('replicat/utils/__init__.py', "    parts = uri.split(':', 1)\n    if len(parts) < 2:", "    parts = uri.split(':', 1)\n    if len(parts) == 1:"),
        # the chunk producer's abort check with the log line first
        (R, "                    if abort.is_set():\n                        logging.info('Stopping chunk producer')\n                        return\n\n                    try:\n                        chunk_queue.put(chunk, timeout=queue_timeout)",
         "                    stop = abort.is_set()\n                    if stop:\n                        logging.info('Stopping chunk producer')\n                        return\n\n                    try:\n                        chunk_queue.put(chunk, timeout=queue_timeout)"),
    ]),
    # equivalent spellings of the code the round-7 contracts talk about
    'equivalent_refactors_3': (['C07', 'C01', 'C09', 'C15', 'C14', 'C02', 'C08', 'C13', 'C03', 'C05', 'C06', 'C17'], [
        (R, "        files.sort(key=lambda file: (file.stat().st_size, str(file)))", "        files = sorted(files, key=lambda f: (f.stat().st_size, str(f)))"),
        (R, "        chunk_producer = loop.run_in_executor(chunk_producer_executor, _chunk_producer)",
            "        chunk_producer = asyncio.ensure_future(\n            loop.run_in_executor(chunk_producer_executor, _chunk_producer)\n        )"),
        (R, "        now = datetime.utcnow()\n        snapshot_data = {", "        now = datetime.now(timezone.utc).replace(tzinfo=None)\n        snapshot_data = {"),
        ('replicat/backends/local.py', "        (self.path / name).unlink(missing_ok=True)", "        try:\n            (self.path / name).unlink()\n        except FileNotFoundError:\n            pass"),
        ('replicat/backends/local.py', "        return os.path.exists(self.path / name)", "        return (self.path / name).exists()"),
        ('replicat/utils/adapters.py', "        self.key_bits, self.nonce_bits = key_bits, nonce_bits\n", "        self.nonce_bits = nonce_bits\n        self.key_bits = key_bits\n"),
        (R, "        self.display_status('Loading config')\n        props = self._parse_config(await self._download('config'))", "        self.display_status('Loading config')\n        config_contents = await self._download('config')\n        props = self._parse_config(config_contents)"),
    ]),
}


def main():
    names = [a for a in sys.argv[1:]] or list(EDITS)
    for name in names:
        props, edits = EDITS[name]
        tmp = tempfile.mkdtemp(prefix='vfbenign_')
        try:
            for d in ('replicat', 'src'):
                shutil.copytree(os.path.join('/repo', d), os.path.join(tmp, d))
            for f in os.listdir('/repo'):
                if f.endswith('.so'):
                    os.symlink(os.path.join('/repo', f), os.path.join(tmp, f))
            ok = True
            for rel, old, new in edits:
                p = os.path.join(tmp, rel)
                s = open(p).read()
                if s.count(old) != 1:
                    print(f'!! {name}: pattern matches {s.count(old)} times in {rel}: {old[:50]!r}')
                    ok = False
                    continue
                open(p, 'w').write(s.replace(old, new))
            r = subprocess.run(['/venv/bin/python', '-m', 'pytest', '-q', '-p', 'no:cacheprovider', '-x'], cwd=tmp, capture_output=True, text=True)
            tests = r.stdout.strip().splitlines()[-1] if r.stdout.strip() else r.stderr[-200:]
            print(f'== {name}: tests: {tests}')
            for prop in props:
                env = dict(os.environ, REPO=tmp, VF_NO_EVIDENCE='1')
                r = subprocess.run([os.path.join(VERIF, 'check'), prop], capture_output=True, text=True, env=env)
                lines = [l[:200] for l in r.stdout.splitlines() if l.startswith(('VIOLATION', 'UNDECIDED', 'CHECKER'))]
                print(f'   {prop}: exit {r.returncode} {lines[:2]}')
        finally:
            shutil.rmtree(tmp, ignore_errors=True)


if __name__ == '__main__':
    main()
