"""python3-vt selftest/import_benign.py <Cxx> <suffix> <srcdir>: file an agent's behaviour-preserving patch under benign_patches/"""
import json, os, shutil, sys
VERIF = os.path.dirname(os.path.dirname(os.path.abspath(__file__)))
prop, suffix, src = sys.argv[1:4]
d = os.path.join(VERIF, 'benign_patches', f'{prop}_{suffix}')
os.makedirs(d, exist_ok=True)
for f in ('patch.diff', 'notes.md', 'equiv.py'):
    if os.path.exists(os.path.join(src, f)):
        shutil.copy(os.path.join(src, f), d)
json.dump({'properties': [prop], 'kind': 'behaviour-preserving refactoring', 'source': 'independent sub-agent given only the property text and its own worktree'},
          open(os.path.join(d, 'meta.json'), 'w'), indent=1)
print('imported', d)
