"""C04 - Damaged or substituted repository objects are never restored silently."""
from specs import restore, snapbody

LEVEL = 'proof'
UNITS = [restore.download_chunk_unit('C04', restore.c04_download_chunk_post('C04')),
         snapbody.download_snapshot_unit('C04'), snapbody.decrypt_body_unit('C04')]
TRUSTED = []
ASSUMPTIONS = []
