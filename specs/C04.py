"""C04 - Damaged or substituted repository objects are never restored silently."""
from specs import restore, snapbody, c18, options

LEVEL = 'proof'
UNITS = [options.main_run_unit('C04'), restore.download_chunk_unit('C04', restore.c04_download_chunk_post('C04')),
         snapbody.download_snapshot_unit('C04'), snapbody.decrypt_body_unit('C04'), restore.restore_tail_unit('C04')] + c18.units('C04')
from specs import families as _families
UNITS = _families.with_families('C04', UNITS)
BOUNDED = [{'name': 'C04.e2e_corrupt', 'script': 'bounded/c04_corrupt.py', 'timeout': 900, 'bound': 'two small repositories (plain / encrypted, 2 snapshots, 3 files): every stored object x {bit flip at 7 offset classes, truncate to 4 length classes, append, delete (chunks)} + swaps/replays of object pairs; every 3rd case in quick tier; cache absent / warm / truncated for every 4th case; every 7th corruption also through the command line (child interpreter running replicat.__main__.main): exit status 0 only with exactly the original content; a file of ~240 chunks with one chunk flipped or removed at 6 positions of the schedule (first, second, 1/5, middle, last two); chunks of 1.5-2 MiB (three hash families, unencrypted) flipped at the last byte, just behind 1 MiB, or with the tail zeroed'}]
TRUSTED = [
    'vf symbolic executor (/verif/vf): encoding of the Python subset (DESIGN 2.2)',
    'z3 5.1 (API + z3-new CLI), cvc5 1.0.3 (strings)',
]
ASSUMPTIONS = ['A-aead: a successful AEAD decryption under key k means the ciphertext is ENC(plaintext, k, nonce)', 'A-collision: H and MAC injective on compared values', 'backend.download_stream(name, stream) leaves B[name] in the stream or raises', 'honest ciphertexts under KDF(shared, ctx=d) carry a plaintext hashing to d (writer contract C14.chunk.body)', 'snapshot cache path: see C18']
MANIFEST = {
    'text': 'Deductive proof that every buffer handed to a file writer is authentic for the digest the snapshot references (hash equality, or AEAD under the digest-derived key), that the key and location are bound to that digest, that snapshot bodies are verified against the name of the very path loaded, and that a failed table decryption is never swallowed.',
    'note': 'Trusted: vf engine, SMT solvers; cryptographic strength is assumed (uninterpreted H/ENC/DEC/KDF/MAC with A-aead, A-collision).',
    'technique': 'contract-based deductive verification: sidecar contracts + loop invariants on the real functions, VCs by symbolic execution of the AST, discharged by z3/cvc5',
    'design_ref': 'DESIGN.md 6/C04',
}
