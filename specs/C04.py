"""C04 - Damaged or substituted repository objects are never restored silently."""
from specs import restore

LEVEL = 'proof'
UNITS = [restore.download_chunk_unit('C04', restore.c04_download_chunk_post('C04'))]
TRUSTED = []
ASSUMPTIONS = []
