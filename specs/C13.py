"""C13 - All backends behave as the same simple object store."""
from specs import local, s3, b2, retry

LEVEL = 'proof'
UNITS = [b2.upload_url_unit('C13')] + retry.requires_auth_units('C13') + local.small_units('C13') + local.units('C13') + s3.list_units('C13') + s3.method_units('C13')[:3] + b2.units('C13')[:1] + b2.units('C13')[3:]
from specs import families as _families
UNITS = _families.with_families('C13', UNITS)
BOUNDED = [{'name': 'C13.stores', 'script': 'bounded/c13_stores.py', 'timeout': 900, 'bound': 'real S3-compatible and B2 adapters against in-memory services written from the public API descriptions (pages of 3 names), and the local adapter on a scratch directory (files read back from disk): 6 (thorough: 40) seeded histories per service of 14 operations (upload, upload_stream, delete incl. absent names twice, exists, download, download_stream, list) over 9 names (prefixes of each other, spaces, +, non-ASCII, .tmp); after every operation the service content and list_files for 3 prefixes are compared with a dict model, on the same and on a fresh adapter object'},
           {'name': 'C13.local.list_names', 'script': 'bounded/c13_local.py', 'timeout': 600, 'bound': '9 spellings of the repository path x 8 names (incl. .tmp suffix, spaces, non-ASCII) x all prefixes of those names; 10 (thorough: 200) seeded random operation sequences of 25 ops against a dict model'}]
TRUSTED = [
    'vf symbolic executor (/verif/vf): encoding of the Python subset (DESIGN 2.2)',
    'z3 5.1 (API + z3-new CLI), cvc5 1.0.3 (strings)',
]
ASSUMPTIONS = ['NOT APPLICABLE PART: S3/B2 server-side semantics (overwrite, hide markers, listing consistency) and cross-adapter equivalence over histories are properties of external services: assumed, not decided', 'the page functions (_list_objects / _list_file_names) return what the service answers; truncated S3 pages carry a NextContinuationToken', 'os.replace atomic, unlink(missing_ok=True) idempotent, os.scandir/os.path.relpath as documented']
MANIFEST = {
    'text': 'Deductive proof of the contract-shaped fragments: the S3 and B2 listing generators yield exactly the keys of page 1, 2, ... requesting each page with the previous page\'s cursor and the caller\'s prefix and stopping on the last page; B2 delete swallows only the two "already gone" answers; the local adapter publishes by atomic replace, never lists its temporary files and addresses objects relative to the repository path.',
    'note': 'Trusted: vf engine, SMT solvers; OS and web services assumed. The listing/spelling claim for the local backend is decided only by the bounded stand-in C13.local.list_names; the behaviour of the three real adapters as ONE object store over histories is explored by the bounded stand-in C13.stores (in-memory S3/B2 services, scratch directory); open known finding D10 (names ending in .tmp are never listed).',
    'technique': 'contract-based deductive verification: sidecar contracts + loop invariants on the real functions, VCs by symbolic execution of the AST, discharged by z3/cvc5',
    'design_ref': 'DESIGN.md 6/C13',
}
