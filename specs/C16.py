"""C16 - Every request sent to an S3 service is correctly signed."""
from specs import streams, s3, objects

LEVEL = 'proof'
UNITS = s3.request_units('C16') + s3.prepare_units('C16') + s3.method_units('C16') + s3.list_units('C16')[:1] + s3.ctor_units('C16') + streams.units('C16') + objects.upload_file_units('C16')
from specs import families as _families
UNITS = _families.with_families('C16', UNITS)
BOUNDED = [{'name': 'C16.wire', 'script': 'bounded/c16_wire.py', 'timeout': 600, 'bound': 'EXHAUSTIVE per-byte encoding (256 values, path and query); wire scenarios: 3 (thorough: 6) payload sizes around the 128000-byte stream chunk x 3-4 names x prefixes/tokens over printable and non-ASCII alphabets, every adapter operation, independent SigV4; one scenario in which every distinct request is refused once (503/500) and the retried request is verified like any other'}]
TRUSTED = [
    'vf symbolic executor (/verif/vf): encoding of the Python subset (DESIGN 2.2)',
    'z3 5.1 (API + z3-new CLI), cvc5 1.0.3 (strings)',
]
ASSUMPTIONS = ['A-httpx: the client sends raw_path/query exactly as given in the URL string and a Host header equal to the URL host (audited by the bounded stand-in at MockTransport)', 'HMAC/SHA256/hex as uninterpreted deterministic functions; datetime formatting as uninterpreted functions of one clock reading', 'urllib.quote / urlencode(quote_via=quote) encode byte-wise (homomorphism); the per-byte table is checked exhaustively (256 values) by C16.wire', 'the constructors of S3Compatible and S3 (regional endpoint s3.<region>.amazonaws.com) are under contract (s3c.ctor, s3.ctor units)']
MANIFEST = {
    'text': 'Deductive proof that the Authorization header equals an independently written SigV4 spec term over exactly the values that go on the wire (method, the very encoded path appended to the URL, the very query string after "?", host / x-amz-content-sha256 / x-amz-date as sent, one clock reading for date and scope), that the declared payload hash and content-length match the body for bytes and stream uploads, and that body-less verbs declare the empty-payload hash.',
    'note': 'Trusted: vf engine, SMT solvers, uninterpreted crypto/formatting. The bounded stand-in recomputes signatures with an independent implementation from captured requests and enumerates the encoding of all 256 byte values.',
    'technique': 'contract-based deductive verification: sidecar contracts + loop invariants on the real functions, VCs by symbolic execution of the AST, discharged by z3/cvc5',
    'design_ref': 'DESIGN.md 6/C16',
}
