"""upload_objects: what is declared for a streamed upload is measured on the stream that is sent.

`Repository.upload_objects._upload_file` (the nested closure, real source) with the file system and the wrappers under assumed
contracts.  The backend adapters take `length` as the declared size of the body (S3: the Content-Length that is signed and sent); it has
to be the size of the file AS OPENED for this upload - measured on the open descriptor - not a size remembered from an earlier look."""
from __future__ import annotations

import z3

from vf import sym, models, ops
from vf.sym import SV, INT, BOOL, STR, Opt
from vf.interp import Model, Obj, Raised, Exc
from vf.unit import Unit
from vf.ops import CM
from specs import shared
from specs.shared import REPO_PY, UF

FD = models.opaque_type('FileDescriptor')


def size_of_open(fd):
    return UF('size_of_open_file', FD, INT)(fd)


def upload_file_setup(limited):
    def setup(b):
        me = shared.repo_self(b, props=False, cache=False)
        b.me = me
        b.sym('skip_existing', BOOL)
        b.sym('upload_chunk_size', INT)
        b.bind('working_directory', Obj('<cwd>'))

        def open_(interp, st, args, kwargs):
            bad = st.copy()
            yield bad, Raised(Exc('OSError'))
            fd = sym.fresh(FD, 'fd')
            st.emit('open_for_upload', fd=fd, mode=args[0] if args else None)
            f = Obj('<open file>', fileno=Model('fileno', lambda i, s, a, k, fd=fd: iter([(s, fd)])))
            f._lenient = True
            yield st, CM('file', value=f)

        rel = Obj('<relative path>', as_posix=Model('as_posix', lambda i, s, a, k: iter([(s, sym.const(STR, 'object_name'))])))
        path = Obj('<path>', relative_to=Model('relative_to', lambda i, s, a, k: iter([(s, rel)])), open=Model('open', open_))
        path._lenient = True
        b.bind('path', path)

        def fstat(interp, st, args, kwargs):
            (fd,) = args
            if not (isinstance(fd, SV) and fd.ty == FD):
                raise sym.Unsupported('os.fstat of something that is not a descriptor of the opened file')
            st.emit('fstat', fd=fd)
            yield st, Obj('<stat result>', st_size=SV(INT, size_of_open(fd.z)))

        os_ = Obj('os', fstat=Model('fstat', fstat), path=Obj('os.path', commonpath=Model('commonpath', lambda i, s, a, k: iter([(s, Obj('<common>'))]))))
        os_._lenient = True
        b.bind('os', os_)
        me._attrs['_exists'] = Model('_exists', lambda i, s, a, k: iter([(s, sym.fresh(BOOL, 'exists'))]))
        me._attrs['_acquire_slot'] = Model('_acquire_slot', lambda i, s, a, k: iter([(s, CM('slot', value=sym.fresh(INT, 'slot')))]))
        wrap = lambda name: Model(name, lambda i, s, a, k: (s.emit('wrapped', how=name, args=list(a), kwargs=dict(k)), iter([(s, CM(name, value=Obj(f'<{name}>')))]))[1])
        b.bind('rate_limiter', Obj('<limiter>', wrap=wrap('rate_limiter.wrap')) if limited else None)
        b.bind('CallbackIOWrapper', wrap('CallbackIOWrapper'))
        ut = Obj('utils', TQDMIOReader=wrap('TQDMIOReader'))
        ut._lenient = True
        b.bind('utils', ut)
        tr = lambda n: Obj(n, update=Model('update', lambda i, s, a, k: iter([(s, None)])))
        b.bind('bytes_tracker', tr('bytes_tracker'))
        b.bind('finished_tracker', tr('finished_tracker'))
        b.backend_upload = Obj('<backend.upload_stream>')
        me._attrs['backend'] = Obj('backend', upload_stream=b.backend_upload)

        def run(interp, st, args, kwargs):
            st.emit('backend_call', fn=args[0], args=list(args[1:]))
            bad = st.copy()
            yield bad, Raised(Exc('AnyError'))
            yield st, None

        me._attrs['_maybe_run_in_executor'] = Model('_maybe_run_in_executor', run)
    return setup


def upload_file_post(prop, label):
    def post(res):
        from vf.interp import Unknown
        b = res.builder
        n = 0
        for p in res.paths:
            for e in p.events('backend_call'):
                if e.data['fn'] is not b.backend_upload:
                    continue
                n += 1
                a = e.data['args']
                opened = [o for o in p.st.events[: p.st.events.index(e)] if o.kind == 'open_for_upload']
                ln = a[2] if len(a) > 2 else None
                if isinstance(ln, Unknown) and ('open file' in ln.name or 'file' == ln.name.split('.')[0]):
                    raise sym.Unsupported('the length is measured on the open stream in a way the sidecar has no model for')
                ok = len(opened) == 1 and isinstance(ln, SV) and ln.ty == INT
                # the declared length is the size of the file as opened for THIS upload (measured on the open descriptor, after opening)
                res.oblige(p.pc_at(e), f'{prop}.upload_file[{label}].declared_length_is_measured_on_the_stream_that_is_sent',
                           z3.BoolVal(False) if not ok else ln.z == size_of_open(opened[0].data['fd'].z))
                res.oblige(p.pc_at(e), f'{prop}.upload_file[{label}].pieces_of_the_chunk_size_the_command_chose',
                           z3.BoolVal(len(a) > 3 and isinstance(a[3], SV)) if not (len(a) > 3 and isinstance(a[3], SV)) else a[3].z == b.st.lookup('upload_chunk_size').z)
        res.oblige([], f'{prop}.upload_file[{label}].upload_sites_checked', z3.BoolVal(n >= 1))
    return post


def upload_file_units(prop):
    return [Unit(f'{prop}.upload_objects.upload_file[{label}]', REPO_PY, 'Repository.upload_objects._upload_file', upload_file_setup(lim),
                 upload_file_post(prop, label), prop=prop) for label, lim in (('unlimited', False), ('rate_limited', True))]
