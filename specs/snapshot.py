"""Contracts for Repository.snapshot's closures (C01, C02, C05, C07, C09, C11, C14)."""
from __future__ import annotations

import z3

from vf import sym, models, ops
from vf.sym import SV, INT, BOOL, STR, BYTES, Opt, Tup, List, Set, Dict, Ref, Cls
from vf.interp import Model, Raised, Exc, Obj, LoopSpec, IterSpec, Closure
from vf.unit import Unit, Lemma
from vf.ops import Property, CM, MethodModel
from specs import shared, gc
from specs.shared import REPO_PY, UF, H

META = models.opaque_type('Meta', pytype='dict')


def _meta_getitem(interp, st, v, idx):
    # os.stat numbers recorded for the file: whatever the file system said (NOT tied to the bytes that were streamed:
    # a file can grow or shrink while it is read, procfs files report size 0)
    if isinstance(idx, str):
        yield st, SV(INT, UF('meta_' + idx, META, INT)(v.z))
    else:
        raise sym.Unsupported('metadata key')


META.getitem = _meta_getitem
SNAPFILE = Cls('SnapshotFile', {'path': STR, 'stream_start': INT, 'stream_end': INT,
                                'metadata': Opt(META), 'digest': Opt(BYTES)})
FILES_ELEM = Tup(INT, Ref(SNAPFILE))
STATE = Cls('SnapshotState', {'bytes_with_padding': INT, 'bytes_chunked': INT, 'bytes_reused': INT,
                              'chunk_counter': INT, 'current_file': Opt(Ref(SNAPFILE)),
                              'files': List(FILES_ELEM)})
CHUNK = Cls('SnapshotChunk', {'contents': BYTES, 'index': INT, 'location': STR,
                              'stream_start': INT, 'stream_end': INT, 'counter': INT})
ENTRY = Cls('Entry', {'range': List(INT), 'index': INT, 'counter': INT}, keyed=True)
FILEDATA = Cls('FileData', {'path': STR, 'chunks': List(Ref(ENTRY)), 'digest': Opt(BYTES),
                            'metadata': Opt(META)}, keyed=True)
SNAPFILES = sym.DictC(STR, Ref(FILEDATA))


class Files:
    """view of state.files at a given state"""

    def __init__(self, st, state_ref):
        h = st.heap
        lst = h.read(STATE, 'files', state_ref)
        lc = sym.ListC(FILES_ELEM)
        self.n = h.read(lc, 'len', lst)
        self.arr = h.read(lc, 'arr', lst)
        self.h = h

    def key(self, i):
        return FILES_ELEM.proj(z3.Select(self.arr, i), 0)

    def ref(self, i):
        return FILES_ELEM.proj(z3.Select(self.arr, i), 1)

    def start(self, i):
        return self.h.read(SNAPFILE, 'stream_start', self.ref(i))

    def end(self, i):
        return self.h.read(SNAPFILE, 'stream_end', self.ref(i))

    def path(self, i):
        return self.h.read(SNAPFILE, 'path', self.ref(i))


def I_files(F, upto=None):
    """data invariant of state.files (established/maintained by _stream_files, unit C01.stream)"""
    i, j = z3.Ints('fi fj')
    n = F.n
    return z3.And(
        n >= 0,
        z3.ForAll([i], z3.Implies(z3.And(0 <= i, i < n), z3.And(
            F.key(i) == F.start(i), 0 <= F.start(i), F.start(i) <= F.end(i)))),
        # pairwise (closed) form, so that no induction is needed: files occupy disjoint, ordered ranges
        z3.ForAll([i, j], z3.Implies(z3.And(0 <= i, i < j, j < n), F.end(i) <= F.start(j))),
        # distinct file objects and (C01.flatten.distinct) distinct paths
        z3.ForAll([i, j], z3.Implies(z3.And(0 <= i, i < j, j < n), z3.And(F.ref(i) != F.ref(j), F.path(i) != F.path(j)))),
    )


def chunk_done_setup(b):
    me = shared.repo_self(b, props=False, cache=False)
    state = b.ref('state', STATE)
    chunk = b.ref('chunk', CHUNK)
    sf = b.ref('snapshot_files', SNAPFILES)
    b.bind('bisect', models.BISECT)
    F = Files(b.st, state.z)
    b.F = F
    b.assume(I_files(F))
    h = b.st.heap
    cs, ce = h.read(CHUNK, 'stream_start', chunk.z), h.read(CHUNK, 'stream_end', chunk.z)
    b.assume(z3.And(0 <= cs, cs < ce))           # chunks are non-empty (C10.call.nonempty)
    b.cs, b.ce = cs, ce
    b.chunk, b.sf = chunk, sf
    # derived from I_files (lemma C01.lemma.sorted_keys, proved below): keys are sorted
    i, j = z3.Ints('si sj')
    b.sorted_goal = z3.ForAll([i, j], z3.Implies(z3.And(0 <= i, i <= j, j < F.n), F.key(i) <= F.key(j)))
    b.assume(WF_sf(b.st, sf.z, b.st.alloc_base))


def WF_sf(st, sf, frontier):
    """data invariant of snapshot_files: one record per path, carrying that path, with its own chunk list"""
    h = st.heap
    p, q = z3.Strings('wp wq')
    has, val = h.read(SNAPFILES, 'has', sf), h.read(SNAPFILES, 'val', sf)
    rec = lambda x: z3.Select(val, x)
    LE = sym.ListC(Ref(ENTRY))
    return z3.And(
        z3.ForAll([p], z3.Implies(z3.Select(has, p), z3.And(
            rec(p) >= 0, rec(p) < frontier,
            h.read(FILEDATA, 'path', rec(p)) == p,
            h.read(FILEDATA, 'chunks', rec(p)) >= 0, h.read(FILEDATA, 'chunks', rec(p)) < frontier,
            h.read(LE, 'len', h.read(FILEDATA, 'chunks', rec(p))) >= 0))),
        z3.ForAll([p, q], z3.Implies(z3.And(z3.Select(has, p), z3.Select(has, q), p != q), z3.And(
            rec(p) != rec(q), h.read(FILEDATA, 'chunks', rec(p)) != h.read(FILEDATA, 'chunks', rec(q))))))


def chunk_done_inv(b):
    def inv(ctx):
        F = Files(ctx.st, ctx.v('state'))
        F0 = b.F
        bp = ctx.v('bisect_point')
        k = ctx.k
        j = z3.Int('ij')
        return z3.And(
            0 <= bp, bp <= F0.n, k <= bp,
            # state.files itself is not modified by _chunk_done
            F.n == F0.n, F.arr == F0.arr,
            # every index processed so far touched the chunk
            z3.ForAll([j], z3.Implies(z3.And(bp - 1 - k < j, j <= bp - 1), F0.end(j) >= b.cs)),
            WF_sf(ctx.st, b.sf.z, ctx.frontier()),
            # the input objects are untouched
            ctx.st.heap.arr(SNAPFILE, 'stream_start') == b.st.heap.arr(SNAPFILE, 'stream_start'),
        )
    return inv


def inter_len(fs, fe, cs, ce):
    lo = z3.If(fs > cs, fs, cs)
    hi = z3.If(fe < ce, fe, ce)
    return z3.If(hi > lo, hi - lo, 0)


def chunk_done_post(prop):
    def post(res):
        b = res.builder
        F0, cs, ce = b.F, b.cs, b.ce
        h0 = b.st.heap
        LE = sym.ListC(Ref(ENTRY))
        # --- per-iteration obligations (generic index) -------------------------------------------
        n_iter = 0
        for p in res.body_paths('For#1'):
            st = p.st
            idx = st.lookup('index').z
            fs, fe = F0.start(idx), F0.end(idx)
            apps = [e for e in p.events('list_append') if e.data['target'].ty == List(Ref(ENTRY))]
            sig = p.kind
            if p.kind == 'break':
                res.oblige(p, f'{prop}.done.break_only_when_file_ends_before_chunk', fe < cs)
                res.oblige(p, f'{prop}.done.break_appends_nothing', z3.BoolVal(not apps))
                continue
            if p.kind not in ('normal', 'continue'):
                res.oblige(p, f'{prop}.done.iteration_total[{sig}]', z3.BoolVal(False))
                continue
            n_iter += 1
            res.oblige(p, f'{prop}.done.visited_file_touches_chunk', z3.And(fe >= cs, fs <= ce))
            res.oblige(p, f'{prop}.done.exactly_one_entry_per_visited_file', z3.BoolVal(len(apps) == 1))
            if len(apps) != 1:
                continue
            e = apps[0]
            ent = e.data['value'].z
            rng = st.heap.read(ENTRY, 'range', ent)
            LI = sym.ListC(INT)
            r0 = z3.Select(st.heap.read(LI, 'arr', rng), 0)
            r1 = z3.Select(st.heap.read(LI, 'arr', rng), 1)
            res.oblige(p, f'{prop}.done.range_has_two_elements', st.heap.read(LI, 'len', rng) == 2)
            # C01.done.attribution (top): the recorded range is the intersection of file and chunk,
            # expressed in chunk coordinates
            res.oblige(p, f'{prop}.done.attribution.length_is_intersection', r1 - r0 == inter_len(fs, fe, cs, ce))
            res.oblige(p, f'{prop}.done.attribution.position', z3.And(
                r0 == z3.If(fs > cs, fs - cs, 0), 0 <= r0, r0 <= r1, r1 <= ce - cs))
            res.oblige(p, f'{prop}.done.attribution.index_counter', z3.And(
                st.heap.read(ENTRY, 'index', ent) == h0.read(CHUNK, 'index', b.chunk.z),
                st.heap.read(ENTRY, 'counter', ent) == h0.read(CHUNK, 'counter', b.chunk.z)))
            # the entry goes to the record of THIS file's path (frame: nobody else's list)
            sfhas = st.heap.read(SNAPFILES, 'has', b.sf.z)
            sfval = st.heap.read(SNAPFILES, 'val', b.sf.z)
            pth = F0.path(idx)
            res.oblige(p, f'{prop}.done.entry_goes_to_this_files_record', z3.And(
                z3.Select(sfhas, pth), e.data['target'].z == st.heap.read(FILEDATA, 'chunks', z3.Select(sfval, pth)),
                st.heap.read(FILEDATA, 'path', z3.Select(sfval, pth)) == pth))
            # digest/metadata recorded exactly when the chunk reaches the end of a fully hashed file
            fdig = h0.read(SNAPFILE, 'digest', F0.ref(idx))
            fd = z3.Select(sfval, pth)
            done = z3.And(ce >= fe, z3.Not(Opt(BYTES).is_none(fdig)))
            res.oblige(p, f'{prop}.done.digest_recorded_when_file_complete', z3.Implies(done, z3.And(
                st.heap.read(FILEDATA, 'digest', fd) == fdig,
                st.heap.read(FILEDATA, 'metadata', fd) == h0.read(SNAPFILE, 'metadata', F0.ref(idx)))))
        res.oblige([], f'{prop}.done.iterations_checked', z3.BoolVal(n_iter >= 2))
        # --- which files are visited (loop structure + I_files) ----------------------------------
        j = z3.Int('vj')
        touching = lambda jj: z3.And(F0.start(jj) <= ce, F0.end(jj) >= cs)
        for p in res.paths:
            st = p.st
            if p.kind not in ('normal', 'return'):
                res.oblige(p, f'{prop}.done.total[{p.kind}]', z3.BoolVal(False))
                continue
            bp = st.lookup('bisect_point').z
            broke = any(e.kind == 'loop_body' for e in st.events) and not any(e.kind == 'loop_exit' for e in st.events)
            if broke:
                lo = st.lookup('index').z          # the index at which the loop broke (not appended)
            else:
                lo = z3.IntVal(-1)
            visited = lambda jj: z3.And(lo < jj, jj <= bp - 1)
            res.oblige(p, f'{prop}.done.visited_iff_touching[{"break" if broke else "exhausted"}]',
                       z3.ForAll([j], z3.Implies(z3.And(0 <= j, j < F0.n), visited(j) == touching(j))))
        res.oblige(b.requires, f'{prop}.lemma.sorted_keys', b.sorted_goal, tag='helper')
    return post


def chunk_done_unit(prop):
    holder = {}

    def setup(b):
        chunk_done_setup(b)
        u.loops['For#1'].inv = chunk_done_inv(b)

    LE = sym.ListC(Ref(ENTRY))
    u = Unit(f'{prop}.chunk_done', REPO_PY, 'Repository.snapshot._chunk_done', setup, chunk_done_post(prop),
             loops={'For#1': LoopSpec(None, modifies=[
                 ('heap', SNAPFILES, 'has'), ('heap', SNAPFILES, 'val'), ('heap', SNAPFILES, 'n'), ('heap', SNAPFILES, 'order'),
                 ('heap', FILEDATA, 'path'), ('heap', FILEDATA, 'chunks'), ('heap', FILEDATA, 'digest'), ('heap', FILEDATA, 'metadata'),
                 ('heap', LE, 'arr'), ('heap', LE, 'len'),
                 ('heap', ENTRY, 'range'), ('heap', ENTRY, 'index'), ('heap', ENTRY, 'counter'),
                 ('heap', sym.ListC(INT), 'arr'), ('heap', sym.ListC(INT), 'len'),
             ], name='For#1', types={'file_data': Ref(FILEDATA)})},
             prop=prop)
    return u


# ------------------------------------------------------------------ _stream_files
PATHOBJ = models.opaque_type('PathObj')
FILEOBJ = models.opaque_type('FileObj')


def path_str(z):
    return UF('path_str', PATHOBJ, STR)(z)


def alignment_value():
    from vf import source
    node = source.class_attr(shared.ADAPTERS_PY, 'gclmulchunker', 'alignment')
    return node.value


def stream_setup(b):
    me = shared.repo_self(b, props=False, cache=False)
    state = b.ref('state', STATE)
    files = b.ref('files', sym.ListC(PATHOBJ))
    LC = sym.ListC(PATHOBJ)
    h = b.st.heap
    b.files_n = h.read(LC, 'len', files.z)
    b.files_arr = h.read(LC, 'arr', files.z)
    b.assume(b.files_n >= 0)
    i, j = z3.Ints('pi pj')
    # requires (C01.flatten.distinct): the flattened file list has pairwise distinct paths
    b.assume(z3.ForAll([i, j], z3.Implies(z3.And(0 <= i, i < j, j < b.files_n),
                                          path_str(z3.Select(b.files_arr, i)) != path_str(z3.Select(b.files_arr, j)))))
    # initial state = _SnapshotState()
    F = Files(b.st, state.z)
    b.assume(F.n == 0)
    b.assume(h.read(STATE, 'bytes_with_padding', state.z) == 0)
    b.assume(Opt(Ref(SNAPFILE)).is_none(h.read(STATE, 'current_file', state.z)))
    lst = h.read(STATE, 'files', state.z)
    b.assume(z3.And(lst >= 0, lst < b.st.alloc_base))
    b.state = state
    b.align = alignment_value()
    b.ghost('ystream', SV(BYTES, z3.StringVal('')))
    b.ghost('consumed', SV(BYTES, z3.StringVal('')))
    b.ghost('fed', SV(BYTES, z3.StringVal('')))
    chunker = models.opaque_type('ChunkerWithAlignment', attrs={'alignment': b.align})
    hasher_obj = Obj('hasher')

    def feed(interp, st, args, kwargs):
        st.ghost['fed'] = SV(BYTES, z3.Concat(st.ghost['fed'].z, sym.lift(args[0], BYTES).z))
        yield st, None

    def digest(interp, st, args, kwargs):
        yield st, SV(BYTES, H()(st.ghost['fed'].z))

    hasher_obj._attrs = {'feed': Model('feed', feed), 'digest': Model('digest', digest)}

    def incremental_hasher(interp, st, args, kwargs):
        st.ghost['fed'] = SV(BYTES, z3.StringVal(''))
        yield st, hasher_obj

    me._attrs['props'] = Obj('props', chunker=SV(chunker, z3.Const('chunker', chunker.sort())),
                             incremental_hasher=Model('incremental_hasher', incremental_hasher))

    def read(interp, st, args, kwargs):
        _, size = args
        eof = st.copy()
        eof.emit('read_eof')
        yield eof, b''
        c = sym.fresh(BYTES, 'piece')
        st.assume(z3.And(z3.Length(c.z) >= 1, z3.Length(c.z) <= sym.lift(size, INT).z))
        st.ghost['consumed'] = SV(BYTES, z3.Concat(st.ghost['consumed'].z, c.z))
        st.emit('read', data=c)
        yield st, c

    FILEOBJ.attrs = {'read': MethodModel('read', read),
                     'fileno': MethodModel('fileno', lambda i, s, a, k: iter([(s, sym.fresh(INT, 'fd'))]))}

    def open_(interp, st, args, kwargs):
        # the file was listed earlier: by now it may be gone (or unreadable)
        gone = st.copy()
        gone.emit('open_failed', path=args[0])
        yield gone, Raised(Exc('FileNotFoundError'))
        st.ghost['consumed'] = SV(BYTES, z3.StringVal(''))
        f = sym.fresh(FILEOBJ, 'fobj')
        st.emit('open', path=args[0])
        yield st, CM('file', value=f)

    PATHOBJ.attrs = {'open': MethodModel('open', open_)}

    def str_(interp, st, args, kwargs):
        (v,) = args
        if isinstance(v, SV) and v.ty == PATHOBJ:
            yield st, SV(STR, path_str(v.z))
        else:
            yield from models.BUILTINS['str'].fn(interp, st, args, kwargs)

    b.bind('str', Model('str', str_))
    b.bind('_SnapshotFile', models.ctor_model(SNAPFILE, {'metadata': None, 'digest': None}))

    def read_metadata(interp, st, args, kwargs):
        st.emit('read_metadata')
        yield st, sym.fresh(META, 'meta')

    me._attrs['read_metadata'] = Model('read_metadata', read_metadata)
    b.sym('chunk_size', INT)
    b.assume(b.st.lookup('chunk_size').z >= 1)


def _bwp(st, state):
    return st.heap.read(STATE, 'bytes_with_padding', state.z)


def fcontent(i):
    """ghost: the bytes of the i-th file as read during this snapshot"""
    return UF('fcontent', INT, BYTES)(i)


def stream_outer_inv(b):
    def inv(ctx):
        st = ctx.st
        F = Files(st, b.state.z)
        k = ctx.k
        bwp = _bwp(st, b.state)
        cur = st.heap.read(STATE, 'current_file', b.state.z)
        OR = Opt(Ref(SNAPFILE))
        i = z3.Int('oi')
        a = b.align
        lst = st.heap.read(STATE, 'files', b.state.z)
        return z3.And(
            k <= b.files_n,
            F.n == k, I_files(F),
            lst == b.st.heap.read(STATE, 'files', b.state.z),
            z3.ForAll([i], z3.Implies(z3.And(0 <= i, i < k), z3.And(
                F.start(i) % a == 0, F.end(i) <= bwp,
                F.ref(i) >= 0, F.ref(i) < ctx.frontier(),
                F.path(i) == path_str(z3.Select(b.files_arr, i)),
                st.heap.read(SNAPFILE, 'digest', F.ref(i)) == Opt(BYTES).some(H()(fcontent(i))),
                F.end(i) - F.start(i) == z3.Length(fcontent(i))))),
            z3.Length(ctx.g('ystream')) == bwp,
            z3.Implies(k == 0, z3.And(OR.is_none(cur), bwp == 0)),
            z3.Implies(k > 0, z3.And(z3.Not(OR.is_none(cur)), OR.val(cur) == F.ref(k - 1), bwp == F.end(k - 1))),
        )
    return inv


def stream_inner_inv(b):
    def inv(ctx):
        st = ctx.st
        F = Files(st, b.state.z)
        bwp = _bwp(st, b.state)
        f = ctx.v('file')
        E = ctx.entry       # state when the while loop was entered (file just appended)
        F_E = Files(E, b.state.z)
        y0 = E.ghost['ystream'].z
        fs = st.heap.read(SNAPFILE, 'stream_start', f)
        fe = st.heap.read(SNAPFILE, 'stream_end', f)
        cons = ctx.g('consumed')
        return z3.And(
            F.n == F_E.n, F.arr == F_E.arr,
            fs == E.heap.read(SNAPFILE, 'stream_start', f),
            fe == fs + z3.Length(cons),
            bwp == fe,
            ctx.g('ystream') == z3.Concat(y0, cons),
            ctx.g('fed') == cons,
        )
    return inv


def stream_post(prop):
    def post(res):
        b = res.builder
        a = b.align
        n_files = 0
        for p in res.body_paths('For#1'):
            st = p.st
            if p.kind == 'raise' and p.events('open_failed') and not p.events('open'):
                # a listed file that cannot be opened: the failure reaches the caller (the snapshot fails as a whole)
                res.oblige(p, f'{prop}.stream.unopenable_file_fails_the_snapshot', z3.BoolVal(p.value.cls == 'FileNotFoundError'))
                continue
            if p.kind not in ('normal', 'continue'):
                res.oblige(p, f'{prop}.stream.iteration_total[{p.kind}]', z3.BoolVal(False))
                continue
            n_files += 1
            f = st.lookup('file').z
            fs = st.heap.read(SNAPFILE, 'stream_start', f)
            fe = st.heap.read(SNAPFILE, 'stream_end', f)
            ys = st.ghost['ystream'].z
            cons = st.ghost['consumed'].z
            # C01.stream.padding_aligned / C11.padding.aligned: every file starts on an alignment boundary
            res.oblige(p, f'{prop}.stream.file_start_aligned', fs % a == 0)
            # the file's bytes are exactly the stream range [start, end)
            res.oblige(p, f'{prop}.stream.range_is_file_content', z3.And(
                fe - fs == z3.Length(cons), z3.SubString(ys, fs, fe - fs) == cons, z3.Length(ys) == fe))
            # padding consists of zero bytes only and belongs to no file
            for e in p.events('yield'):
                pass
            # the digest recorded for the file is the hash of exactly those bytes
            res.oblige(p, f'{prop}.stream.digest_is_hash_of_content',
                       st.heap.read(SNAPFILE, 'digest', f) == Opt(BYTES).some(H()(cons)))
            res.oblige(p, f'{prop}.stream.metadata_recorded', z3.Not(Opt(META).is_none(st.heap.read(SNAPFILE, 'metadata', f))))
            res.oblige(p, f'{prop}.stream.metadata_read_after_content', z3.BoolVal(
                [e.kind for e in p.st.events if e.kind in ('read_eof', 'read_metadata')][-2:] == ['read_eof', 'read_metadata']))
        res.oblige([], f'{prop}.stream.file_iterations_checked', z3.BoolVal(n_files >= 1))
        for p in res.paths:
            if p.kind == 'raise' and p.events('open_failed') and p.value.cls == 'FileNotFoundError':
                continue
            if p.kind not in ('normal', 'return'):
                res.oblige(p, f'{prop}.stream.total[{p.kind}]', z3.BoolVal(False))
    return post


def stream_on_yield(interp, st, v):
    st.ghost['ystream'] = SV(BYTES, z3.Concat(st.ghost['ystream'].z, sym.lift(v, BYTES).z))


def stream_unit(prop):
    def setup(b):
        stream_setup(b)
        u.loops['For#1'].inv = stream_outer_inv(b)
        u.loops['While#1'].inv = stream_inner_inv(b)
        # ghost definition: fcontent(k) is what was read from the k-th file in this run
        u.loops['For#1'].at_end = lambda ctx: [fcontent(ctx.k) == ctx.g('consumed')]

    LF = sym.ListC(FILES_ELEM)
    u = Unit(f'{prop}.stream_files', REPO_PY, 'Repository.snapshot._stream_files', setup, stream_post(prop),
             loops={
                 'For#1': LoopSpec(None, modifies=[
                     ('heap', STATE, 'bytes_with_padding'), ('heap', STATE, 'current_file'),
                     ('heap', LF, 'arr'), ('heap', LF, 'len'),
                     ('heap', SNAPFILE, 'path'), ('heap', SNAPFILE, 'stream_start'), ('heap', SNAPFILE, 'stream_end'),
                     ('heap', SNAPFILE, 'metadata'), ('heap', SNAPFILE, 'digest'),
                     ('ghost', 'ystream'), ('ghost', 'consumed'), ('ghost', 'fed')], name='For#1',
                     types={'prev_file': Opt(Ref(SNAPFILE)), 'alignment': INT, 'padding_length': INT}),
                 'While#1': LoopSpec(None, modifies=[
                     ('heap_at', STATE, 'bytes_with_padding', ['state']),
                     ('heap_at', SNAPFILE, 'stream_end', ['file']),
                     ('ghost', 'ystream'), ('ghost', 'consumed'), ('ghost', 'fed')], name='While#1',
                     types={'chunk': BYTES}),
             }, on_yield=stream_on_yield, prop=prop)
    return u


# ------------------------------------------------------------------ _chunk_producer
TABLE = sym.DictC(BYTES, INT)


def oc(k):
    """ghost: the k-th chunk produced by the chunker (contract: C10.call.nonempty)"""
    return UF('out_chunk', INT, BYTES)(k)


def csum(k):
    """ghost: total length of the chunks before the k-th"""
    return UF('csum', INT, INT)(k)


def producer_setup(b):
    me = shared.repo_self(b, cache=False)
    b.me = me
    state = b.ref('state', STATE)
    table = b.ref('chunks_table', TABLE)
    h = b.st.heap
    b.state, b.table = state, table
    b.assume(h.read(STATE, 'chunk_counter', state.z) == 0)
    b.assume(h.read(STATE, 'bytes_chunked', state.z) == 0)
    b.assume(h.read(TABLE, 'n', table.z) == 0)
    d = z3.Const('td', z3.StringSort())
    b.assume(z3.ForAll([d], z3.Not(z3.Select(h.read(TABLE, 'has', table.z), d))))
    n = z3.Int('n_chunks')
    b.assume(n >= 0)
    k = z3.Int('ck')
    b.assume(csum(0) == 0)
    b.assume(z3.ForAll([k], z3.Implies(k >= 0, z3.And(csum(k + 1) == csum(k) + z3.Length(oc(k)),
                                                     z3.Length(oc(k)) >= 1))))

    def chunkify(interp, st, args, kwargs):
        st.emit('chunkify', source=args[0] if args else None)
        yield st, IterSpec(n, lambda kk: SV(BYTES, oc(kk)))

    props_obj = me._attrs['props']
    shared.PROPS.consts['chunkify'] = Model('chunkify', lambda i, s, a, k_: chunkify(i, s, a[1:] if a and isinstance(a[0], SV) and a[0].ty == Ref(shared.PROPS) else a, k_))
    shared.PROPS.consts['chunkify'] = shared.MethodModel('chunkify', lambda i, s, a, k_: chunkify(i, s, a[1:], k_))
    b.bind('_stream_files', Model('_stream_files', lambda i, s, a, k_: iter([(s, Obj('generator:_stream_files'))])))

    def loc_model(interp, st, args, kwargs):
        yield st, SV(STR, gc.loc(sym.lift(args[0], BYTES).z))

    me._attrs['_chunk_digest_to_location'] = Model('loc', loc_model)
    b.bind('_SnapshotChunk', models.ctor_model(CHUNK))

    def is_set(interp, st, args, kwargs):
        r = sym.fresh(BOOL, 'aborted')
        st.emit('abort_checked', value=r)
        yield st, r

    def put(interp, st, args, kwargs):
        st.emit('queue_put_attempt', kwargs=dict(kwargs), nargs=len(args))
        full = st.copy()
        yield full, Raised(Exc('Full'))
        st.emit('queue_put', chunk=args[0])
        yield st, None

    b.bind('abort', Obj('abort', is_set=Model('is_set', is_set)))
    b.bind('chunk_queue', Obj('chunk_queue', put=Model('put', put)))
    b.bind('queue', Obj('queue', Full=shared.ExcClass('Full'), Empty=shared.ExcClass('Empty')))
    b.sym('queue_timeout', sym.REAL)


def table_wf(h, table):
    has, val, order, n = (h.read(TABLE, f, table.z) for f in ('has', 'val', 'order', 'n'))
    d, e = z3.Strings('twd twe')
    return z3.And(
        n >= 0,
        z3.ForAll([d], z3.Implies(z3.Select(has, d), z3.And(0 <= z3.Select(val, d), z3.Select(val, d) < n,
                                                          z3.Select(order, d) == z3.Select(val, d)))),
        z3.ForAll([d, e], z3.Implies(z3.And(z3.Select(has, d), z3.Select(has, e), d != e),
                                     z3.Select(val, d) != z3.Select(val, e))))


def producer_inv(b):
    def inv(ctx):
        h = ctx.st.heap
        k = ctx.k
        return z3.And(
            h.read(STATE, 'chunk_counter', b.state.z) == k,
            h.read(STATE, 'bytes_chunked', b.state.z) == csum(k),
            table_wf(h, b.table),
        )
    return inv


def producer_post(prop):
    def post(res):
        b = res.builder
        puts = 0
        if prop in ('C09', 'C03'):
            producer_abort_obligations(res, prop)
        for p in res.body_paths('For#1') + res.paths:
            view = shared.PropsView(p.st, b.me.props)
            for e in p.events('queue_put'):
                puts += 1
                pc = p.pc_at(e)
                st = p.st
                c = e.data['chunk'].z
                kk = [x for x in p.st.pc if False]
                k = p.st.lookup('output_chunk')
                data = k.z
                # find k: output_chunk == oc(k) by construction of the iteration domain
                hh = st.heap
                g = lambda f: hh.read(CHUNK, f, c)
                dg = H()(data)
                has, val = hh.read(TABLE, 'has', b.table.z), hh.read(TABLE, 'val', b.table.z)
                # C01.producer.consecutive
                res.oblige(pc, f'{prop}.producer.consecutive', z3.And(
                    g('stream_end') == g('stream_start') + z3.Length(data),
                    g('stream_start') == hh.read(STATE, 'bytes_chunked', b.state.z) - z3.Length(data),
                    g('counter') == hh.read(STATE, 'chunk_counter', b.state.z)))
                # C01.producer.table: index is the table entry of the chunk's digest
                res.oblige(pc, f'{prop}.producer.index_is_table_entry', z3.And(
                    z3.Select(has, dg), z3.Select(val, dg) == g('index')))
                # C07/C14: location is loc(H(chunk)); body = ENC(chunk, KDF(shared_key, ctx=H(chunk))) or the chunk
                res.oblige(pc, f'{prop}.producer.location_from_digest', g('location') == gc.loc(dg))
                encs = [x for x in p.events('encrypt')]
                if encs:
                    x = encs[-1]
                    res.oblige(pc, f'{prop}.producer.body_is_enc_under_digest_subkey', z3.And(
                        view.encrypted, g('contents') == x.data['result'].z,
                        x.data['data'].z == data, x.data['key'].z == view.subkey(dg)))
                else:
                    res.oblige(pc, f'{prop}.producer.body_is_plain_only_when_unencrypted', z3.And(
                        z3.Not(view.encrypted), g('contents') == data))
        res.oblige([], f'{prop}.producer.put_sites_checked', z3.BoolVal(puts >= 2))
        # relation between the loop counter and the ghost sequence (per generic iteration)
        for p in res.body_paths('For#1'):
            pass
    return post


def producer_abort_obligations(res, prop):
    """C09/C03: the producer can only wait for room in the queue in bounded steps, and looks at `abort` before EVERY such
    step - when all workers have failed nobody drains the queue, and the command ends only because the producer notices"""
    n = 0
    for p in res.body_paths('While#1'):
        evs = p.st.events
        starts = [i for i, e in enumerate(evs) if e.kind == 'loop_body' and e.data.get('loop') == 'While#1']
        it = evs[starts[-1]:] if starts else evs
        kinds = [e.kind for e in it]
        for i, e in enumerate(it):
            if e.kind != 'queue_put_attempt':
                continue
            n += 1
            res.oblige(p.pc_at(e), f'{prop}.producer.abort_observed_before_every_wait_for_the_queue',
                       z3.BoolVal('abort_checked' in kinds[:i]))
            res.oblige(p.pc_at(e), f'{prop}.producer.waits_for_the_queue_with_a_timeout',
                       z3.BoolVal('timeout' in e.data['kwargs'] or e.data['nargs'] >= 3))
        for e in it:
            if e.kind == 'abort_checked':
                # once abort is observed the producer stops: no further put in that iteration
                after = [x for x in it[it.index(e) + 1:] if x.kind == 'queue_put_attempt']
                if after:
                    res.oblige(p.pc_at(after[0]), f'{prop}.producer.no_put_after_abort_was_observed', z3.Not(e.data['value'].z))
    res.oblige([], f'{prop}.producer.put_loop_checked', z3.BoolVal(n >= 1))


def producer_unit(prop):
    def setup(b):
        producer_setup(b)
        u.loops['For#1'].inv = producer_inv(b)

    true_inv = lambda ctx: z3.BoolVal(True)
    u = Unit(f'{prop}.chunk_producer', REPO_PY, 'Repository.snapshot._chunk_producer', setup, producer_post(prop),
             loops={'For#1': LoopSpec(None, modifies=[
                 ('heap_at', STATE, 'chunk_counter', ['state']), ('heap_at', STATE, 'bytes_chunked', ['state']),
                 ('heap', TABLE, 'has'), ('heap', TABLE, 'val'), ('heap', TABLE, 'order'), ('heap', TABLE, 'n'),
                 ('heap', CHUNK, 'contents'), ('heap', CHUNK, 'index'), ('heap', CHUNK, 'location'),
                 ('heap', CHUNK, 'stream_start'), ('heap', CHUNK, 'stream_end'), ('heap', CHUNK, 'counter')],
                 name='For#1', types={'index': INT}),
                 'While#1': LoopSpec(true_inv, modifies=[], name='While#1')},
             prop=prop)
    return u


# ------------------------------------------------------------------ _flatten_resolve_paths
def flatten_setup(b):
    me = shared.repo_self(b, props=False, cache=False)
    SEQ = models.opaque_type('PathSeq')
    paths = b.sym('paths', SEQ)

    def flatten(interp, st, args, kwargs):
        st.emit('flatten', arg=args[0])
        yield st, sym.fresh(SEQ, 'flat')

    b.bind('flatten_paths', Model('flatten_paths', flatten))

    def comp(interp, st, v, node):
        # (path.resolve(strict=True) for path in paths): an opaque element-wise image of the arguments
        import ast as _ast
        st.emit('genexp', source=v, elt=_ast.unparse(node.elt))
        yield st, SV(SEQ, UF('resolved', SEQ, SEQ)(v.z))

    SEQ.comprehension = comp

    class GenVal:
        pass

    # `path.resolve(strict=True) for path in paths` : an opaque lazily-mapped sequence
    def fromkeys(interp, st, args, kwargs):
        st.emit('fromkeys', arg=args[0])
        yield st, SV(SEQ, UF('dedup', SEQ, SEQ)(args[0].z))

    def list_(interp, st, args, kwargs):
        (v,) = args
        if isinstance(v, SV) and v.ty == SEQ:
            st.emit('list', arg=v)
            yield st, v
        else:
            yield from models.BUILTINS['list'].fn(interp, st, args, kwargs)

    d = Model('dict', models.BUILTINS['dict'].fn)
    d.attrs = {'fromkeys': Model('dict.fromkeys', fromkeys)}
    b.bind('dict', d)
    b.bind('list', Model('list', list_))
    b.SEQ = SEQ


def flatten_post(prop):
    def post(res):
        b = res.builder
        SEQ = b.SEQ
        dedup = UF('dedup', SEQ, SEQ)
        for p in res.paths:
            if p.kind != 'return':
                res.oblige(p, f'{prop}.flatten.total', z3.BoolVal(False))
                continue
            fl = p.events('flatten')
            # C01.flatten.distinct: what is returned went through an order-preserving de-duplication
            # (dict.fromkeys: assumed contract -- keys are pairwise distinct, first occurrences, in order)
            fk = p.events('fromkeys')
            ok = isinstance(p.value, SV) and len(fl) == 1 and len(fk) == 1
            res.oblige(p, f'{prop}.flatten.distinct', z3.BoolVal(bool(ok)) if not ok else z3.And(
                p.value.z == dedup(fk[0].data['arg'].z),
                fl[0].data['arg'].z == UF('resolved', SEQ, SEQ)(b.st.lookup('paths').z)))
    return post


def flatten_unit(prop):
    class GenModel:
        pass
    u = Unit(f'{prop}.flatten_resolve_paths', REPO_PY, 'Repository._flatten_resolve_paths', flatten_setup,
             flatten_post(prop), prop=prop)
    return u


# ------------------------------------------------------------------ snapshot::_worker
from specs.restore import Stream, slot_cm          # noqa: E402


def worker_setup(b):
    me = shared.repo_self(b, cache=False)
    b.me = me
    state = b.ref('state', STATE)
    b.state = state
    b.sym('queue_timeout', sym.REAL)
    b.sym('upload_chunk_size', INT)
    RATELIM = models.opaque_type('RateLimiter', attrs={
        'wrap': MethodModel('wrap', lambda i, s, a, k: iter([(s, Stream('limited', inner=a[1]))]))})
    b.sym('rate_limiter', Opt(RATELIM))

    def fresh_bool(name):
        return Model(name, lambda i, s, a, k: iter([(s, sym.fresh(BOOL, name))]))

    def get_nowait(interp, st, args, kwargs):
        e = st.copy()
        yield e, Raised(Exc('Empty'))
        c = sym.fresh(Ref(CHUNK), 'qchunk')
        st.assume(z3.And(c.z >= 0, c.z < st.alloc_base))
        st.emit('dequeue', chunk=c)
        yield st, c

    b.bind('chunk_queue', Obj('chunk_queue', empty=fresh_bool('q_empty'), get_nowait=Model('get_nowait', get_nowait)))
    b.bind('chunk_producer', Obj('chunk_producer', done=fresh_bool('producer_done')))
    b.bind('queue', Obj('queue', Full=shared.ExcClass('Full'), Empty=shared.ExcClass('Empty')))
    b.bind('asyncio', models.ASYNCIO)

    def exists(interp, st, args, kwargs):
        fail = st.copy()
        fail.emit('exists_failed', location=args[0])
        yield fail, Raised(Exc('AnyError'))
        r = sym.fresh(BOOL, 'exists')
        st.emit('exists', location=args[0], result=r)
        yield st, r

    def chunk_done(interp, st, args, kwargs):
        st.emit('chunk_done', chunk=args[0])
        yield st, None

    def bytesio(interp, st, args, kwargs):
        s = Stream('bytesio')
        st.ghost[f'content:{id(s)}'] = args[0] if args else b''
        yield st, s

    def tqdm_reader(interp, st, args, kwargs):
        st.emit('tqdm_reader', total=kwargs.get('total'))
        yield st, Stream('tqdm', inner=args[0])

    def run_in_executor(interp, st, args, kwargs):
        func, location, stream, length, chunk_size = args
        content = st.ghost[f'content:{id(stream.root())}']
        fail = st.copy()
        fail.emit('upload_failed', location=location)
        yield fail, Raised(Exc('AnyError'))
        st.emit('upload_stream', func=func, location=location, content=content, length=length, chunk_size=chunk_size,
                slots=st.ghost.get('slots_held', 0), wrapped_by=[stream.name, getattr(stream.inner, 'name', None)])
        yield st, None

    me._attrs.update({
        '_exists': Model('_exists', exists),
        '_acquire_slot': Model('_acquire_slot', lambda i, s, a, k: iter([(s, slot_cm())])),
        '_maybe_run_in_executor': Model('_maybe_run_in_executor', run_in_executor),
        'backend': Obj('backend', upload_stream=Obj('backend.upload_stream')),
    })
    b.bind('_chunk_done', Model('_chunk_done', chunk_done))
    b.bind('io', Obj('io', BytesIO=Model('BytesIO', bytesio)))
    b.bind('utils', Obj('utils', TQDMIOReader=Model('TQDMIOReader', tqdm_reader)))


def worker_post(prop):
    def post(res):
        b = res.builder
        n_up = n_done = 0
        for p in res.body_paths('While#1'):
            st = p.st
            ev = [e for e in st.events if e.kind in ('dequeue', 'exists', 'exists_failed', 'upload_stream', 'upload_failed', 'chunk_done')]
            kinds = [e.kind for e in ev]
            sig = ','.join(kinds) + '->' + p.kind
            deq = [e for e in ev if e.kind == 'dequeue']
            if not deq:
                res.oblige(p, f'{prop}.worker.idle_iteration_has_no_effects[{sig}]', z3.BoolVal(len(ev) == 0))
                continue
            c = deq[0].data['chunk'].z
            h = st.heap
            loc_, contents = h.read(CHUNK, 'location', c), h.read(CHUNK, 'contents', c)
            ex = [e for e in ev if e.kind == 'exists']
            ups = [e for e in ev if e.kind == 'upload_stream']
            dones = [e for e in ev if e.kind == 'chunk_done']
            for e in ex:
                res.oblige(p.pc_at(e), f'{prop}.worker.exists_asked_for_chunk_location[{sig}]', sym.lift(e.data['location'], STR).z == loc_)
            for e in ups:
                n_up += 1
                pc = p.pc_at(e)
                # C07.worker.upload_iff_absent: payload is transferred only when the existence check said "absent"
                res.oblige(pc, f'{prop}.worker.upload_only_if_absent[{sig}]',
                           z3.And(z3.BoolVal(len(ex) == 1), z3.Not(ex[0].data['result'].z)) if ex else z3.BoolVal(False))
                # C05.sink.chunk_upload / C16.payload: the stream wraps exactly chunk.contents, under chunk.location
                res.oblige(pc, f'{prop}.worker.upload_is_chunk_contents_at_chunk_location[{sig}]', z3.And(
                    sym.lift(e.data['location'], STR).z == loc_,
                    sym.lift(e.data['content'], BYTES).z == contents,
                    sym.lift(e.data['length'], INT).z == z3.Length(contents)))
                res.oblige(pc, f'{prop}.worker.upload_holds_a_slot[{sig}]', z3.BoolVal(e.data['slots'] >= 1))
                res.oblige(pc, f'{prop}.worker.upload_chunk_size_forwarded[{sig}]',
                           sym.lift(e.data['chunk_size'], INT).z == st.lookup('upload_chunk_size').z)
            if ex and not ups and p.kind in ('normal', 'continue'):
                # no payload call when the object exists
                res.oblige(p, f'{prop}.worker.no_upload_when_exists[{sig}]', ex[0].data['result'].z)
            for e in dones:
                n_done += 1
                # C02.snapshot.refs_exist: a chunk is recorded only after the object is known to exist
                before = ev[:ev.index(e)]
                ok_exists = [x for x in before if x.kind == 'exists']
                ok_upload = [x for x in before if x.kind == 'upload_stream']
                goal = z3.BoolVal(False)
                if ok_upload:
                    goal = z3.BoolVal(True)
                elif ok_exists:
                    goal = ok_exists[0].data['result'].z
                res.oblige(p.pc_at(e), f'{prop}.worker.recorded_only_after_object_exists[{sig}]',
                           z3.And(goal, e.data['chunk'].z == c))
            if p.kind in ('normal', 'continue'):
                res.oblige(p, f'{prop}.worker.every_dequeued_chunk_is_recorded_once[{sig}]', z3.BoolVal(len(dones) == 1))
            if p.kind == 'raise':
                res.oblige(p, f'{prop}.worker.failure_records_nothing[{sig}]', z3.BoolVal(len(dones) == 0))
            res.oblige(p, f'{prop}.worker.slots_balanced[{sig}]', z3.BoolVal(st.ghost.get('slots_held', 0) == 0))
        res.oblige([], f'{prop}.worker.sites_checked', z3.BoolVal(n_up >= 1 and n_done >= 2))
    return post


def worker_unit(prop):
    inv = lambda ctx: z3.BoolVal(True)
    return Unit(f'{prop}.worker', REPO_PY, 'Repository.snapshot._worker', worker_setup, worker_post(prop),
                loops={'While#1': LoopSpec(inv, modifies=[('heap_at', STATE, 'bytes_reused', ['state'])], name='While#1',
                                           types={'chunk': Ref(CHUNK), 'exists': BOOL, 'length': INT, 'slot': INT})},
                prop=prop)


# ------------------------------------------------------------------ the tail of snapshot(): assembling and uploading
import ast as _ast
from specs import loc as _loc
from specs.snapbody import JV


def tail_start(stmt):
    return (isinstance(stmt, _ast.Assign) and isinstance(stmt.targets[0], _ast.Name) and stmt.targets[0].id == 'now')


def tail_setup(b):
    me = shared.repo_self(b, cache=False)
    b.me = me
    state = b.ref('state', STATE)
    b.ref('chunks_table', TABLE)
    b.ref('snapshot_files', SNAPFILES)
    b.sym('note', Opt(STR))
    NOW = models.opaque_type('DateTime')
    b.NOW = NOW

    AWARE = models.opaque_type('AwareDateTime')
    UTC = Obj('<timezone.utc>')

    def clock(kind):
        def read(interp, st, args, kwargs):
            tz = kwargs.get('tz', args[0] if args else None)
            if (args or kwargs) and not (kind == 'now' and tz is UTC and len(args) + len(kwargs) == 1):
                raise sym.Unsupported(f'datetime.{kind} with arguments')
            v = sym.fresh(NOW, 'now')
            if tz is UTC:
                # datetime.now(timezone.utc): the UTC clock as an AWARE value (its str() carries '+00:00')
                st.emit('clock_read', clock='utcnow', value=v)
                yield st, SV(AWARE, UF('aware_of', NOW, AWARE)(v.z))
                return
            st.emit('clock_read', clock=kind, value=v)
            yield st, v
        return Model(kind, read)

    def replace(interp, st, args, kwargs):
        if len(args) == 1 and set(kwargs) == {'tzinfo'} and kwargs['tzinfo'] is None:
            yield st, SV(NOW, UF('naive_of', AWARE, NOW)(args[0].z))
        else:
            raise sym.Unsupported('datetime.replace')

    AWARE.attrs = {'replace': MethodModel('replace', replace)}
    b.assume(z3.ForAll([z3.Const('t0', NOW.sort())], UF('naive_of', AWARE, NOW)(UF('aware_of', NOW, AWARE)(z3.Const('t0', NOW.sort()))) == z3.Const('t0', NOW.sort())))
    b.bind('datetime', Obj('datetime', utcnow=clock('utcnow'), now=clock('now'), today=clock('today')))
    b.bind('timezone', Obj('timezone', utc=UTC))

    def str_(interp, st, args, kwargs):
        (v,) = args
        if isinstance(v, SV) and v.ty == NOW:
            yield st, SV(STR, UF('str_of_datetime', NOW, STR)(v.z))
        else:
            yield from models.BUILTINS['str'].fn(interp, st, args, kwargs)

    b.bind('str', Model('str', str_))

    def list_(interp, st, args, kwargs):
        (v,) = args
        v = ops.resolve(st, v)
        if isinstance(v, SV) and v.ty == Ref(TABLE):
            st.emit('list_of_table', table=v)
            yield st, SV(JV, UF('jv_table_keys', INT, JV)(v.z))
        elif isinstance(v, DictValues):
            st.emit('list_of_values', d=v.d)
            yield st, SV(JV, UF('jv_dict_values', INT, JV)(v.d.z))
        else:
            yield from models.BUILTINS['list'].fn(interp, st, args, kwargs)

    class DictValues:
        def __init__(self, d):
            self.d = d

    b.bind('list', Model('list', list_))
    SNAPFILES.methods = {'values': lambda interp, st, recv, args, kwargs: iter([(st, DictValues(recv))])}

    def encrypt_body(interp, st, args, kwargs):
        body = ops.resolve(st, args[0])
        d = interp.deref(st, body)
        data = interp.deref(st, ops.resolve(st, d['data'])) if not isinstance(d['data'], SV) else d['data']
        r = sym.fresh(BYTES, 'stored_snapshot')
        st.emit('encrypt_snapshot_body', chunks=d['chunks'], data=data, keys=sorted(d), result=r)
        yield st, r

    def parts(interp, st, args, kwargs):
        view = shared.PropsView(st, me.props)
        z = sym.lift(args[0], BYTES).z
        st.emit('snapshot_parts', digest=args[0])
        yield st, shared.make_ntup(('name', 'tag'), (SV(STR, _loc.hexf(z)),
                                                    SV(STR, z3.If(view.encrypted, _loc.hexf(view.mac(z)), _loc.hexf(z)))))

    def getloc(interp, st, args, kwargs):
        yield st, SV(STR, _loc.snapshot_path_spec(sym.lift(kwargs['name'], STR).z, sym.lift(kwargs['tag'], STR).z))

    def upload(interp, st, args, kwargs):
        bad = st.copy()
        yield bad, Raised(Exc('AnyError'))
        st.emit('upload', location=args[0], data=args[1])
        yield st, None

    me._attrs.update({
        '_encrypt_snapshot_body': Model('_encrypt_snapshot_body', encrypt_body),
        '_snapshot_digest_to_location_parts': Model('parts', parts),
        'get_snapshot_location': Model('get_snapshot_location', getloc),
        '_upload_data': Model('_upload_data', upload),
        'default_serialization_hook': Obj('hook'),
    })
    b.bind('json', Obj('json', dumps=Model('dumps', lambda i, s, a, k: iter([(s, 'json')]))))
    b.bind('utils', Obj('utils', DefaultNamespace=Model('DefaultNamespace', lambda i, s, a, k: iter([(s, s.new_py('dict', dict(k)))])),
                        bytes_to_human=Model('bytes_to_human', lambda i, s, a, k: iter([(s, 'n')]))))


def tail_post(prop):
    def post(res):
        b = res.builder
        n = 0
        for p in res.paths:
            view = shared.PropsView(p.st, b.me.props)
            ups = p.events('upload')
            eb = p.events('encrypt_snapshot_body')
            sig = p.kind + f'/up{len(ups)}'
            for e in ups:
                n += 1
                pc = p.pc_at(e)
                ok = len(eb) == 1 and len(ups) == 1
                res.oblige(pc, f'{prop}.tail.single_upload_of_the_encoded_body[{sig}]', z3.BoolVal(ok))
                if not ok:
                    continue
                stored = eb[0].data['result'].z
                d = H()(stored)
                # C14.snapshot.name_tag_path / C05.sink.snapshot: name = hex(H(stored bytes)), tag = hex(MAC(H)) | hex(H)
                res.oblige(pc, f'{prop}.tail.upload_is_stored_body_at_documented_location[{sig}]', z3.And(
                    sym.lift(e.data['data'], BYTES).z == stored,
                    sym.lift(e.data['location'], STR).z == _loc.snapshot_path_spec(
                        _loc.hexf(d), z3.If(view.encrypted, _loc.hexf(view.mac(d)), _loc.hexf(d)))))
                # C14.snapshot.shape: body = {chunks: list(chunks_table), data: {utc_timestamp, files, note?}}
                x = eb[0]
                data = x.data['data']
                keys = sorted(data) if isinstance(data, dict) else None
                note = b.st.lookup('note')
                res.oblige(pc, f'{prop}.tail.body_shape[{sig}]', z3.And(
                    z3.BoolVal(x.data['keys'] == ['chunks', 'data']),
                    z3.BoolVal(keys in (['files', 'utc_timestamp'], ['files', 'note', 'utc_timestamp'])),
                    z3.BoolVal(keys is not None and 'note' in keys) == z3.Not(note.ty.is_none(note.z)),
                    z3.BoolVal(bool(p.events('list_of_table')) and bool(p.events('list_of_values')))))
                # the recorded time is the UTC clock read in this run (restore and the listings order snapshots by it; a local wall
                # clock would reorder snapshots taken under different UTC offsets)
                ck = p.events('clock_read')
                ts = data.get('utc_timestamp') if isinstance(data, dict) else None
                okc = len(ck) == 1 and ck[0].data['clock'] == 'utcnow' and ts is not None
                res.oblige(pc, f'{prop}.tail.timestamp_is_the_utc_clock[{sig}]', z3.BoolVal(False) if not okc else
                           sym.lift(ts, STR).z == UF('str_of_datetime', b.NOW, STR)(ck[0].data['value'].z))
            if p.kind == 'raise':
                res.oblige(p, f'{prop}.tail.failure_uploads_nothing[{sig}]', z3.BoolVal(not ups))
        res.oblige([], f'{prop}.tail.upload_sites_checked', z3.BoolVal(n >= 1))
    return post


def tail_unit(prop):
    return Unit(f'{prop}.snapshot_tail', REPO_PY, 'Repository.snapshot', tail_setup, tail_post(prop), stmt=tail_start, prop=prop)


# ------------------------------------------------------------------ snapshot(): worker barrier, failure path, then the tail
def run_start(stmt):
    return isinstance(stmt, _ast.With)


def run_setup(b):
    tail_setup(b)
    me = b.me
    CORO = models.opaque_type('Coroutine')
    b.bind('_worker', Model('_worker', lambda i, s, a, k: iter([(s, sym.fresh(CORO, 'worker'))])))
    b.bind('finished_tracker', CM('tqdm'))
    b.bind('bytes_tracker', CM('tqdm'))

    def gather(interp, st, args, kwargs):
        from vf.interp import StarArg
        from vf.models import MapVal
        # gather(*map(f, items)): f is applied to every item; when f is one of the repository's deleting operations that is a deletion
        for a in args:
            inner = a.v if isinstance(a, StarArg) else a
            if isinstance(inner, MapVal) and isinstance(inner.f, Model) and inner.f.name in ('_delete', '_delete_threadsafe'):
                st.emit('delete_during_snapshot', location=None, mapped=True)
                yield st, st.new_py('list', [None])
                return
        bad = st.copy()
        bad.emit('gather_failed')
        if kwargs.get('return_exceptions', False) is False:
            yield bad, Raised(Exc('AnyError'))
        else:
            yield bad, bad.new_py('list', [Exc('AnyError')])      # the failure comes back as a result
        st.emit('gather_ok')
        yield st, st.new_py('list', [None])

    AW = models.opaque_type('Awaitable')
    producer = sym.fresh(AW, 'chunk_producer')

    def join(interp, st, v):
        # the outcome of the producer thread is OBSERVED here: its exception (a source file that cannot be read, a chunker error) is
        # re-raised, otherwise it has finished
        if not z3.eq(v.z, producer.z):
            yield st, None
            return
        bad = st.copy()
        bad.emit('producer_failed_observed')
        yield bad, Raised(Exc('AnyError'))
        st.emit('producer_joined')
        yield st, None

    AW.on_await = join
    AW.attrs = {'result': MethodModel('result', lambda i, s, a, k: join(i, s, a[0])),
                'exception': MethodModel('exception', lambda i, s, a, k: (s.emit('producer_exception_read'), iter([(s, sym.fresh(Opt(models.opaque_type('ExcValue')), 'producer_exc'))]))[1]),
                'done': MethodModel('done', lambda i, s, a, k: iter([(s, sym.fresh(BOOL, 'done'))]))}

    def wait(interp, st, args, kwargs):
        # asyncio.wait / shutdown(wait=True): waits for completion but does NOT deliver the outcome
        st.emit('waited_without_outcome')
        yield st, (st.new_py('set', []), st.new_py('set', []))

    def passthrough(interp, st, args, kwargs):
        yield st, args[0]

    asyncio_ = Obj('asyncio', gather=Model('asyncio.gather', gather), wait=Model('asyncio.wait', wait), wrap_future=Model('wrap_future', passthrough),
                   shield=Model('shield', passthrough), ensure_future=Model('ensure_future', passthrough))
    b.bind('asyncio', asyncio_)
    b.bind('abort', Obj('abort', set=Model('abort.set', lambda i, s, a, k: (s.emit('abort_set'), iter([(s, None)]))[1])))
    b.bind('chunk_producer', producer)

    def delete(interp, st, args, kwargs):
        st.emit('delete_during_snapshot', location=args[0] if args else None)
        yield st, None

    me._attrs['_delete'] = Model('_delete', delete)
    me._attrs['_delete_threadsafe'] = Model('_delete_threadsafe', delete)
    ex = Obj('chunk_producer_executor', shutdown=Model('shutdown', wait))
    ex._lenient = True
    b.bind('chunk_producer_executor', ex)


def run_post(prop):
    def post(res):
        n_fail = n_ok = 0
        for p in res.paths:
            kinds = [e.kind for e in p.st.events]
            ups = p.events('upload')
            if 'gather_failed' in kinds:
                n_fail += 1
                # C03.snapshot.no_upload_after_failure: a failed worker aborts the producer and nothing is uploaded
                res.oblige(p, f'{prop}.run.failure_propagates_without_snapshot_upload', z3.BoolVal(
                    p.kind == 'raise' and not ups and 'abort_set' in kinds))
            elif 'gather_ok' in kinds:
                n_ok += 1
                # the producer reads the source files: if it died, the snapshot must fail.  So before the snapshot object is uploaded the
                # OUTCOME of the producer has been observed (awaited / .result()), not merely its termination
                for e in ups:
                    res.oblige(p.pc_at(e), f'{prop}.run.producer_outcome_observed_before_the_snapshot_is_recorded', z3.BoolVal(
                        'producer_joined' in kinds and kinds.index('producer_joined') < kinds.index('upload')))
                # the snapshot object is uploaded only after ALL workers returned (C02.snapshot.refs_exist, C03.prefix_safe)
                for e in ups:
                    res.oblige(p.pc_at(e), f'{prop}.run.snapshot_upload_after_worker_barrier', z3.BoolVal(
                        kinds.index('gather_ok') < kinds.index('upload') and len(ups) == 1))
        for p in res.paths:
            # a snapshot only ADDS objects - also when it fails: whatever it found or put under a chunk name may be referenced by other
            # snapshots (of this user or of a shared-key user); taking objects back is the job of clean, which looks at all references
            res.oblige(p, f'{prop}.run.snapshot_never_deletes_objects', z3.BoolVal(not p.events('delete_during_snapshot')))
        res.oblige([], f'{prop}.run.paths_checked', z3.BoolVal(n_fail >= 1 and n_ok >= 1))
    return post


def run_unit(prop):
    return Unit(f'{prop}.snapshot_run', REPO_PY, 'Repository.snapshot', run_setup, run_post(prop), stmt=run_start, prop=prop)


# ------------------------------------------------------------------ snapshot(): the order in which files enter the stream
def head_start(stmt):
    return True


def head_end(stmt):
    return isinstance(stmt, _ast.Assign) and isinstance(stmt.targets[0], _ast.Name) and stmt.targets[0].id == 'loop'


FILES = models.opaque_type('FileList', pytype='list')
FPATH = models.opaque_type('FilePath')


def head_setup(b):
    me = shared.repo_self(b, cache=False)
    b.me = me
    b.sym('paths', models.opaque_type('PathArgs'))
    b.sym('note', Opt(STR))
    b.sym('rate_limit', Opt(INT))
    b.files = sym.const(FILES, 'files')

    def flatten(interp, st, args, kwargs):
        st.emit('flatten', arg=args[0] if args else None)
        yield st, b.files

    me._attrs['_flatten_resolve_paths'] = Model('_flatten_resolve_paths', flatten)

    def stat(interp, st, args, kwargs):
        yield st, Obj('stat_result', st_size=SV(INT, UF('size_of_file', FPATH, INT)(args[0].z)),
                      st_mtime_ns=SV(INT, UF('mtime_of_file', FPATH, INT)(args[0].z)))

    def part(name, ty=STR):
        # a component of the path: a function of the path, NOT injective (two directories hold files of the same name)
        return Property(lambda i, s_, v: iter([(s_, SV(ty, UF(f'{name}_of_filepath', FPATH, ty)(v.z)))]))

    FPATH.attrs = {'stat': MethodModel('stat', stat), 'name': part('name'), 'stem': part('stem'), 'suffix': part('suffix'),
                   'parent': part('parent', FPATH)}

    def str_(interp, st, args, kwargs):
        (v,) = args
        if isinstance(v, SV) and v.ty == FPATH:
            yield st, SV(STR, UF('str_of_filepath', FPATH, STR)(v.z))
        else:
            yield from models.BUILTINS['str'].fn(interp, st, args, kwargs)

    b.bind('str', Model('str', str_))
    b.bind('len', Model('len', lambda i, s, a, k: iter([(s, sym.fresh(INT, 'n_files'))]) if isinstance(a[0], SV) and a[0].ty == FILES
                        else models.BUILTINS['len'].fn(i, s, a, k)))

    def sort(interp, st, args, kwargs):
        key = kwargs.get('key')
        f1, f2 = sym.fresh(FPATH, 'file1'), sym.fresh(FPATH, 'file2')
        if key is None:
            st.emit('sort', recv=args[0], keyed=False, reverse=kwargs.get('reverse', False), f1=f1, f2=f2, k1=None, k2=None)
            yield st, None
            return
        for s1, k1 in interp.call(st, key, [f1], {}):
            if isinstance(k1, Raised):
                yield s1, k1
                continue
            for s2, k2 in interp.call(s1, key, [f2], {}):
                if isinstance(k2, Raised):
                    yield s2, k2
                    continue
                s2.emit('sort', recv=args[0], keyed=True, reverse=kwargs.get('reverse', False), f1=f1, f2=f2, k1=k1, k2=k2)
                yield s2, None

    FILES.attrs = {'sort': MethodModel('sort', sort)}

    def sorted_(interp, st, args, kwargs):
        if args and isinstance(args[0], SV) and args[0].ty == FILES:
            for s2, r in sort(interp, st, args, kwargs):
                yield s2, (r if isinstance(r, Raised) else args[0])
        else:
            yield from models.BUILTINS['sorted'].fn(interp, st, args, kwargs)

    b.bind('sorted', Model('sorted', sorted_))


def _keys_equal(k1, k2):
    if isinstance(k1, tuple) and isinstance(k2, tuple):
        if len(k1) != len(k2):
            return z3.BoolVal(False)
        return z3.And(*[_keys_equal(a, c) for a, c in zip(k1, k2)]) if k1 else z3.BoolVal(True)
    a, c = sym.lift(k1), sym.lift(k2)
    if a.ty != c.ty:
        return z3.BoolVal(False)
    return a.z == c.z


def head_post(prop):
    def post(res):
        b = res.builder
        n = 0
        for p in res.paths:
            if p.kind == 'raise':
                continue
            ev = p.events('sort')
            fl = p.events('flatten')
            ok = len(ev) == 1 and len(fl) == 1 and isinstance(ev[0].data['recv'], SV) and z3.eq(ev[0].data['recv'].z, b.files.z)
            res.oblige(p, f'{prop}.head.files_of_the_arguments_are_ordered_once', z3.BoolVal(ok))
            if not ok:
                continue
            n += 1
            e = ev[0]
            f1, f2 = e.data['f1'].z, e.data['f2'].z
            strf = UF('str_of_filepath', FPATH, STR)
            # the stream is the concatenation of the files in THIS order and chunks are cut from the stream: the order must be a function
            # of the file set alone (a strict total order: no two distinct files compare equal), or the same unchanged data is cut into
            # different chunks when the arguments / the directory scan deliver it in another order
            if e.data['keyed']:
                res.oblige(p.st.pc + [z3.Implies(strf(f1) == strf(f2), f1 == f2)], f'{prop}.head.stream_order_depends_on_the_file_set_only',
                           z3.Implies(_keys_equal(e.data['k1'], e.data['k2']), f1 == f2))
            else:
                res.oblige(p, f'{prop}.head.stream_order_depends_on_the_file_set_only', z3.BoolVal(True))
        res.oblige([], f'{prop}.head.sort_sites_checked', z3.BoolVal(n >= 1))
    return post


def head_unit(prop):
    return Unit(f'{prop}.snapshot_head', REPO_PY, 'Repository.snapshot', head_setup, head_post(prop), stmt=(head_start, head_end), prop=prop)


# ------------------------------------------------------------------ snapshot(): the state shared by producer, workers and callbacks is per call
def locals_start(stmt):
    return head_end(stmt)


def locals_end(stmt):
    return isinstance(stmt, (_ast.FunctionDef, _ast.AsyncFunctionDef))


def locals_setup(b):
    me = shared.repo_self(b, cache=False)
    b.me = me
    b.sym('rate_limit', Opt(INT))
    b.made = []

    def maker(name, lenient=True):
        def m(interp, st, args, kwargs):
            o = Obj(f'<{name} made by this call>')
            o._lenient = True
            o._made_here = True
            st.emit('made', what=name, obj=o)
            yield st, o
        return Model(name, m)

    asyncio_ = Obj('asyncio', get_running_loop=maker('running loop'), get_event_loop=maker('running loop'))
    asyncio_._lenient = True
    b.bind('asyncio', asyncio_)
    q = Obj('queue', Queue=maker('queue.Queue'), SimpleQueue=maker('queue.SimpleQueue'), LifoQueue=maker('queue.LifoQueue'))
    q._lenient = True
    b.bind('queue', q)
    b.bind('ThreadPoolExecutor', maker('ThreadPoolExecutor'))
    th = Obj('threading', Event=maker('threading.Event'), Lock=maker('threading.Lock'), RLock=maker('threading.RLock'))
    th._lenient = True
    b.bind('threading', th)
    ut = Obj('utils', RateLimitedIO=maker('utils.RateLimitedIO'))
    ut._lenient = True
    b.bind('utils', ut)
    b.bind('_SnapshotState', maker('_SnapshotState'))


SHARED_LOCALS = ('chunk_queue', 'abort', 'state', 'chunks_table', 'snapshot_files')


def locals_post(prop):
    def post(res):
        from vf.interp import Unknown, PyRef
        n = 0
        for p in res.paths:
            if p.kind == 'raise':
                continue
            n += 1
            made_now = [e.data['obj'] for e in p.events('made')]
            for name in SHARED_LOCALS:
                if not p.st.has(name):
                    continue                      # a local the code no longer has: nothing to say about it here
                v = p.st.lookup(name)
                # what the producer thread, the workers and the callbacks of ONE snapshot share (queue, abort flag, stream state, chunk and
                # file tables) is created by this call: nothing of an earlier (failed, concurrent) snapshot of the same object is visible
                ok = (isinstance(v, Obj) and any(v is o for o in made_now)) or (isinstance(v, PyRef) and v.id >= 0 and not isinstance(v, Unknown))
                if isinstance(v, PyRef):
                    c = res.interp.deref(p.st, v)
                    ok = ok and len(c) == 0       # a fresh, EMPTY container literal
                res.oblige(p, f'{prop}.locals.shared_state_of_a_snapshot_is_created_by_this_call[{name}]', z3.BoolVal(bool(ok)),
                           meta={'value': repr(v)[:80]})
        res.oblige([], f'{prop}.locals.paths_checked', z3.BoolVal(n >= 1))
    return post


def locals_unit(prop):
    return Unit(f'{prop}.snapshot_locals', REPO_PY, 'Repository.snapshot', locals_setup, locals_post(prop), stmt=(locals_start, locals_end), prop=prop)


# ------------------------------------------------------------------ snapshot(): how the producer is started
def pstart_start(stmt):
    return isinstance(stmt, _ast.Assign) and isinstance(stmt.targets[0], _ast.Name) and stmt.targets[0].id == 'chunk_producer'


def pstart_end(stmt):
    return not pstart_start(stmt)


def pstart_setup(b):
    me = shared.repo_self(b, cache=False)
    b.me = me
    b.producer_fn = Obj('<_chunk_producer>')
    b.bind('_chunk_producer', b.producer_fn)

    def runs_of(args, kwargs):
        out = set()
        for a in list(args) + list(kwargs.values()):
            if a is b.producer_fn:
                out.add('producer')
            out |= getattr(a, '_attrs', {}).get('_runs', set()) if isinstance(a, Obj) else set()
        return out

    def afut(name):
        # an asyncio future / task: its completion is delivered as a callback ON THE LOOP THREAD
        def m(interp, st, args, kwargs):
            st.emit('asyncio_future', how=name)
            yield st, Obj(f'<asyncio future via {name}>', _afut=True, _runs=runs_of(args, kwargs))
        return Model(name, m)

    def coro(name):
        def m(interp, st, args, kwargs):
            yield st, Obj(f'<coroutine {name}>', _runs=runs_of(args, kwargs))
        return Model(name, m)

    def cfut(name):
        # a concurrent.futures future: done() flips in the worker thread
        def m(interp, st, args, kwargs):
            st.emit('thread_future', how=name)
            yield st, Obj(f'<concurrent future via {name}>', _cfut=True, _runs=runs_of(args, kwargs))
        return Model(name, m)

    loop = Obj('<running loop>', run_in_executor=afut('loop.run_in_executor'), create_task=afut('loop.create_task'))
    loop._lenient = True
    b.bind('loop', loop)
    b.executor = Obj('<chunk_producer_executor>', submit=cfut('executor.submit'))
    b.executor._lenient = True
    b.bind('chunk_producer_executor', b.executor)
    asyncio_ = Obj('asyncio', get_running_loop=Model('get_running_loop', lambda i, s, a, k: iter([(s, loop)])),
                   get_event_loop=Model('get_event_loop', lambda i, s, a, k: iter([(s, loop)])),
                   wrap_future=afut('asyncio.wrap_future'), ensure_future=afut('asyncio.ensure_future'), create_task=afut('asyncio.create_task'),
                   to_thread=coro('asyncio.to_thread'))
    asyncio_._lenient = True
    b.bind('asyncio', asyncio_)


def pstart_post(prop):
    def post(res):
        from vf.interp import Unknown
        b = res.builder
        for p in res.paths:
            v = p.st.lookup('chunk_producer') if p.st.has('chunk_producer') else None
            if isinstance(v, Unknown):
                raise sym.Unsupported('the producer handle comes from a call the sidecar has no model for')
            attrs = getattr(v, '_attrs', {}) if isinstance(v, Obj) else {}
            ok = p.kind in ('normal', 'return') and attrs.get('_afut') is True and 'producer' in attrs.get('_runs', set())
            # the workers end when `chunk_queue.empty() and chunk_producer.done()`, two separate synchronous checks on the loop thread:
            # sound only if done() flips ON THE LOOP THREAD (an asyncio future: completion arrives as a loop callback, after every put
            # of the producer).  A concurrent.futures future flips in the producer thread, between the two checks: the last chunk is lost
            res.oblige(p, f'{prop}.producer_start.completion_is_published_on_the_loop_thread', z3.BoolVal(bool(ok)),
                       meta={'handle': getattr(v, '_name', repr(v))})
    return post


def producer_start_unit(prop):
    return Unit(f'{prop}.snapshot_producer_start', REPO_PY, 'Repository.snapshot', pstart_setup, pstart_post(prop), stmt=(pstart_start, pstart_end), prop=prop)
