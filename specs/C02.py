"""C02 - No history of snapshot/delete/clean ever damages a remaining snapshot."""
from specs import fsutil, s3, b2, c18, gc, snapbody, snapshot, local

LEVEL = 'proof'
UNITS = [fsutil.scandir_unit('C02')] + s3.list_units('C02') + b2.units('C02')[3:] + [l for l in local.units('C02') if l.name.endswith('list_files')] + local.small_units('C02') + [gc.delete_unit('C02'), gc.clean_unit('C02'), snapbody.download_snapshot_unit('C02'),
         snapshot.worker_unit('C02'), snapshot.run_unit('C02')] + c18.units('C02')[:1] + snapbody.load_units('C02') + [snapshot.producer_unit('C02'), snapshot.chunk_done_unit('C02'), snapshot.tail_unit('C02')]
from specs import families as _families
UNITS = _families.with_families('C02', UNITS)
BOUNDED = [{'name': 'C02.history', 'script': 'bounded/hist.py', 'timeout': 1200, 'args': {'prop': 'C02'}, 'bound': 'random histories of snapshot/delete/clean by owner, shared-key and independent-key users (and one unencrypted user): <= 10 operations, <= 4 paths per snapshot from 6 overlapping contents, chunks 8..64, 5 (thorough: 40) seeded histories per mode, each with one of three object lifetimes (a fresh Repository per command as the CLI does / one per user / ONE object re-unlocked with the key of whoever issues the next command); every remaining snapshot is restored by its owner after each destructive step; the commands use a snapshot cache per user / shared by all users / none (by history), the oracle reads the backend only; a scripted history deleting several snapshots in ONE call (two snapshots of unchanged data sharing chunks only with each other; two with distinct chunks, both name orders); 21 (thorough: 45) snapshots then clean (references read without the loader); ONE transient I/O error while the local backend lists snapshots/ during a delete: fails with nothing removed, or completes exactly'}]
TRUSTED = [
    'vf symbolic executor (/verif/vf): encoding of the Python subset (DESIGN 2.2)',
    'z3 5.1 (API + z3-new CLI), cvc5 1.0.3 (strings)',
]
ASSUMPTIONS = ['backend interface (upload = map update, delete = idempotent removal, list_files(prefix) = live names with the prefix, each once)', 'asyncio.Queue / Future.add_done_callback / run_in_executor deliver each finished job once (library semantics); on top of them _load_snapshots starting one job per listed path and yielding every non-None result with its path, and utils.as_completed, are proved (load_snapshots_outer, as_completed units)', 'loaded snapshots have pairwise distinct names (premise: the snapshot area contains only objects written by replicat; A-collision)', 'loc(d) = contract of _chunk_digest_to_location (proved in C08/C14 units)', 'destructive commands are sequential (premise of the property); restore of the remaining snapshots is C01 on top of the reference invariant']
MANIFEST = {
    'text': 'Deductive proof, for all sets of loaded snapshots and all chunk tables, that delete_snapshots and clean never hand a location to the backend delete that a remaining (not named / any) loaded snapshot references, that they refuse before any deletion when a requested name is missing or foreign, and that foreign-family snapshots are never loaded.',
    'note': 'Trusted: vf engine, SMT solvers, the assumed backend/asyncio contracts listed in evidence.assumptions. Histories are handled by the inductive reference invariant: each command preserves it (per-command contracts), composition over histories is the induction stated in DESIGN 6/C02.',
    'technique': 'contract-based deductive verification: sidecar contracts + loop invariants on the real functions, VCs by symbolic execution of the AST, discharged by z3/cvc5',
    'design_ref': 'DESIGN.md 6/C02',
}
