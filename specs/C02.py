"""C02 - No history of snapshot/delete/clean ever damages a remaining snapshot."""
from specs import gc

LEVEL = 'proof'
UNITS = [gc.delete_unit('C02'), gc.clean_unit('C02')]
TRUSTED = []
ASSUMPTIONS = []
