"""C05 - An encrypted repository reveals no plaintext at rest."""
from specs import keys, snapshot, snapbody, loc, misc

LEVEL = 'proof'
UNITS = [keys.unlock_unit('C05'), keys.init_unit('C05'), keys.add_key_inner_unit('C05'), snapshot.producer_unit('C05'), snapshot.worker_unit('C05'), snapshot.tail_unit('C05'),
         snapbody.encrypt_body_unit('C05'), loc.chunk_loc_unit('C05')] + misc.aead_units('C05') + loc.parts_units('C05') + loc.loc_units('C05')[:2] + keys.make_key_units('C05')
from specs import families as _families
UNITS = _families.with_families('C05', UNITS)
BOUNDED = [{'name': 'C05.e2e_scan', 'script': 'bounded/c14_reference.py', 'timeout': 900, 'args': {'prop': 'C05'}, 'bound': 'encrypted configurations (2, thorough: 3): every stored object, every object name and the key file are searched for marker plaintexts (file content, file name, note, file digest, chunk digest, source directory) in raw, hex and base64 form; the independent reader must still decode everything; then 7 further runs with fresh Repository objects (same tree again, a tree of one empty file, add-key, delete + clean) and one long-lived object (snapshot, delete, clean, snapshot again): all nonces at rest (chunks, both sections of every snapshot body, private section of every key) pairwise distinct, and the marker scan repeated; a run on a store whose existence check answers no for fresh chunk objects (every occurrence of a repeated chunk is uploaded): every payload handed to the backend is scanned for a repeated record, zero runs and the markers; 100 snapshots by ONE long-lived object (> 300 encryptions by the same cipher object) before the last nonce harvest'}]
TRUSTED = [
    'vf symbolic executor (/verif/vf): encoding of the Python subset (DESIGN 2.2)',
    'z3 5.1 (API + z3-new CLI), cvc5 1.0.3 (strings)',
]
ASSUMPTIONS = ['sink discipline: the only values that reach backend.upload/upload_stream/exists/delete names, the key file and the printed key are the ones named in the obligations', 'A-fresh: os.urandom returns a fresh value each call; uniqueness of random nonces is probabilistic and ASSUMED (not decided)', 'ENC/MAC/H/KDF outputs are treated as public (standard cryptographic assumptions)', 'out of scope by the statement: log output at -vv, the local cache directory, process memory']
MANIFEST = {
    'text': 'Deductive proof of the sink discipline of an encrypted repository: chunk payloads are ENC(chunk, key derived from the shared key and the digest), chunk and snapshot names are hex MACs (never the plain digest), the snapshot body is two ciphertexts (private data under the user key, chunk table under a key bound to it) with distinct in-call nonces, and a key leaves the process only with its private section encrypted under the password-derived key.',
    'note': 'Trusted: vf engine, SMT solvers; cryptographic strength and nonce uniqueness are assumed.',
    'technique': 'contract-based deductive verification: sidecar contracts + loop invariants on the real functions, VCs by symbolic execution of the AST, discharged by z3/cvc5',
    'design_ref': 'DESIGN.md 6/C05',
}
