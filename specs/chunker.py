"""C10/C11: gclmulchunker::next_cut (C++, via the cvc front end) and adapters.gclmulchunker.__call__."""
from __future__ import annotations

import ast
import z3

from vf import sym, models, ops, cxx, report
from vf.sym import SV, INT, BOOL, STR, BYTES, Opt
from vf.interp import Model, Raised, Exc, Obj, LoopSpec, IterSpec
from vf.unit import Unit, Lemma
from vf.ops import MethodModel, Property
from specs import shared
from specs.shared import UF, ADAPTERS_PY

CPP = 'src/adapters.cpp'
BUF = models.opaque_type('Buffer')
INFO = models.opaque_type('BufferInfo')


def Q(m, M):
    """premise of the property: 1 <= min <= max and an aligned length exists in [min, max]"""
    return z3.And(1 <= m, m <= M, (m + 3) - (m + 3) % 4 <= M)


def keyval(i):
    """uninterpreted CLMUL hash of the 8-byte window buffer[i-4 : i+4) and the key material"""
    return UF('keyval', INT, INT)(i)


def next_cut_setup(b):
    m, M = b.sym('min_length', INT), b.sym('max_length', INT)
    final = b.sym('final', BOOL)
    size = sym.const(INT, 'size')
    b.assume(Q(m.z, M.z))
    b.assume(M.z < 2 ** 62)              # size_t arithmetic below cannot wrap (2*max, max+min, min+3)
    b.assume(z3.And(size.z >= 0, size.z < 2 ** 62))
    INFO.attrs = {'size': size, 'ptr': SV(INT, z3.IntVal(0))}
    BUF.attrs = {'request': MethodModel('request', lambda i, s, a, k: iter([(s, sym.fresh(INFO, 'info'))]))}
    b.sym('buffer', BUF)
    b.m, b.M, b.final, b.size = m, M, final, size
    # read footprint of key(): derived from the load intrinsic in the parsed text of gclmulchunker::key
    key_fn = cxx.load_function(CPP, 'gclmulchunker::key')
    fps = cxx.intrinsic_footprints(key_fn)
    b.footprints = []
    for name, addr, nbytes in fps:
        # addr is addr_of(buffer[offset - 4])
        if not (isinstance(addr, ast.Call) and addr.func.id == 'addr_of' and isinstance(addr.args[0], ast.Subscript)):
            raise sym.Unsupported('load address form in key()')
        b.footprints.append((ast.unparse(addr.args[0].slice), addr.args[0].slice, nbytes))
    if len(b.footprints) != 1:
        raise sym.Unsupported('expected exactly one load in key()')
    b.key_params = [a.arg for a in key_fn.args.args]

    def key_model(interp, st, args, kwargs):
        buf, off = args
        zo = sym.lift(off, INT).z
        # evaluate the parsed index expression of the load with offset := off
        txt, node, nbytes = b.footprints[0]
        env = {b.key_params[1]: zo}
        lo = eval_index(node, env)
        st.emit('key_read', lo=SV(INT, lo), hi=SV(INT, lo + nbytes), at=off)
        r = keyval(zo)
        st.assume(r >= 0)
        yield st, SV(INT, r)

    b.bind('key', Model('key', key_model))


def eval_index(node, env):
    if isinstance(node, ast.Name):
        return env[node.id]
    if isinstance(node, ast.Constant):
        return z3.IntVal(node.value)
    if isinstance(node, ast.BinOp) and isinstance(node.op, (ast.Add, ast.Sub)):
        l, r = eval_index(node.left, env), eval_index(node.right, env)
        return l + r if isinstance(node.op, ast.Add) else l - r
    raise sym.Unsupported('index expression in key()')


def next_cut_inv(b):
    def inv(ctx):
        i, mi, mv = ctx.v('i'), ctx.v('max_index'), ctx.v('max_value')
        M = b.M.z
        return z3.And(i % 4 == 0, i >= 4, mv >= 0, mi >= 0, mi < M,
                      z3.Or(mi == 0, z3.And(mi % 4 == 0, 4 <= mi, mi <= i - 4)),
                      z3.Implies(mi == 0, mv == 0),
                      i <= M + 3)
    return inv


def next_cut_post(prop):
    def post(res):
        b = res.builder
        m, M, s, final = b.m.z, b.M.z, b.size.z, b.final.z
        nontail = z3.Or(z3.And(z3.Not(final), s >= M), z3.And(final, s >= 2 * M))
        n_reads = 0
        for p in res.all_paths():
            for e in p.events('key_read'):
                n_reads += 1
                pc = p.pc_at(e)
                goal = z3.And(e.data['lo'].z >= 0, e.data['hi'].z <= s)
                # C10.next_cut.reads_in_bounds: the result never depends on memory outside the data
                shared.split_known(res, pc, f'{prop}.next_cut.reads_in_bounds', goal, 'D4', M % 4 != 0)
        res.oblige([], f'{prop}.next_cut.read_sites_checked', z3.BoolVal(n_reads >= 1))
        for p in res.paths:
            if p.kind != 'return':
                res.oblige(p, f'{prop}.next_cut.total[{p.kind}]', z3.BoolVal(False))
                continue
            r = sym.lift(p.value, INT).z
            res.oblige(p, f'{prop}.next_cut.range', z3.And(0 <= r, r <= s))
            res.oblige(p, f'{prop}.next_cut.productive', z3.Implies(r == 0, z3.Or(z3.And(z3.Not(final), s < M), s == 0)))
            # not final and fewer than max bytes buffered: wait for more data (needed by bounds_outside_tail)
            res.oblige(p, f'{prop}.next_cut.waits_for_data', z3.Implies(z3.And(z3.Not(final), s < M), r == 0))
            res.oblige(p, f'{prop}.next_cut.bounds', z3.Implies(nontail, z3.And(m <= r, r <= M, r % 4 == 0)))
            res.oblige(p, f'{prop}.next_cut.tail_rule', z3.Implies(z3.And(final, s < 2 * M), r == z3.If(
                s <= M, s, z3.If(s < M + m, s / 2, M))), tag='helper')
    return post


def next_cut_frame(prop):
    """structural obligations on the parsed C++ text (backend: ast)"""
    def build(add):
        fn = cxx.load_function(CPP, 'gclmulchunker::next_cut')
        key = cxx.load_function(CPP, 'gclmulchunker::key')
        members = {'min_length', 'max_length', 'params', 'k1'}
        stored = set()
        for f in (fn, key):
            for n in ast.walk(f):
                if isinstance(n, ast.Name) and isinstance(n.ctx, ast.Store):
                    stored.add(n.id)
        # C10.next_cut.frame: no member of the chunker object is assigned -> "never by earlier calls"
        add('frame.no_member_assigned', [], z3.BoolVal(not (stored & members)))
        add('frame.no_static_state', [], z3.BoolVal(not __import__('re').search(r'\\bstatic\\b', fn.cxx_text + key.cxx_text)))
        # C10.next_cut.local: after the regime test, the decision reads neither `size` nor `final`
        body = fn.body
        idx = next(i for i, st in enumerate(body) if isinstance(st, ast.If))
        after = body[idx + 1:]
        used = {n.id for st in after for n in ast.walk(st) if isinstance(n, ast.Name)}
        attrs = {n.attr for st in after for n in ast.walk(st) if isinstance(n, ast.Attribute)}
        add('local.decision_independent_of_size_and_final', [], z3.BoolVal(not ({'size', 'final', 'info'} & used) and 'size' not in attrs))
        # C11.key.personalises: both key halves flow into the returned value
        ret = [n for n in ast.walk(key) if isinstance(n, ast.Return)][0]
        flow = {n.id for n in ast.walk(ret) if isinstance(n, ast.Name)}
        assigned_from = {}
        for st in key.body:
            if isinstance(st, ast.Assign):
                assigned_from.setdefault(st.targets[0].id, set()).update(
                    n.id for n in ast.walk(st.value) if isinstance(n, ast.Name))
        closure = set(flow)
        for _ in range(5):
            for v in list(closure):
                closure |= assigned_from.get(v, set())
        add('key.both_halves_flow_into_result', [], z3.BoolVal({'params', 'k1'} <= closure))
        add('key.reads_only_its_window', [], z3.BoolVal(len(cxx.intrinsic_footprints(key)) == 1))
    return Lemma(f'{prop}.next_cut_structure', build, prop=prop)


def next_cut_unit(prop):
    def setup(b):
        next_cut_setup(b)
        u.loops['While#1'].inv = next_cut_inv(b)

    u = Unit(f'{prop}.next_cut', CPP, 'gclmulchunker::next_cut', setup, next_cut_post(prop),
             loops={'While#1': LoopSpec(None, modifies=[], name='For#1[i]',
                                        decreases=None)},
             node_loader=lambda: cxx.load_function(CPP, 'gclmulchunker::next_cut'), prop=prop)
    return u


# ------------------------------------------------------------------ adapters.gclmulchunker.__call__
def piece(k):
    return UF('piece', INT, BYTES)(k)


def pref(k):
    """ghost: concatenation of the first k pieces handed over by the caller"""
    return UF('pref', INT, BYTES)(k)


ITER = models.opaque_type('PieceIter')
CHUNKER = models.opaque_type('NativeChunker')


def call_setup(b):
    m, M = sym.const(INT, 'min_length'), sym.const(INT, 'max_length')
    b.assume(Q(m.z, M.z))
    b.m, b.M = m, M
    me = Obj('self', min_length=m, max_length=M)
    me._lenient = True
    me._class_source = (ADAPTERS_PY, 'gclmulchunker')          # helpers extracted from __call__ are the real methods, inlined

    def on_unknown(interp, st, name):
        # "never by earlier calls" / "different keys lead to different boundaries": a call must not depend on
        # instance state left behind by other calls (only the configured bounds are read)
        interp.oblige(st, f'call.no_hidden_instance_state', z3.BoolVal(False), meta={'state': name})

    me._on_unknown = on_unknown
    b.bind('self', me)
    b.sym('params', Opt(BYTES))
    n = z3.Int('n_pieces')
    b.n = n
    b.assume(n >= 0)
    k = z3.Int('pk')
    b.assume(pref(0) == z3.StringVal(''))
    b.assume(z3.ForAll([k], z3.Implies(k >= 0, pref(k + 1) == z3.Concat(pref(k), piece(k)))))
    b.ghost('it_pos', SV(INT, z3.IntVal(0)))
    b.ghost('yielded', SV(BYTES, z3.StringVal('')))
    b.sym('chunk_iterator', models.opaque_type('Iterable'))

    def iter_(interp, st, args, kwargs):
        yield st, sym.fresh(ITER, 'it')

    def next_(interp, st, args, kwargs):
        it, default = args
        pos = st.ghost['it_pos'].z
        for s, more in interp.branch(st, pos < n):
            if more:
                s.ghost['it_pos'] = SV(INT, pos + 1)
                s.emit('next', index=SV(INT, pos))
                yield s, SV(Opt(BYTES), Opt(BYTES).some(piece(pos)))
            else:
                s.emit('next_exhausted')
                yield s, SV(Opt(BYTES), Opt(BYTES).none())

    b.bind('iter', Model('iter', iter_))
    b.bind('next', Model('next', next_))
    b.bind('bytearray', Model('bytearray', lambda i, s, a, k_: iter([(s, SV(BYTES, z3.StringVal('')))])))

    def next_cut(interp, st, args, kwargs):
        _, buf, final = args
        zb = sym.lift(buf, BYTES).z
        zf = interp.truth(st, final)
        r = sym.fresh(INT, 'cut')
        ln = z3.Length(zb)
        # contract of gclmulchunker::next_cut proved from the C++ source (unit C10.next_cut): range + productive
        st.assume(z3.And(0 <= r.z, r.z <= ln))
        st.assume(z3.Implies(r.z == 0, z3.Or(z3.And(z3.Not(zf), ln < M.z), ln == 0)))
        st.emit('next_cut', buffer=SV(BYTES, zb), final=SV(BOOL, zf), result=r, it_pos=st.ghost['it_pos'])
        yield st, r

    CHUNKER.attrs = {'next_cut': MethodModel('next_cut', next_cut)}

    def make_chunker(interp, st, args, kwargs):
        st.emit('make_chunker', args=list(args))
        yield st, sym.fresh(CHUNKER, 'chunker')

    b.bind('_replicat_adapters', Obj('_replicat_adapters', _gclmulchunker=Model('_gclmulchunker', make_chunker)))


def call_on_yield(interp, st, v):
    st.ghost['yielded'] = SV(BYTES, z3.Concat(st.ghost['yielded'].z, sym.lift(v, BYTES).z))


def opt_or_empty(v):
    t = Opt(BYTES)
    return z3.If(t.is_none(v), z3.StringVal(''), t.val(v))


def call_loops(b_holder):
    def inv_params(ctx):
        p = ctx.v('params')
        t = Opt(BYTES)
        return z3.And(z3.Not(t.is_none(p)), z3.Length(t.val(p)) >= 1)

    def dec_params(ctx):
        p = ctx.v('params')
        return 16 - z3.Length(Opt(BYTES).val(p)) + 16

    def inv_outer(ctx):
        b = b_holder['b']
        chunk, buf = ctx.v('chunk'), ctx.v('buffer')
        pos = ctx.g('it_pos')
        t = Opt(BYTES)
        return z3.And(
            0 <= pos, pos <= b.n,
            # lossless: what was yielded, what is buffered and the piece in hand make up everything consumed
            z3.Concat(ctx.g('yielded'), buf, opt_or_empty(chunk)) == pref(pos),
            # `chunk is None` iff the iterator is exhausted; then nothing is left in the buffer
            z3.Implies(t.is_none(chunk), z3.And(pos == b.n, z3.Length(buf) == 0)),
            # the piece in hand is the one fetched last
            z3.Implies(z3.Not(t.is_none(chunk)), z3.And(pos >= 1, t.val(chunk) == piece(pos - 1))),
        )

    def inv_inner(ctx):
        b = b_holder['b']
        nxt, buf = ctx.v('next_chunk'), ctx.v('buffer')
        pos = ctx.g('it_pos')
        t = Opt(BYTES)
        return z3.And(
            0 <= pos, pos <= b.n,
            z3.Concat(ctx.g('yielded'), buf, opt_or_empty(nxt)) == pref(pos),
            z3.Implies(t.is_none(nxt), pos == b.n),
        )

    def dec_inner(ctx):
        return z3.Length(ctx.v('buffer')) + 1

    return {
        'While#1': LoopSpec(inv_params, modifies=[], name='params_loop', decreases=dec_params),
        'While#2': LoopSpec(inv_outer, modifies=[('ghost', 'it_pos'), ('ghost', 'yielded')], name='While#1[outer]',
                            types={'next_chunk': Opt(BYTES), 'pos': INT}),
        'While#3': LoopSpec(inv_inner, modifies=[('ghost', 'yielded')], name='While#2[inner]', decreases=dec_inner,
                            types={'pos': INT}),
    }


def call_post(prop):
    def post(res):
        b = res.builder
        n_y = 0
        for p in res.all_paths():
            for e in p.events('yield'):
                n_y += 1
                pc = p.pc_at(e)
                v = sym.lift(e.data['value'], BYTES).z
                # C10.call.nonempty
                res.oblige(pc, f'{prop}.call.chunks_nonempty', z3.Length(v) >= 1)
            for e in p.events('buffer_extend'):
                # the bytes appended are those of the piece fetched LAST: the piece is copied before the producer is asked
                # for the next one (lossless for every kind of piece, also for views of a reused buffer)
                pos = e.data['it_pos'].z
                res.oblige(p.pc_at(e), f'{prop}.call.piece_copied_before_the_producer_advances', z3.And(pos >= 1, e.data['appended'].z == piece(pos - 1)))
            for e in p.events('next_cut'):
                # C10.call.final_flag: final is passed iff the look-ahead found the iterator exhausted
                nxt = p.st.lookup('next_chunk') if p.st.has('next_chunk') else None
                if nxt is not None:
                    res.oblige(p.pc_at(e), f'{prop}.call.final_flag', e.data['final'].z == Opt(BYTES).is_none(nxt.z))
            if p.events('yield') or p.events('next_cut'):
                # the native chunker used by this call is built in this call from this call's key
                res.oblige(p, f'{prop}.call.chunker_built_in_this_call', z3.BoolVal(len(p.events('make_chunker')) == 1))
            for e in p.events('make_chunker'):
                a = e.data['args']
                key = Opt(BYTES).val(a[2].z) if isinstance(a[2], SV) and isinstance(a[2].ty, Opt) else sym.lift(a[2], BYTES).z
                # C10.call.params: 16 key bytes, a deterministic function of the argument
                res.oblige(p.pc_at(e), f'{prop}.call.key_is_16_bytes', z3.Length(key) == 16, tag='helper')
                res.oblige(p.pc_at(e), f'{prop}.call.bounds_forwarded', z3.And(a[0].z == b.m.z, a[1].z == b.M.z))
        res.oblige([], f'{prop}.call.yield_sites_checked', z3.BoolVal(n_y >= 1))
        for p in res.paths:
            if p.kind not in ('normal', 'return'):
                res.oblige(p, f'{prop}.call.total[{p.kind}]', z3.BoolVal(False))
                continue
            # C10.call.lossless: at exhaustion the concatenation of the chunks is the concatenation of all pieces
            res.oblige(p, f'{prop}.call.lossless', p.st.ghost['yielded'].z == pref(b.n))
    return post


def call_unit(prop):
    holder = {}

    def setup(b):
        call_setup(b)
        holder['b'] = b

    u = Unit(f'{prop}.call', ADAPTERS_PY, 'gclmulchunker.__call__', setup, call_post(prop), loops=call_loops(holder),
             on_yield=call_on_yield, prop=prop,
             local_types={'params': Opt(BYTES), 'chunk': Opt(BYTES), 'next_chunk': Opt(BYTES), 'buffer': BYTES})

    def on_augassign(interp, st, node, cur, rhs):
        # pieces may be views of a buffer the producer refills when it is advanced (readinto-style producers): a piece is
        # only valid until the NEXT call of next().  Record which piece is appended to the staging buffer, and when.
        import ast as _a
        if isinstance(node.target, _a.Name) and node.target.id == 'buffer' and isinstance(node.op, _a.Add):
            t = Opt(BYTES)
            z = (t.val(rhs.z) if isinstance(rhs, SV) and rhs.ty == t else sym.lift(rhs, BYTES).z)
            st.emit('buffer_extend', appended=SV(BYTES, z), it_pos=st.ghost['it_pos'])

    u.on_augassign = on_augassign
    return u


# ------------------------------------------------------------------ lemmas over the two contracts
def c10_lemmas(prop):
    def build(add):
        m, M, s, r, R = z3.Ints('m M s r R')
        final = z3.Bool('final')
        nontail = z3.Or(z3.And(z3.Not(final), s >= M), z3.And(final, s >= 2 * M))
        contract = [Q(m, M), 0 <= r, r <= s, z3.Implies(r == 0, z3.Or(z3.And(z3.Not(final), s < M), s == 0)),
                    z3.Implies(z3.And(z3.Not(final), s < M), r == 0),
                    z3.Implies(nontail, z3.And(m <= r, r <= M, r % 4 == 0))]
        # the adapter hands next_cut the not yet chunked bytes from stream position p; R = total - p remain;
        # s <= R and final => s == R (C10.call.final_flag + lossless invariant)
        situation = [0 <= s, s <= R, z3.Implies(final, s == R), R >= 2 * M, r != 0]
        add('bounds_outside_tail', contract + situation, z3.And(m <= r, r <= M, r % 4 == 0))
        # segmentation independence (step): in that situation the call is in the non-tail regime, where the
        # result is a function of (m, M, key, buffer[0 : roundup4(M))) only (C10.next_cut_structure.local,
        # reads_in_bounds) -> same position, same bytes => same chunk for any two segmentations
        add('decided_in_nontail_regime', contract + situation, nontail)
        F = z3.Function('cut_fn', z3.IntSort(), z3.IntSort(), z3.StringSort(), z3.StringSort(), z3.IntSort())
        w1, w2, k1, k2 = z3.Strings('w1 w2 k1 k2')
        add('same_window_same_cut', [w1 == w2, k1 == k2], F(m, M, k1, w1) == F(m, M, k2, w2))
    return Lemma(f'{prop}.lemma', build, prop=prop)
