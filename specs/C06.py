"""C06 - Access rights follow key relationships."""
from specs import keys

LEVEL = 'proof'
UNITS = [keys.init_unit('C06'), keys.add_key_inner_unit('C06'), keys.add_key_unit('C06'), keys.instantiate_key_unit('C06'), keys.unlock_unit('C06')]
BOUNDED = []
TRUSTED = []
ASSUMPTIONS = []
