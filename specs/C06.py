"""C06 - Access rights follow key relationships."""
from specs import keys, snapbody, restore, gc, misc, c18

LEVEL = 'proof'
UNITS = [keys.unlock_unit('C06'), keys.instantiate_key_unit('C06'), keys.init_unit('C06'), keys.add_key_inner_unit('C06'), keys.add_key_unit('C06'),
         snapbody.download_snapshot_unit('C06'), snapbody.decrypt_body_unit('C06'), restore.select_unit('C06'), gc.delete_unit('C06'), gc.clean_unit('C06')] + misc.primitive_units('C06') + snapbody.load_units('C06') + keys.make_key_units('C06') + c18.units('C06')[:1]
from specs import families as _families
UNITS = _families.with_families('C06', UNITS)
BOUNDED = [{'name': 'C06.stores', 'script': 'bounded/c13_stores.py', 'timeout': 900, 'bound': 'what delete / clean learn about the repository is a LISTING: the real S3-compatible, B2 and local adapters against in-memory services with pages of 3 names (and a scratch directory), seeded histories of 14 operations per service; every prefix listing is compared with a plain map (same stand-in as C13.stores)'}, {'name': 'C06.history', 'script': 'bounded/hist.py', 'timeout': 1200, 'args': {'prop': 'C06'}, 'bound': 'random histories of snapshot/delete/clean by owner, shared-key and independent-key users (and one unencrypted user): <= 10 operations, <= 4 paths per snapshot from 6 overlapping contents, chunks 8..64, 5 (thorough: 40) seeded histories per mode, each with one of three object lifetimes (a fresh Repository per command as the CLI does / one per user / ONE object re-unlocked with the key of whoever issues the next command); after every step the view of each user (through the objects of the history itself) shows exactly the snapshots of the key family, with file lists readable only for the snapshots of that user, and deleting a foreign snapshot is refused; a repository with 21 (thorough: 45) snapshots: all are loaded, and a clean by the shared-key user removes nothing any of them references (references read without the loader)'}]
TRUSTED = [
    'vf symbolic executor (/verif/vf): encoding of the Python subset (DESIGN 2.2)',
    'z3 5.1 (API + z3-new CLI), cvc5 1.0.3 (strings)',
]
ASSUMPTIONS = ['A-aead: decryption under a key derived from a different password or salt fails (KDF injective in the password: assumed)', 'independent families: MAC under different mac_params never collide (A-collision), so the tag check separates them', 'keys emitted by replicat carry an encrypted private section (C05.sink.key)']
MANIFEST = {
    'text': "Deductive proof of the gating code: an encrypted repository is unlocked only through a successful decryption of the key's private section with the password-derived key; bodies with a foreign tag are never loaded; a shared-key user gets the chunk table but data=None; restore plans only readable bodies; delete refuses names whose data is unreadable or unknown before any deletion; clean deletes only objects whose tag verifies under the caller's MAC key; add-key copies the caller's private section only for shared keys and protects the new key with the new password and a new salt.",
    'note': 'Trusted: vf engine, SMT solvers, cryptographic assumptions.',
    'technique': 'contract-based deductive verification: sidecar contracts + loop invariants on the real functions, VCs by symbolic execution of the AST, discharged by z3/cvc5',
    'design_ref': 'DESIGN.md 6/C06',
}
