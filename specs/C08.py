"""C08 - Garbage collection is complete and confined to the caller's own data."""
from specs import fsutil, s3, b2, c18, snapbody, gc, loc, local

LEVEL = 'proof'
UNITS = [fsutil.scandir_unit('C08')] + s3.list_units('C08') + b2.units('C08')[3:] + [l for l in local.units('C08') if l.name.endswith('list_files')] + local.small_units('C08') + [gc.delete_unit('C08'), gc.clean_unit('C08'), snapbody.download_snapshot_unit('C08')] + c18.units('C08')[:1] + loc.loc_units('C08') + loc.parts_units('C08') + [loc.chunk_loc_unit('C08')] + snapbody.load_units('C08')
from specs import families as _families
UNITS = _families.with_families('C08', UNITS)
BOUNDED = [{'name': 'C08.stores', 'script': 'bounded/c13_stores.py', 'timeout': 900, 'bound': 'what delete / clean learn about the repository is a LISTING: the real S3-compatible, B2 and local adapters against in-memory services with pages of 3 names (and a scratch directory), seeded histories of 14 operations per service; every prefix listing is compared with a plain map (same stand-in as C13.stores)'}, {'name': 'C08.history', 'script': 'bounded/hist.py', 'timeout': 1200, 'args': {'prop': 'C08'}, 'bound': 'random histories of snapshot/delete/clean by owner, shared-key and independent-key users (and one unencrypted user): <= 10 operations, <= 4 paths per snapshot from 6 overlapping contents, chunks 8..64, 5 (thorough: 40) seeded histories per mode, each with one of three object lifetimes (a fresh Repository per command as the CLI does / one per user / ONE object re-unlocked with the key of whoever issues the next command); every remaining snapshot is restored by its owner after each destructive step; plus (C08) one clean after a snapshot that left >= 700 (thorough: 1200) orphan chunks behind; a scripted history deleting several snapshots in ONE call (two snapshots of unchanged data sharing chunks only with each other; two with distinct chunks, both name orders); 21 (thorough: 45) snapshots then clean (references read without the loader); ONE transient I/O error while the local backend lists snapshots/ during a delete: fails with nothing removed, or completes exactly; two cleans in ONE process (same object, fresh object) around a snapshot object removed without its chunks'}]
TRUSTED = [
    'vf symbolic executor (/verif/vf): encoding of the Python subset (DESIGN 2.2)',
    'z3 5.1 (API + z3-new CLI), cvc5 1.0.3 (strings)',
]
ASSUMPTIONS = ['backend interface as in C02', 'hex strings contain neither "/" nor "-" and tags have >= 3 (chunks) / >= 1 (snapshots) characters', 'posixpath.join modelled by its stdlib algorithm (audited)', 'str.rpartition / rsplit characterised by unique decomposition', 'the chunk and snapshot areas contain only objects written by replicat (premise)']
MANIFEST = {
    'text': 'Deductive proof of exact deletion sets (equalities, not inclusions) for delete and clean over all loaded-snapshot sets and listings, of confinement to listed chunk locations / named snapshot paths, and of the inverse relation between the location builders and parsers (string VCs, cvc5).',
    'note': 'Trusted: vf engine, SMT solvers (cvc5 decides the string VCs), assumed backend interface and stdlib string contracts.',
    'technique': 'contract-based deductive verification: sidecar contracts + loop invariants on the real functions, VCs by symbolic execution of the AST, discharged by z3/cvc5',
    'design_ref': 'DESIGN.md 6/C08',
}
