"""C08 - Garbage collection is complete and confined to the caller's own data."""
from specs import gc, loc

LEVEL = 'proof'
UNITS = [gc.delete_unit('C08'), gc.clean_unit('C08')] + loc.loc_units('C08') + loc.parts_units('C08') + [loc.chunk_loc_unit('C08')]
TRUSTED = []
ASSUMPTIONS = []
