"""C19 - Option precedence is CLI over environment over profile over defaults."""
from specs import options

LEVEL = 'exploration'
UNITS = options.units('C19')
from specs import families as _families
UNITS = _families.with_families('C19', UNITS)
BOUNDED = [
    {'name': 'C19.main.precedence', 'script': 'bounded/c19_main.py', 'timeout': 900,
     'bound': 'real main() with _cmd_handler replaced by a recorder: the documented environment names of the s3 and b2 adapters (S3_REGION, B2_KEY_ID) and 9 more options (concurrent, quiet, cache-directory, password, repository, '
              'custom-backend token/level/flag, s3c region) x ALL subsets of the sources in which each can be set (CLI, environment, profile, default section) '
              'x commands snapshot+init (thorough: +restore) x backends local / s3c / a custom backend found through the namespace package; '
              'typed coercion compared across sources; 4 mutually-exclusive combinations must be rejected'},
]
RULE = ('cases = (option, subset of sources, command); every case sets distinct values in the chosen sources and compares the value received by '
        '_cmd_handler / the backend constructor with the precedence function; a case is non-trivial when at least one source is set; distinct = distinct triples')
TRUSTED = ['argparse internals (parser-level defaults, second parse) are exercised, not modelled', 'vf engine + z3 for the proved ingredients']
ASSUMPTIONS = [
    'the composition runs through argparse, which cannot be brought under the VC generator: the headline claim is a BOUNDED check (level exploration)',
    'values are sampled (one distinct value per source), source subsets are complete for the listed options',
    'proved ingredients (extra): guess_type is total and passes typed values through; main() applies file < environment < -r and installs the merged dict as parser defaults before the final parse (structural)',
]
MANIFEST = {
    'text': 'Bounded exploration of the real main(): for each option and every subset of the five sources the value that reaches the command handler / backend constructor equals what the precedence order names, with identical coercion for every source; mutually exclusive options are rejected. Additionally proved (deductively, all inputs): the type-guessing function, the order of the merging steps of main() and its file-option loading region (only a missing DEFAULT file is skipped; an unusable file option fails the run), Config.apply_known (option table, exclusive pairs, no-cache), parser_for_backend (CLI text converted like environment/file text), _instantiate_backend (a value is passed unless no source supplied it, None included) and parse_repository.',
    'note': 'argparse is not modelled, so this property is claimed at exploration level only; complete over source subsets, sampled over values.',
    'technique': 'bounded contract check of the real main() (complete over source subsets) plus contract-based deductive verification of the contract-shaped ingredients',
    'design_ref': 'DESIGN.md 6/C19',
}
