"""C12 structural obligations: finite retry budgets and bounded re-authentication (backend: ast)."""
from __future__ import annotations

import ast
import z3

from vf import source
from vf.unit import Lemma

UTILS_PY = 'replicat/utils/__init__.py'


def _literal_int(node, relpath):
    if isinstance(node, ast.Constant) and isinstance(node.value, int):
        return node.value
    if isinstance(node, ast.Name):
        try:
            v = source.module_assign(relpath, node.id)
        except source.SelectorError:
            return None
        return _literal_int(v, relpath)
    return None


def requires_auth_bounded(prop):
    def build(add):
        for nth, kind in ((0, 'async'), (1, 'sync')):
            w = source.select(UTILS_PY, 'requires_auth.wrapper', nth=nth)
            calls_self = [n for n in ast.walk(w) if isinstance(n, ast.Call) and isinstance(n.func, ast.Name) and n.func.id == 'wrapper']
            # C12.requires_auth.bounded: no unbounded self-recursion ...
            add(f'requires_auth[{kind}].no_self_recursion', [], z3.BoolVal(not calls_self))
            # ... and every call of the wrapped function sits in a `for _ in range(<literal>)` loop or outside any loop
            bound = 0
            ok = True

            def visit(node, loops):
                nonlocal bound, ok
                for c in ast.iter_child_nodes(node):
                    if isinstance(c, (ast.While, ast.AsyncFor)):
                        inner = loops + [None]
                    elif isinstance(c, ast.For):
                        n = None
                        it = c.iter
                        if isinstance(it, ast.Call) and isinstance(it.func, ast.Name) and it.func.id == 'range' and len(it.args) == 1:
                            n = _literal_int(it.args[0], UTILS_PY)
                        inner = loops + [n]
                    else:
                        inner = loops
                    if isinstance(c, ast.Call) and isinstance(c.func, ast.Name) and c.func.id == 'func':
                        mult = 1
                        for l in loops:
                            if l is None:
                                ok = False
                            else:
                                mult *= l
                        bound += mult
                    visit(c, inner)

            visit(w, [])
            add(f'requires_auth[{kind}].attempts_bounded_by_literal', [], z3.BoolVal(ok and 1 <= bound <= 16),
                meta={'bound': bound})
    return Lemma(f'{prop}.requires_auth', build, prop=prop)


FINITE = {
    'replicat/backends/local.py': {'backoff_on_oserror'},
    'replicat/backends/s3c.py': {'backoff_on_httperror'},
    'replicat/backends/b2.py': {'backoff_no_reauth', 'backoff_reauth'},
}
CLASSES = {'replicat/backends/local.py': 'Local', 'replicat/backends/s3c.py': 'S3Compatible', 'replicat/backends/b2.py': 'B2'}
PUBLIC = ['exists', 'upload', 'upload_stream', 'download', 'download_stream', 'list_files', 'delete']
CARRIERS = {
    ('replicat/backends/s3c.py', 'upload'): ['_put_object'],
    ('replicat/backends/s3c.py', 'upload_stream'): ['_put_object_stream'],
    ('replicat/backends/s3c.py', 'list_files'): ['_list_objects'],
    ('replicat/backends/b2.py', 'list_files'): ['_list_file_names'],
}


def _max_tries_of(relpath, name):
    """literal max_tries of a module-level backoff decorator (following functools.partial once)"""
    node = source.module_assign(relpath, name)
    for _ in range(3):
        if isinstance(node, ast.Call):
            for k in node.keywords:
                if k.arg == 'max_tries':
                    return _literal_int(k.value, relpath)
            f = node.func
            if isinstance(f, ast.Name):
                node = source.module_assign(relpath, f.id)
                continue
        break
    return None


def retry_finite(prop):
    def build(add):
        for relpath, names in FINITE.items():
            for nm in names:
                mt = _max_tries_of(relpath, nm)
                add(f'retry.{relpath.split("/")[-1]}.{nm}.max_tries_is_finite_literal', [], z3.BoolVal(mt is not None and 1 <= mt <= 10))
            cls = CLASSES[relpath]
            for m in PUBLIC:
                carriers = CARRIERS.get((relpath, m), [m])
                ok = True
                for c in carriers:
                    fn = source.select(relpath, f'{cls}.{c}')
                    decs = {ast.unparse(d) for d in fn.decorator_list}
                    if not (decs & names):
                        ok = False
                # C12.retry.finite: every public transfer method runs (transitively) under a finite retry budget
                add(f'retry.{relpath.split("/")[-1]}.{m}.under_finite_budget', [], z3.BoolVal(ok))
    return Lemma(f'{prop}.retry', build, prop=prop)
