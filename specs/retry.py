"""C12 structural obligations: finite retry budgets and bounded re-authentication (backend: ast)."""
from __future__ import annotations

import ast
import z3

from vf import source
from vf.unit import Lemma

UTILS_PY = 'replicat/utils/__init__.py'


def _literal_int(node, relpath):
    if isinstance(node, ast.Constant) and isinstance(node.value, int):
        return node.value
    if isinstance(node, ast.Name):
        try:
            v = source.module_assign(relpath, node.id)
        except source.SelectorError:
            return None
        return _literal_int(v, relpath)
    return None


def requires_auth_bounded(prop):
    def build(add):
        for nth, kind in ((0, 'async'), (1, 'sync')):
            w = source.select(UTILS_PY, 'requires_auth.wrapper', nth=nth)
            calls_self = [n for n in ast.walk(w) if isinstance(n, ast.Call) and isinstance(n.func, ast.Name) and n.func.id == 'wrapper']
            # C12.requires_auth.bounded: no unbounded self-recursion ...
            add(f'requires_auth[{kind}].no_self_recursion', [], z3.BoolVal(not calls_self))
            # ... and every call of the wrapped function sits in a `for _ in range(<literal>)` loop or outside any loop
            bound = 0
            ok = True

            def visit(node, loops):
                nonlocal bound, ok
                for c in ast.iter_child_nodes(node):
                    if isinstance(c, (ast.While, ast.AsyncFor)):
                        inner = loops + [None]
                    elif isinstance(c, ast.For):
                        n = None
                        it = c.iter
                        if isinstance(it, ast.Call) and isinstance(it.func, ast.Name) and it.func.id == 'range' and len(it.args) == 1:
                            n = _literal_int(it.args[0], UTILS_PY)
                        inner = loops + [n]
                    else:
                        inner = loops
                    if isinstance(c, ast.Call) and isinstance(c.func, ast.Name) and c.func.id == 'func':
                        mult = 1
                        for l in loops:
                            if l is None:
                                ok = False
                            else:
                                mult *= l
                        bound += mult
                    visit(c, inner)

            visit(w, [])
            add(f'requires_auth[{kind}].attempts_bounded_by_literal', [], z3.BoolVal(ok and 1 <= bound <= 16),
                meta={'bound': bound})
    return Lemma(f'{prop}.requires_auth', build, prop=prop)


BACKENDS = ['replicat/backends/local.py', 'replicat/backends/s3c.py', 'replicat/backends/b2.py']
CLASSES = {'replicat/backends/local.py': 'Local', 'replicat/backends/s3c.py': 'S3Compatible', 'replicat/backends/b2.py': 'B2'}
PUBLIC = ['exists', 'upload', 'upload_stream', 'download', 'download_stream', 'list_files', 'delete']


def _backoff_budget(relpath, node, depth=0):
    """node: the value of a module-level assignment.  -> ('backoff', max_tries or None) when it is (a functools.partial of / a call of a
    partial of) backoff.on_exception / backoff.on_predicate, else None.  max_tries is followed through partials and named constants."""
    if depth > 4 or not isinstance(node, ast.Call):
        return None
    head = ast.unparse(node.func)
    mt = None
    for k in node.keywords:
        if k.arg == 'max_tries':
            mt = _literal_int(k.value, relpath)
            if mt is None:
                mt = 'not-a-literal'
    if head in ('backoff.on_exception', 'backoff.on_predicate', 'on_exception', 'on_predicate'):
        return ('backoff', mt)
    if head in ('functools.partial', 'partial') and node.args:
        inner = ast.unparse(node.args[0])
        if inner in ('backoff.on_exception', 'backoff.on_predicate', 'on_exception', 'on_predicate'):
            return ('backoff', mt)
        return None
    if isinstance(node.func, ast.Name):
        try:
            base = source.module_assign(relpath, node.func.id)
        except source.SelectorError:
            # a factory written as a module-level function whose body is `return <call>`
            try:
                fn = source.select(relpath, node.func.id)
            except source.SelectorError:
                return None
            rets = [n.value for n in ast.walk(fn) if isinstance(n, ast.Return) and n.value is not None] if isinstance(fn, ast.FunctionDef) else []
            if len(rets) != 1:
                return None
            base = rets[0]
        r = _backoff_budget(relpath, base, depth + 1)
        if r is None:
            return None
        return ('backoff', mt if mt is not None else r[1])
    return None


def backoff_decorators(relpath):
    """{module-level name: max_tries} of every retry decorator the module defines (recognised by what it is, not by its name)"""
    tree, _ = source.load_module(relpath)
    out = {}
    for n in tree.body:
        if isinstance(n, ast.Assign) and len(n.targets) == 1 and isinstance(n.targets[0], ast.Name):
            r = _backoff_budget(relpath, n.value)
            if r is not None:
                out[n.targets[0].id] = r[1]
    return out


def _under_budget(relpath, cls, method, finite, depth=0, seen=()):
    """the method is decorated with a finite retry decorator, or everything it does with the backend goes through methods of the class
    that are (the calls `self.<m>(...)` it makes, transitively)"""
    try:
        fn = source.select(relpath, f'{cls}.{method}')
    except source.SelectorError:
        return False
    decs = {ast.unparse(d) for d in fn.decorator_list}
    if decs & finite:
        return True
    if depth >= 3:
        return False
    me = fn.args.args[0].arg if fn.args.args else 'self'
    called = []
    for n in ast.walk(fn):
        if isinstance(n, ast.Call) and isinstance(n.func, ast.Attribute) and isinstance(n.func.value, ast.Name) and n.func.value.id == me:
            nm = n.func.attr
            try:
                source.select(relpath, f'{cls}.{nm}')
            except source.SelectorError:
                continue
            if nm not in seen and nm != method:
                called.append(nm)
    called = [c for c in dict.fromkeys(called)]
    carriers = [c for c in called if _under_budget(relpath, cls, c, finite, depth + 1, seen + (method,))]
    return bool(carriers)


def retry_finite(prop):
    def build(add):
        for relpath in BACKENDS:
            short = relpath.split("/")[-1]
            decs = backoff_decorators(relpath)
            # the adapter defines retry decorators at all (vacuity guard of this lemma)
            add(f'retry.{short}.retry_decorators_found', [], z3.BoolVal(len(decs) >= 1), meta={'decorators': sorted(decs)})
            for nm, mt in sorted(decs.items()):
                add(f'retry.{short}.max_tries_is_finite_literal[{len([x for x in sorted(decs) if x <= nm])}]', [],
                    z3.BoolVal(isinstance(mt, int) and 1 <= mt <= 10), meta={'decorator': nm, 'max_tries': mt})
            finite = {nm for nm, mt in decs.items() if isinstance(mt, int) and 1 <= mt <= 10}
            cls = CLASSES[relpath]
            for m in PUBLIC:
                # C12.retry.finite: every public transfer method runs (itself or through the methods it delegates to) under a finite
                # retry budget
                add(f'retry.{short}.{m}.under_finite_budget', [], z3.BoolVal(_under_budget(relpath, cls, m, finite)))
    return Lemma(f'{prop}.retry', build, prop=prop)


# ------------------------------------------------------------------ requires_auth: the retry region under contract
def _wrapper_region(stmt):
    return isinstance(stmt, ast.For)


def reauth_setup(kind):
    def setup(b):
        from vf import sym, models
        from vf.interp import Model, Raised, Exc, Obj
        from vf.ops import CM
        from specs import shared
        RESULT = models.opaque_type('CallResult')

        def locked(interp, st, args, kwargs):
            yield st, sym.fresh(sym.BOOL, 'lock_busy')

        def acquire(interp, st, args, kwargs):
            r = sym.fresh(sym.BOOL, 'got_lock')
            st.emit('lock_try', result=r)
            yield st, r

        def release(interp, st, args, kwargs):
            st.emit('lock_release')
            yield st, None

        lock = models.lock_cm('auth_lock')
        lock.attrs = {'locked': Model('locked', locked), 'acquire': Model('acquire', acquire), 'release': Model('release', release)}

        def authenticate(interp, st, args, kwargs):
            bad = st.copy()
            bad.emit('authenticate_failed')
            yield bad, Raised(Exc('OSError'))
            st.emit('authenticate')
            yield st, None

        me = Obj('self', authenticate=Model('authenticate', authenticate))
        me._attrs['_async_auth_lock' if kind == 'async' else '_auth_lock'] = lock
        b.bind('self', me)
        b.me = me
        b.bind('a', ())
        b.bind('ka', b.st.new_py('dict', {}))

        def run(interp, st, ok_self):
            for cls in ('AuthRequired', 'OSError'):
                bad = st.copy()
                bad.emit('call', outcome=cls, self_first=ok_self)
                yield bad, Raised(Exc(cls))
            r = sym.fresh(RESULT, 'result')
            st.emit('call', outcome='ok', value=r, self_first=ok_self)
            yield st, r

        def func(interp, st, args, kwargs):
            ok_self = bool(args) and args[0] is me
            if kind == 'async':
                # a coroutine function: calling it only creates the coroutine, the body runs (and may fail) when it is AWAITED;
                # a coroutine handed back un-awaited is not a result
                CORO = models.opaque_type('Coroutine')
                CORO.on_await = lambda i, s, v, ok_self=ok_self: run(i, s, ok_self)
                st.emit('coroutine_created')
                yield st, sym.fresh(CORO, 'coro')
            else:
                yield from run(interp, st, ok_self)

        b.bind('func', Model('func', func))
        b.bind('exceptions', shared.EXCEPTIONS)
    return setup


def reauth_post(prop, kind):
    def post(res):
        n_persist = n_ok = 0
        for p in res.paths:
            calls = p.events('call')
            outcomes = [c.data['outcome'] for c in calls]
            sig = f'{",".join(o[:4] for o in outcomes)}->{p.kind}' + (':' + p.value.cls if p.kind == 'raise' else '')
            tag = f'{prop}.requires_auth[{kind}]'
            res.oblige(p, f'{tag}.wrapped_method_called_with_self', z3.BoolVal(all(c.data['self_first'] for c in calls)))
            if kind == 'async':
                # every coroutine the wrapper creates is awaited (its body runs): none is dropped or returned as if it were a result
                res.oblige(p, f'{tag}.every_created_coroutine_is_awaited[{sig}]', z3.BoolVal(len(p.events('coroutine_created')) == len(calls)))
            if p.kind in ('return', 'normal'):
                n_ok += 1
                # the wrapper never reports success without a result of the wrapped call: it returns what the LAST call
                # returned, and that call succeeded (falling off the end would turn a persistent AuthRequired into None)
                good = (p.kind == 'return' and outcomes and outcomes[-1] == 'ok' and p.value is calls[-1].data['value']
                        and p.st.events[-1] is calls[-1])
                res.oblige(p, f'{tag}.success_only_with_the_result_of_a_successful_call[{sig}]', z3.BoolVal(bool(good)))
            if outcomes and all(o == 'AuthRequired' for o in outcomes) and not p.events('authenticate_failed'):
                n_persist += 1
                # persistent AuthRequired: bounded number of attempts, at least one re-authentication, then the error surfaces
                res.oblige(p, f'{tag}.persistent_auth_failure_surfaces_after_bounded_attempts[{sig}]', z3.BoolVal(
                    p.kind == 'raise' and p.value.cls == 'AuthRequired' and 2 <= len(outcomes) <= 16))
            if 'OSError' in outcomes:
                res.oblige(p, f'{tag}.other_errors_propagate_at_once[{sig}]', z3.BoolVal(
                    p.kind == 'raise' and p.value.cls == 'OSError' and outcomes.index('OSError') == len(outcomes) - 1))
            # between two attempts the credentials were refreshed by this caller, or it waited for the one refreshing them
            evs = p.st.events
            idx = [i for i, e in enumerate(evs) if e.kind == 'call']
            for x, y in zip(idx, idx[1:]):
                between = [e.kind for e in evs[x + 1:y]]
                res.oblige(p.pc_at(evs[y]), f'{tag}.reauthenticated_or_waited_between_attempts',
                           z3.BoolVal('authenticate' in between or 'acquire' in between))
            # a lock taken with acquire(blocking=False) is released on every path, also when authenticate() fails
            tries = [e for e in p.events('lock_try')]
            if tries:
                got = z3.Or(*[e.data['result'].z for e in tries])
                res.oblige(p, f'{tag}.try_lock_released[{sig}]', z3.Implies(got, z3.BoolVal(len(p.events('lock_release')) >= 1)))
            res.oblige(p, f'{tag}.no_lock_held_at_exit[{sig}]', z3.BoolVal(not p.st.locks_held))
        res.oblige([], f'{prop}.requires_auth[{kind}].paths_checked', z3.BoolVal(n_persist >= 1 and n_ok >= 2))
    return post


def requires_auth_units(prop):
    from vf.unit import Unit
    return [Unit(f'{prop}.requires_auth_{kind}', UTILS_PY, 'requires_auth.wrapper', reauth_setup(kind), reauth_post(prop, kind),
                 nth=nth, stmt=_wrapper_region, prop=prop) for nth, kind in ((0, 'async'), (1, 'sync'))]


# ------------------------------------------------------------------ the give-up predicates of the retry decorators
def _giveup_name(relpath, deco):
    node = source.module_assign(relpath, deco)
    for _ in range(4):
        if isinstance(node, ast.Call):
            for k in node.keywords:
                if k.arg == 'giveup' and isinstance(k.value, ast.Name):
                    return k.value.id
            if isinstance(node.func, ast.Name):
                try:
                    node = source.module_assign(relpath, node.func.id)
                    continue
                except source.SelectorError:
                    try:
                        fn = source.select(relpath, node.func.id)
                    except source.SelectorError:
                        return None
                    rets = [n.value for n in ast.walk(fn) if isinstance(n, ast.Return) and n.value is not None] if isinstance(fn, ast.FunctionDef) else []
                    if len(rets) != 1:
                        return None
                    node = rets[0]
                    continue
        break
    return None


def giveup_setup(kind):
    def setup(b):
        from vf import sym
        from vf.interp import Exc, Obj
        from specs import shared
        code = sym.const(sym.INT, 'status_code')
        b.code = code
        if kind == 'status':
            resp = Obj('response', status_code=code)
            resp._lenient = True
            exc = Exc('HTTPStatusError', attrs={'response': resp})
        else:
            exc = Exc('ConnectError')
        params = [a.arg for a in b.node.args.posonlyargs + b.node.args.args]
        b.bind(params[0] if params else 'e', exc)       # the predicate's only parameter, whatever it is called
        b.bind('httpx', Obj('httpx', HTTPStatusError=shared.ExcClass('HTTPStatusError'), HTTPError=shared.ExcClass('HTTPError'),
                            codes=Obj('codes', FORBIDDEN=403, NOT_FOUND=404, UNAUTHORIZED=401, TOO_MANY_REQUESTS=429, BAD_REQUEST=400)))
    return setup


def giveup_post(prop, where, kind):
    def post(res):
        from vf import sym
        b = res.builder
        for p in res.paths:
            if p.kind != 'return':
                res.oblige(p, f'{prop}.retry.{where}.giveup.total', z3.BoolVal(False))
                continue
            r = p.value
            gives_up = sym.lift(r, sym.BOOL).z if isinstance(r, (bool, sym.SV)) else z3.BoolVal(True)
            if kind == 'status':
                # retrying stops early ONLY for 403 (credentials rejected: repeating cannot help); 429, 408, 5xx and every
                # other answer stay inside the retry budget (C12: transient faults are masked)
                res.oblige(p, f'{prop}.retry.{where}.gives_up_only_on_403', z3.Implies(gives_up, b.code.z == 403))
            else:
                res.oblige(p, f'{prop}.retry.{where}.connection_errors_are_retried', z3.Not(gives_up))
    return post


def giveup_units(prop):
    from vf.unit import Unit
    out = []
    for relpath in BACKENDS:
        decos = backoff_decorators(relpath)
        names = {_giveup_name(relpath, d) for d in sorted(decos)} - {None}
        where = relpath.split('/')[-1]
        for nm in sorted(names):
            for kind in ('status', 'connection'):
                out.append(Unit(f'{prop}.giveup.{where}.{nm}[{kind}]', relpath, nm, giveup_setup(kind), giveup_post(prop, where, kind), prop=prop))
    return out
