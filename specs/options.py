"""C19 ingredients that are contract-shaped: utils.guess_type, the order of the merging steps in main()."""
from __future__ import annotations

import ast
import z3

from vf import sym, models, ops, source
from vf.sym import SV, INT, BOOL, REAL, STR, BYTES, Opt
from vf.interp import Model, Raised, Exc, Obj
from vf.unit import Unit, Lemma
from vf.ops import MethodModel
from specs.shared import UF, UTILS_PY

MAIN_PY = 'replicat/__main__.py'
ANY = models.opaque_type('PyValue')


def guess_setup(ty):
    def setup(b):
        b.sym('value', ty)

        def literal_eval(interp, st, args, kwargs):
            z = sym.lift(args[0], STR).z
            for exc in ('ValueError', 'SyntaxError'):
                bad = st.copy()
                yield bad, Raised(Exc(exc))
            st.emit('literal_eval', arg=args[0])
            yield st, SV(ANY, UF('literal_eval', STR, ANY)(z))

        b.bind('ast', Obj('ast', literal_eval=Model('literal_eval', literal_eval)))
    return setup


def guess_post(prop, shape):
    def post(res):
        b = res.builder
        v = b.st.lookup('value')
        for p in res.paths:
            # C19.apply_known.guess_type_pre / C19.coercion.same: total on every TOML/CLI/env value
            res.oblige(p, f'{prop}.guess_type[{shape}].never_raises', z3.BoolVal(p.kind == 'return'))
            if p.kind != 'return':
                continue
            if shape != 'str':
                res.oblige(p, f'{prop}.guess_type[{shape}].typed_values_pass_through', z3.BoolVal(p.value is v))
            else:
                le = p.events('literal_eval')
                if le:
                    res.oblige(p, f'{prop}.guess_type[str].result_is_the_literal', z3.BoolVal(isinstance(p.value, SV) and p.value.ty == ANY) if not (
                        isinstance(p.value, SV) and p.value.ty == ANY) else p.value.z == UF('literal_eval', STR, ANY)(sym.lift(le[-1].data['arg'], STR).z))
                else:
                    res.oblige(p, f'{prop}.guess_type[str].falls_back_to_the_text', z3.BoolVal(isinstance(p.value, SV) and p.value.ty == STR))
    return post


def main_order(prop):
    def build(add):
        fn = source.select(MAIN_PY, 'main')
        calls = []
        for n in ast.walk(fn):
            if isinstance(n, ast.Call):
                calls.append((n.lineno, n.col_offset, ast.unparse(n.func)))
            if isinstance(n, ast.Assign) and ast.unparse(n.targets[0]) == 'cfg.repository':
                calls.append((n.lineno, n.col_offset, 'cfg.repository='))
        calls.sort()
        names = [c[2] for c in calls]

        def before(a, b):
            return a in names and b in names and names.index(a) < len(names) - 1 - names[::-1].index(b)

        # C19.main.order: file < environment < -r for the common options; same for backend options; the merged
        # dictionary is installed as parser-level defaults before the command line is parsed again
        add('file_options_before_environment', [], z3.BoolVal(before('cfg.apply_known', 'cfg.apply_env')))
        add('environment_before_cli_repository', [], z3.BoolVal(before('cfg.apply_env', 'cfg.repository=')))
        add('backend_file_options_before_backend_environment', [], z3.BoolVal(before('backend_cfg.apply_known', 'backend_cfg.apply_env')))
        add('backend_loaded_after_repository_is_final', [], z3.BoolVal(before('cfg.repository=', 'utils.load_backend')))
        add('merged_defaults_installed_before_final_parse', [], z3.BoolVal(
            before('backend_cfg.apply_env', 'cli.make_main_parser') and before('cli.make_main_parser', 'main_parser.parse_known_args')))
        mk = [n for n in ast.walk(fn) if isinstance(n, ast.Call) and ast.unparse(n.func) == 'cli.make_main_parser']
        add('defaults_passed_to_main_parser', [], z3.BoolVal(bool(mk) and any(k.arg == 'defaults' and ast.unparse(k.value) == 'defaults' for k in mk[0].keywords)))
    return Lemma(f'{prop}.main_order', build, prop=prop)


# ------------------------------------------------------------------ cli.parser_for_backend: how backend options are declared
CLI_PY = 'replicat/utils/cli.py'
PARAM = models.opaque_type('Parameter')
KIND = models.opaque_type('ParamKind')
KIND.identity = True
ANY.identity = True


def pfb_setup(b):
    from vf.interp import IterSpec
    from vf.sym import Tup
    n = z3.Int('n_params')
    b.assume(n >= 0)
    pname = lambda k: UF('param_name', INT, STR)(k)
    parg = lambda k: UF('param_obj', INT, PARAM)(k)
    KW = sym.const(KIND, 'KEYWORD_ONLY')
    EMPTY = sym.const(ANY, 'Parameter.empty')
    PARAM.attrs = {
        'kind': ops.Property(lambda i, s, v: iter([(s, SV(KIND, UF('param_kind', PARAM, KIND)(v.z)))])),
        'default': ops.Property(lambda i, s, v: iter([(s, SV(ANY, UF('param_default', PARAM, ANY)(v.z)))])),
        'annotation': ops.Property(lambda i, s, v: iter([(s, SV(ANY, UF('param_annotation', PARAM, ANY)(v.z)))])),
        'KEYWORD_ONLY': KW, 'empty': EMPTY,
    }
    b.KW, b.EMPTY = KW, EMPTY

    def items(interp, st, args, kwargs):
        yield st, IterSpec(n, lambda k: (SV(STR, pname(k)), SV(PARAM, parg(k))))

    params = Obj('parameters', items=Model('items', items))
    b.bind('inspect', Obj('inspect', signature=Model('signature', lambda i, s, a, k: iter([(s, Obj('signature', parameters=params))]))))

    def add_argument(interp, st, args, kwargs):
        st.emit('add_argument', args=list(args), kwargs=dict(kwargs))
        yield st, None

    group = Obj('group', add_argument=Model('add_argument', add_argument))
    parser = Obj('parser', add_argument_group=Model('add_argument_group', lambda i, s, a, k: iter([(s, group)])))
    b.bind('argparse', Obj('argparse', ArgumentParser=Model('ArgumentParser', lambda i, s, a, k: iter([(s, parser)]))))
    cls = Obj('cls', display_name=sym.const(STR, 'display_name'))
    b.bind('cls', cls)
    b.sym('missing', ANY)
    b.bind('config', Obj('config', backend_env_option=Model('backend_env_option', lambda i, s, a, k: iter([(s, sym.fresh(STR, 'envname'))]))))
    gt = Model('guess_type', lambda i, s, a, k: iter([(s, sym.fresh(ANY, 'guessed'))]))
    b.bind('guess_type', gt)
    b.gt = gt
    b.bind('isinstance', Model('isinstance', lambda i, s, a, k: iter([(s, sym.fresh(BOOL, 'isinstance'))])))


def pfb_post(prop):
    def post(res):
        b = res.builder
        n = 0
        for p in res.body_paths('For#1'):
            evs = p.st.events
            start = [i for i, e in enumerate(evs) if e.kind == 'loop_body' and e.data.get('loop') == 'For#1'][-1]
            adds = [e for e in evs[start:] if e.kind == 'add_argument']
            arg = p.st.ghost['$start_For#1'].get('arg') if False else p.st.lookup('arg')
            is_kw = UF('param_kind', PARAM, KIND)(arg.z) == b.KW.z
            n += 1
            # one option per keyword-only constructor parameter, none for the others
            res.oblige(p, f'{prop}.parser_for_backend.one_option_per_keyword_only_parameter', z3.If(is_kw, z3.BoolVal(len(adds) == 1), z3.BoolVal(not adds)))
            for e in adds:
                # the text given on the command line is converted by the SAME function that converts the text of the
                # environment variable and of the configuration file (config.py uses utils.guess_type): one meaning per text
                res.oblige(p.pc_at(e), f'{prop}.parser_for_backend.cli_text_converted_like_env_and_file', z3.BoolVal(e.data['kwargs'].get('type') is b.gt))
                dflt = e.data['kwargs'].get('default')
                has_default = UF('param_default', PARAM, ANY)(arg.z) != b.EMPTY.z
                ok = isinstance(dflt, SV)
                res.oblige(p.pc_at(e), f'{prop}.parser_for_backend.default_is_the_constructor_default_or_missing', z3.BoolVal(ok) if not ok else z3.If(
                    has_default, sym.lift(dflt, ANY).z == UF('param_default', PARAM, ANY)(arg.z), sym.lift(dflt, ANY).z == b.st.lookup('missing').z))
        res.oblige([], f'{prop}.parser_for_backend.iterations_checked', z3.BoolVal(n >= 2))
    return post


def parser_for_backend_unit(prop):
    from vf.interp import LoopSpec
    t = lambda ctx: z3.BoolVal(True)
    return Unit(f'{prop}.parser_for_backend', CLI_PY, 'parser_for_backend', pfb_setup, pfb_post(prop),
                loops={'For#1': LoopSpec(t, modifies=['name', 'help', 'default'], name='For#1',
                                         types={'default': ANY, 'help': STR, 'name': STR})},
                local_types={'default': ANY}, prop=prop)


def units(prop):
    return [
        Unit(f'{prop}.guess_type[str]', UTILS_PY, 'guess_type', guess_setup(STR), guess_post(prop, 'str'), prop=prop),
        Unit(f'{prop}.guess_type[int]', UTILS_PY, 'guess_type', guess_setup(INT), guess_post(prop, 'int'), prop=prop),
        Unit(f'{prop}.guess_type[bool]', UTILS_PY, 'guess_type', guess_setup(BOOL), guess_post(prop, 'bool'), prop=prop),
        main_backend_unit(prop),
        parser_for_backend_unit(prop),
        apply_known_unit(prop),
        main_load_unit(prop),
        parse_repository_unit(prop),
        instantiate_backend_unit(prop),
    ] + cmd_handler_units(prop) + [main_run_unit(prop)] + read_config_units(prop)


# ------------------------------------------------------------------ config.Config.apply_known: the option table of the file
CONFIG_PY = 'replicat/utils/config.py'
# documented option -> (field it sets, converter applied to the file's value); README "Configuration file"
OPTION_TABLE = [
    ('repository', 'repository', 'parse_repository'), ('concurrent', 'concurrent', '_check_natural_number'),
    ('hide-progress', 'quiet', '_check_boolean'), ('cache-directory', 'cache_directory', 'Path'),
    ('password', 'password', 'str.encode'), ('password-file', 'password', '_read_bytes'),
    ('key', 'key', 'str.encode'), ('key-file', 'key', '_read_bytes'), ('log-level', 'log_level', '_convert_log_level'),
]
EXCLUSIVE = [('key', 'key-file'), ('password', 'password-file')]


def apply_known_setup(b):
    from vf.sym import Dict
    DC = sym.DictC(STR, ANY)
    mapping = b.ref('mapping', DC)
    b.mapping = mapping
    me = Obj('self')
    me._class_source = (CONFIG_PY, 'Config')        # popset / _validate_set: the real methods, inlined
    me._settable = ('repository', 'quiet', 'concurrent', 'cache_directory', 'password', 'key', 'log_level')
    b.bind('self', me)
    b.me = me
    has = lambda k: z3.Select(b.st.heap.read(DC, 'has', mapping.z), z3.StringVal(k))
    b.has0 = {k: has(k) for k, _, _ in OPTION_TABLE}
    b.has0['no-cache'] = has('no-cache')
    b.val0 = {k: z3.Select(b.st.heap.read(DC, 'val', mapping.z), z3.StringVal(k)) for k in list(b.has0)}
    b.has_arr0, b.val_arr0 = b.st.heap.read(DC, 'has', mapping.z), b.st.heap.read(DC, 'val', mapping.z)

    def conv(name):
        def m(interp, st, args, kwargs):
            # (a converter may also reject the value with ValueError: that path ends the call and carries no obligation)
            v = sym.lift(args[-1], ANY)
            st.emit('converted', name=name, arg=v)
            yield st, SV(ANY, UF('conv_' + name.replace('.', '_'), ANY, ANY)(v.z))
        return Model(name, m)

    b.conv = {}
    for _, _, c in OPTION_TABLE:
        if c not in b.conv:
            b.conv[c] = conv(c)
    for c, mdl in b.conv.items():
        if '.' not in c:
            b.bind(c, mdl)
    b.bind('str', Obj('str', encode=b.conv['str.encode']))

    def check_bool(interp, st, args, kwargs):
        v = args[0]
        if v is False:
            st.emit('no_cache_absent')
            yield st, False
            return
        r = SV(BOOL, UF('as_boolean', ANY, BOOL)(sym.lift(v, ANY).z))
        st.emit('checked_boolean', arg=v)
        yield st, r

    b.bind('_check_boolean', Model('_check_boolean', lambda i, s, a, k: (check_bool(i, s, a, k) if not (a and isinstance(a[0], SV) and False) else None)))
    b.hide = conv('_check_boolean')

    def excl(interp, st, args, kwargs):
        keys = tuple(args[1:])
        st.emit('exclusive_check', mapping=args[0], keys=keys)
        both = z3.And(*[b.has0[k] for k in keys]) if all(isinstance(k, str) and k in b.has0 for k in keys) else z3.BoolVal(False)
        for s, conflict in interp.branch(st, both):
            if conflict:
                yield s, Raised(Exc('InvalidConfig'))
            else:
                yield s, None

    b.bind('_check_mutually_exclusive', Model('_check_mutually_exclusive', excl))


def apply_known_post(prop):
    def post(res):
        b = res.builder
        DC = sym.DictC(STR, ANY)
        n_ret = 0
        for p in res.paths:
            evs = p.st.events
            ex = [e for e in evs if e.kind == 'exclusive_check']
            sets = [e for e in evs if e.kind == 'setattr']
            first_set = evs.index(sets[0]) if sets else len(evs)
            done = {e.data['keys'] for e in ex if evs.index(e) < first_set and e.data['mapping'] is b.st.lookup('mapping')}
            if sets or p.kind == 'return':
                # both "cannot be used together" pairs are checked on the caller's mapping before anything is applied
                res.oblige(p, f'{prop}.apply_known.exclusive_pairs_checked_first', z3.BoolVal(all(pair in done for pair in EXCLUSIVE)))
            if p.kind != 'return':
                continue
            n_ret += 1
            cj_present, cj_absent = [], []
            for key, field, cname in OPTION_TABLE:
                want = UF('conv_' + cname.replace('.', '_'), ANY, ANY)(b.val0[key])
                fsets = [e for e in sets if e.data['name'] == field]
                if key == 'hide-progress':
                    hit = z3.BoolVal(bool(fsets))
                elif field == 'cache_directory':
                    hit = z3.Or(*[sym.lift(e.data['value'], ANY).z == want for e in fsets if isinstance(e.data['value'], SV)]) if fsets else z3.BoolVal(False)
                else:
                    hit = (sym.lift(fsets[-1].data['value'], ANY).z == want) if fsets and isinstance(fsets[-1].data['value'], SV) else z3.BoolVal(False)
                # an option present in the file sets ITS field to ITS converter applied to the file's value
                cj_present.append(z3.Implies(b.has0[key], hit))
                alternatives = [k2 for k2, f2, _ in OPTION_TABLE if f2 == field and k2 != key]
                if not alternatives and field != 'cache_directory':
                    # ... and an absent option leaves its field alone
                    cj_absent.append(z3.Implies(z3.Not(b.has0[key]), z3.BoolVal(not fsets)))
            for a, c in EXCLUSIVE:
                field = [f for k, f, _ in OPTION_TABLE if k == a][0]
                cj_absent.append(z3.Implies(z3.And(z3.Not(b.has0[a]), z3.Not(b.has0[c])), z3.BoolVal(not [e for e in sets if e.data['name'] == field])))
            res.oblige(p, f'{prop}.apply_known.present_option_sets_its_field_through_its_converter', z3.And(*cj_present))
            res.oblige(p, f'{prop}.apply_known.absent_option_leaves_its_field', z3.And(*cj_absent))
            # no-cache (true) switches the cache off whatever cache-directory says; absent / false leaves it
            cd_sets = [e for e in sets if e.data['name'] == 'cache_directory']
            on = z3.And(b.has0['no-cache'], UF('as_boolean', ANY, BOOL)(b.val0['no-cache']))
            off_last = bool(cd_sets) and cd_sets[-1].data['value'] is None
            res.oblige(p, f'{prop}.apply_known.no_cache_switches_the_cache_off', z3.And(
                z3.Implies(on, z3.BoolVal(off_last)), z3.Implies(z3.Not(on), z3.BoolVal(not any(e.data['value'] is None for e in cd_sets)))))
            # what is returned: the mapping without the options that were consumed (the backend options stay for the backend config)
            r = p.value
            okr = isinstance(r, SV) and r.ty == sym.Dict(STR, ANY) and not z3.eq(r.z, b.mapping.z)
            res.oblige(p, f'{prop}.apply_known.returns_a_copy', z3.BoolVal(bool(okr)))
            if okr:
                h = p.st.heap
                k = z3.String('ak_k')
                known = z3.Or(*[k == z3.StringVal(x) for x in list(b.has0)])
                res.oblige(p, f'{prop}.apply_known.remaining_is_the_rest', z3.ForAll([k], z3.And(
                    z3.Implies(known, z3.Not(z3.Select(h.read(DC, 'has', r.z), k))),
                    z3.Implies(z3.Not(known), z3.And(z3.Select(h.read(DC, 'has', r.z), k) == z3.Select(b.has_arr0, k),
                                                    z3.Implies(z3.Select(b.has_arr0, k), z3.Select(h.read(DC, 'val', r.z), k) == z3.Select(b.val_arr0, k)))))))
                # the caller's mapping is not modified
                res.oblige(p, f'{prop}.apply_known.callers_mapping_untouched', z3.And(
                    h.read(DC, 'has', b.mapping.z) == b.has_arr0, h.read(DC, 'val', b.mapping.z) == b.val_arr0))
        res.oblige([], f'{prop}.apply_known.paths_checked', z3.BoolVal(n_ret >= 4))
    return post


def apply_known_unit(prop):
    return Unit(f'{prop}.config_apply_known', CONFIG_PY, 'Config.apply_known', apply_known_setup, apply_known_post(prop), prop=prop)


# ------------------------------------------------------------------ main(): loading the file options (what may be skipped silently)
def _assign_to(name):
    def pred(stmt):
        if not isinstance(stmt, ast.Assign):
            return False
        for t in stmt.targets:
            if isinstance(t, ast.Name) and t.id == name:
                return True
            if isinstance(t, ast.Tuple) and any(isinstance(e, ast.Name) and e.id == name for e in t.elts):
                return True
        return False
    return pred


PATHV = models.opaque_type('ConfigPath')
PATHV.identity = True
FILEOPTS = models.opaque_type('FileOptions')
REMAINING = models.opaque_type('RemainingOptions')


def main_load_setup(b):
    cf = sym.const(Opt(PATHV), 'configuration_file')
    default_path = sym.const(PATHV, 'DEFAULT_CONFIG_PATH')
    b.cf, b.default_path = cf, default_path
    args = Obj('args', configuration_file=cf, profile=sym.const(Opt(STR), 'profile'), verbose=sym.const(INT, 'verbose'),
               repository=sym.const(Opt(ANY), 'cli_repository'))
    args._settable = ()
    b.bind('args', args)
    b.args = args

    def read_config(interp, st, args_, kwargs):
        st.emit('read_config', args=list(args_), kwargs=dict(kwargs))
        bad = st.copy()
        bad.emit('read_config_missing')
        yield bad, Raised(Exc('FileNotFoundError'))
        bad2 = st.copy()
        bad2.emit('read_config_invalid')
        yield bad2, Raised(Exc('InvalidConfig'))
        yield st, sym.const(FILEOPTS, 'file_options')

    def apply_known(interp, st, args_, kwargs):
        st.emit('apply_known', arg=args_[0] if args_ else None)
        for cls in ('FileNotFoundError', 'ValueError', 'InvalidConfig'):     # a missing password/key file, a bad value, exclusive options
            bad = st.copy()
            bad.emit('apply_known_failed', cls=cls)
            yield bad, Raised(Exc(cls))
        yield st, sym.const(REMAINING, 'remaining')

    def apply_env(interp, st, args_, kwargs):
        st.emit('apply_env')
        yield st, None

    cfg = Obj('cfg', apply_known=Model('apply_known', apply_known), apply_env=Model('apply_env', apply_env), log_level=sym.const(INT, 'log_level'))
    cfg._settable = ('repository',)
    b.cfgobj = cfg
    b.bind('config', Obj('config', Config=Model('Config', lambda i, s, a, k: iter([(s, cfg)])), read_config=Model('read_config', read_config),
                         DEFAULT_CONFIG_PATH=default_path))
    b.bind('logger', Obj('logger', **{n: Model(n, lambda i, s, a, k: iter([(s, None)])) for n in ('debug', 'info', 'warning', 'error')}))
    b.bind('_configure_logging', Model('_configure_logging', lambda i, s, a, k: iter([(s, None)])))
    b.bind('vars', Model('vars', lambda i, s, a, k: iter([(s, None)])))
    from specs import shared
    b.bind('exceptions', shared.EXCEPTIONS)


def main_load_post(prop):
    def post(res):
        b = res.builder
        cf = b.cf
        is_default = z3.And(z3.Not(cf.ty.is_none(cf.z)), cf.ty.val(cf.z) == b.default_path.z)
        n = {'skip': 0, 'fail': 0, 'ok': 0}
        for p in res.paths:
            kinds = [e.kind for e in p.st.events]
            rc, ak = p.events('read_config'), p.events('apply_known')
            sig = ','.join(k for k in kinds if k in ('read_config_missing', 'read_config_invalid', 'apply_known', 'apply_known_failed', 'apply_env')) + '->' + p.kind
            # the file is consulted iff a configuration file is in effect, with the selected profile
            res.oblige(p, f'{prop}.main_load.file_read_iff_configured[{sig}]', z3.If(cf.ty.is_none(cf.z), z3.BoolVal(not rc), z3.BoolVal(len(rc) == 1)))
            for e in rc:
                a, kw = e.data['args'], e.data['kwargs']
                res.oblige(p.pc_at(e), f'{prop}.main_load.reads_the_selected_profile_of_that_file', z3.BoolVal(
                    len(a) == 1 and a[0] is b.args.get('configuration_file') and kw.get('profile') is b.args.get('profile') and len(kw) == 1))
            if 'read_config_missing' in kinds:
                # ONLY a missing file at the default location is skipped silently; an explicitly named missing file fails
                if p.kind != 'raise':
                    n['skip'] += 1
                    res.oblige(p, f'{prop}.main_load.only_a_missing_DEFAULT_file_is_skipped[{sig}]', is_default)
                    res.oblige(p, f'{prop}.main_load.skipped_file_contributes_nothing[{sig}]', z3.BoolVal(not ak))
                else:
                    res.oblige(p, f'{prop}.main_load.explicit_missing_file_fails[{sig}]', z3.Not(is_default))
            if 'read_config_invalid' in kinds:
                res.oblige(p, f'{prop}.main_load.invalid_file_fails[{sig}]', z3.BoolVal(p.kind == 'raise'))
            if 'apply_known_failed' in kinds:
                n['fail'] += 1
                # an option of the file that cannot be applied (missing password/key file, bad value, exclusive pair) is an
                # error of the run - never "the configuration file does not exist"
                res.oblige(p, f'{prop}.main_load.unusable_file_option_fails_the_run[{sig}]', z3.BoolVal(p.kind == 'raise'))
            if rc and not any(k in kinds for k in ('read_config_missing', 'read_config_invalid')):
                okk = len(ak) == 1 and isinstance(ak[0].data['arg'], SV) and ak[0].data['arg'].ty == FILEOPTS
                res.oblige(p, f'{prop}.main_load.file_options_are_applied[{sig}]', z3.BoolVal(okk))
            if p.kind != 'raise':
                n['ok'] += 1
                # environment after file (so it wins), once
                res.oblige(p, f'{prop}.main_load.environment_applied_after_the_file[{sig}]', z3.BoolVal(
                    kinds.count('apply_env') == 1 and (not ak or kinds.index('apply_known') < kinds.index('apply_env'))))
            if p.kind != 'raise':
                # -r/--repository of the command line wins over file and environment: it is stored into cfg after the environment was
                # applied, iff it was given, and it is the value of the command line
                sets = [e for e in p.st.events if e.kind == 'setattr' and e.data['obj'] == 'cfg' and e.data['name'] == 'repository']
                rep = b.args.get('repository')
                given = z3.Not(rep.ty.is_none(rep.z))
                res.oblige(p, f'{prop}.main_load.cli_repository_overrides_after_the_environment[{sig}]', z3.And(
                    given == z3.BoolVal(len(sets) == 1),
                    z3.BoolVal(all('apply_env' in kinds and kinds.index('apply_env') < kinds.index('setattr') for _ in sets)),
                    z3.BoolVal(all(isinstance(e.data['value'], SV) and (e.data['value'] is rep or z3.eq(e.data['value'].z, rep.ty.val(rep.z)) or z3.eq(e.data['value'].z, rep.z)) for e in sets))))
        res.oblige([], f'{prop}.main_load.paths_checked', z3.BoolVal(n['skip'] >= 1 and n['fail'] >= 3 and n['ok'] >= 2))
    return post


def main_load_unit(prop):
    return Unit(f'{prop}.main_load_file_options', MAIN_PY, 'main', main_load_setup, main_load_post(prop),
                stmt=(_assign_to('cfg'), _assign_to('backend_type')), prop=prop)


# ------------------------------------------------------------------ main(): backend options, merged defaults, final parse
BTYPE = models.opaque_type('BackendType')
DEFAULTS = models.opaque_type('DefaultsDict')


def main_backend_setup(b):
    remaining = sym.const(REMAINING, 'remaining_file_options')
    b.remaining = remaining
    b.bind('remaining_file_options', remaining)
    args = Obj('args', configuration_file=sym.const(Opt(PATHV), 'configuration_file'), action=sym.const(STR, 'action'))
    args._lenient = True
    b.args = args
    b.bind('args', args)
    rep = (sym.const(STR, 'repo_backend'), sym.const(STR, 'repo_connection'))
    b.rep = rep
    defaults = Obj('defaults')
    b.defaults = defaults

    def upd(interp, st, a, k):
        st.emit('defaults_update', arg=a[0] if a else None)
        yield st, None

    defaults._attrs['update'] = Model('update', upd)
    cfg_dict = Obj('cfg.dict()')

    def cfgdict(interp, st, a, k):
        st.emit('cfg_dict')
        yield st, defaults

    cfg = Obj('cfg', repository=rep, dict=Model('cfg.dict', cfgdict))
    b.bind('cfg', cfg)
    bdict = Obj('backend_cfg.dict()')
    b.bdict = bdict

    def b_apply_known(interp, st, a, k):
        st.emit('backend_apply_known', arg=a[0] if a else None)
        for cls in ('FileNotFoundError', 'ValueError', 'InvalidConfig'):
            bad = st.copy()
            bad.emit('backend_apply_known_failed')
            yield bad, Raised(Exc(cls))
        yield st, sym.fresh(BOOL, 'has_unknown_file_options')

    def b_apply_env(interp, st, a, k):
        st.emit('backend_apply_env')
        yield st, None

    def b_dict(interp, st, a, k):
        st.emit('backend_dict')
        yield st, bdict

    backend_cfg = Obj('backend_cfg', apply_known=Model('apply_known', b_apply_known), apply_env=Model('apply_env', b_apply_env),
                      dict=Model('dict', b_dict))

    def load_backend(interp, st, a, k):
        from vf.interp import StarArg
        flat = []
        for x in a:
            flat += list(x.v) if isinstance(x, StarArg) and isinstance(x.v, tuple) else [x]
        st.emit('load_backend', args=flat)
        bad = st.copy()
        yield bad, Raised(Exc('ReplicatError'))
        yield st, (sym.const(BTYPE, 'backend_type'), sym.const(STR, 'connection_string'))

    b.bind('utils', Obj('utils', load_backend=Model('load_backend', load_backend)))

    def config_for_backend(interp, st, a, k):
        st.emit('config_for_backend', arg=a[0] if a else None, kwargs=dict(k))
        yield st, Model('backend_config_type', lambda i2, s2, a2, k2: iter([(s2, backend_cfg)]))

    b.bind('config', Obj('config', config_for_backend=Model('config_for_backend', config_for_backend)))
    b.bind('logger', Obj('logger', **{n: Model(n, lambda i, s, a, k: iter([(s, None)])) for n in ('debug', 'info', 'warning', 'error')}))
    b.bind('vars', Model('vars', lambda i, s, a, k: iter([(s, None)])))

    def parse_known_args(interp, st, a, k):
        st.emit('final_parse', args=list(a), kwargs=dict(k))
        yield st, (None, sym.fresh(BOOL, 'unknown_args'))

    main_parser = Obj('main_parser', parse_known_args=Model('parse_known_args', parse_known_args))

    def make_main_parser(interp, st, a, k):
        st.emit('make_main_parser', args=list(a), kwargs=dict(k))
        yield st, main_parser

    def parser_for_backend(interp, st, a, k):
        st.emit('parser_for_backend', arg=a[0] if a else None)
        yield st, Obj('backend_parser')

    b.bind('cli', Obj('cli', initial_parser=Obj('initial_parser'), common_options_parser=Obj('common_options_parser'),
                      make_main_parser=Model('make_main_parser', make_main_parser), parser_for_backend=Model('parser_for_backend', parser_for_backend)))
    from specs import shared
    b.bind('exceptions', shared.EXCEPTIONS)


def main_backend_post(prop):
    def post(res):
        b = res.builder
        n = 0
        for p in res.paths:
            kinds = [e.kind for e in p.st.events]
            if p.kind == 'raise':
                continue
            n += 1
            first = lambda k: kinds.index(k) if k in kinds else -1
            lb = p.events('load_backend')
            # the backend is chosen from the FINAL repository value (file < environment < -r, settled in the first part of main)
            res.oblige(p, f'{prop}.main_backend.backend_loaded_from_the_final_repository', z3.BoolVal(
                len(lb) == 1 and len(lb[0].data['args']) == 2 and all(x is y for x, y in zip(lb[0].data['args'], b.rep))
                and not [e for e in p.st.events if e.kind == 'setattr']))
            ak = p.events('backend_apply_known')
            # what the common options did not recognise in the file goes to the backend options, then the environment (which wins)
            res.oblige(p, f'{prop}.main_backend.backend_file_options_before_backend_environment', z3.BoolVal(
                len(ak) == 1 and ak[0].data['arg'] is b.remaining and kinds.count('backend_apply_env') == 1
                and first('backend_apply_known') < first('backend_apply_env')))
            mk = p.events('make_main_parser')
            up = p.events('defaults_update')
            # parser-level defaults = common options overlaid with the backend options, read after both environments were applied
            res.oblige(p, f'{prop}.main_backend.merged_defaults_installed_before_final_parse', z3.BoolVal(
                len(mk) == 1 and mk[0].data['kwargs'].get('defaults') is b.defaults and len(up) == 1 and up[0].data['arg'] is b.bdict
                and first('backend_apply_env') < first('backend_dict') < first('defaults_update') < first('make_main_parser') < first('final_parse')
                and first('cfg_dict') < first('defaults_update')))
            fp = p.events('final_parse')
            res.oblige(p, f'{prop}.main_backend.command_line_parsed_last_into_the_same_namespace', z3.BoolVal(
                len(fp) == 1 and fp[0].data['kwargs'].get('namespace') is b.args))
            pf = p.events('parser_for_backend')
            cf = p.events('config_for_backend')
            res.oblige(p, f'{prop}.main_backend.backend_options_are_those_of_the_loaded_backend', z3.BoolVal(
                len(pf) == 1 and len(cf) == 1 and isinstance(pf[0].data['arg'], SV) and isinstance(cf[0].data['arg'], SV)
                and z3.eq(pf[0].data['arg'].z, z3.Const('backend_type', BTYPE.sort())) and z3.eq(cf[0].data['arg'].z, z3.Const('backend_type', BTYPE.sort()))))
        res.oblige([], f'{prop}.main_backend.paths_checked', z3.BoolVal(n >= 1))
    return post


def main_backend_unit(prop):
    return Unit(f'{prop}.main_backend_defaults', MAIN_PY, 'main', main_backend_setup, main_backend_post(prop),
                stmt=(_assign_to('backend_type'), _assign_to('custom_settings')), prop=prop)


# ------------------------------------------------------------------ utils.parse_repository: what "-r <backend>:<connection string>" means
def parse_repo_setup(b):
    b.sym('uri', STR)
    b.bind('logger', Obj('logger', **{n: Model(n, lambda i, s, a, k: iter([(s, None)])) for n in ('debug', 'info', 'warning', 'error')}))


def parse_repo_post(prop):
    def post(res):
        b = res.builder
        uri = b.st.lookup('uri').z
        colon = z3.StringVal(':')
        isid = lambda z: UF('isidentifier', STR, BOOL)(z)
        n = 0
        for p in res.paths:
            if p.kind == 'return':
                n += 1
                v = p.value
                ok = isinstance(v, tuple) and len(v) == 2
                nm, cs = (sym.lift(v[0], STR).z, sym.lift(v[1], STR).z) if ok else (None, None)
                # no colon: a local path; otherwise backend name = text before the FIRST colon, connection string = all the rest
                res.oblige(p, f'{prop}.parse_repository.split_at_first_colon', z3.BoolVal(False) if not ok else z3.If(
                    z3.Contains(uri, colon),
                    z3.And(uri == z3.Concat(nm, colon, cs), z3.Not(z3.Contains(nm, colon)), isid(nm)),
                    z3.And(nm == z3.StringVal('local'), cs == uri)))
            elif p.kind == 'raise':
                # rejected only when the text before the first colon is not a module name
                head = z3.String('pr_head')
                tail = z3.String('pr_tail')
                res.oblige(p, f'{prop}.parse_repository.rejects_only_bad_backend_names', z3.And(
                    z3.BoolVal(p.value.cls == 'ValueError'), z3.Contains(uri, colon),
                    z3.ForAll([head, tail], z3.Implies(z3.And(uri == z3.Concat(head, colon, tail), z3.Not(z3.Contains(head, colon))), z3.Not(isid(head))))))
        res.oblige([], f'{prop}.parse_repository.paths_checked', z3.BoolVal(n >= 2))
    return post


def parse_repository_unit(prop):
    u = Unit(f'{prop}.parse_repository', UTILS_PY, 'parse_repository', parse_repo_setup, parse_repo_post(prop), prop=prop)
    u.native = ('parse_repository',)
    return u


# ------------------------------------------------------------------ __main__._instantiate_backend: which options reach the backend constructor
def inst_backend_setup(b):
    from vf.interp import IterSpec
    n = z3.Int('n_ctor_params')
    b.assume(n >= 0)
    KW = sym.const(KIND, 'KEYWORD_ONLY')
    PARAM.attrs = {'kind': ops.Property(lambda i, s, v: iter([(s, SV(KIND, UF('param_kind', PARAM, KIND)(v.z)))])), 'KEYWORD_ONLY': KW}
    b.KW = KW
    params = Obj('parameters', items=Model('items', lambda i, s, a, k: iter([(s, IterSpec(n, lambda kk: (SV(STR, UF('param_name', INT, STR)(kk)), SV(PARAM, UF('param_obj', INT, PARAM)(kk)))))])))
    b.bind('inspect', Obj('inspect', signature=Model('signature', lambda i, s, a, k: iter([(s, Obj('signature', parameters=params))]))))
    try:
        marker_name = [t.id for st_ in source.load_module(MAIN_PY)[0].body if isinstance(st_, ast.Assign) and isinstance(st_.value, ast.Call)
                       and isinstance(st_.value.func, ast.Name) and st_.value.func.id == 'object' for t in st_.targets if isinstance(t, ast.Name)]
    except Exception:
        marker_name = []
    MARK = sym.const(Opt(ANY), 'missing_marker')       # the module's "no source supplied it" marker: a value like any other, told apart by identity
    b.assume(z3.Not(Opt(ANY).is_none(MARK.z)))
    b.MARK = MARK
    for nm in marker_name:
        b.bind(nm, MARK)
    NS = models.opaque_type('Namespace', pytype='dict')

    def ns_getitem(interp, st, v, idx):
        r = SV(Opt(ANY), UF('ns_value', NS, STR, Opt(ANY))(v.z, sym.lift(idx, STR).z))
        st.emit('namespace_read', key=idx, value=r)
        yield st, r

    NS.getitem = ns_getitem
    b.sym('namespace', NS)
    b.sym('connection_string', STR)

    def ctor(interp, st, args, kwargs):
        st.emit('backend_ctor', args=list(args), kwargs=dict(kwargs))
        yield st, Obj('backend')

    b.bind('backend_type', Model('backend_type', ctor))


def inst_backend_post(prop):
    def post(res):
        b = res.builder
        n = 0
        for p in res.body_paths('For#1'):
            evs = p.st.events
            start = [i for i, e in enumerate(evs) if e.kind == 'loop_body' and e.data.get('loop') == 'For#1'][-1]
            it = evs[start:]
            arg = p.st.lookup(_loop_vars(res, 'For#1', ('name', 'arg'))[1])
            name = p.st.lookup(_loop_vars(res, 'For#1', ('name', 'arg'))[0])
            is_kw = UF('param_kind', PARAM, KIND)(arg.z) == b.KW.z
            stores = [e for e in it if e.kind in ('dict_store', 'py_dict_store', 'setitem')]
            reads = [e for e in it if e.kind == 'namespace_read']
            n += 1
            # a keyword-only constructor parameter is passed on with the value the merged options hold for it - ALSO when that
            # value is None (the text `none` is a value) - and left out only when no source supplied it (the missing marker)
            passed = [e for e in it if e.kind == 'dict_store']
            if reads:
                v = reads[0].data['value'].z
                missing = v == b.MARK.z
                res.oblige(p, f'{prop}.instantiate_backend.value_passed_unless_missing', z3.And(
                    z3.Implies(z3.And(is_kw, missing), z3.BoolVal(not passed)),
                    z3.Implies(z3.And(is_kw, z3.Not(missing)), z3.BoolVal(len(passed) == 1) if len(passed) != 1 else z3.And(
                        sym.lift(passed[0].data['key'], STR).z == name.z, sym.lift(passed[0].data['value'], Opt(ANY)).z == v))))
            else:
                res.oblige(p, f'{prop}.instantiate_backend.only_keyword_only_parameters', z3.And(z3.Not(is_kw), z3.BoolVal(not passed)))
        res.oblige([], f'{prop}.instantiate_backend.iterations_checked', z3.BoolVal(n >= 3))
    return post


def _loop_vars(res, loop, defaults):
    node = getattr(res.interp, 'loop_nodes', {}).get(loop)
    t = getattr(node, 'target', None)
    if isinstance(t, ast.Tuple) and all(isinstance(e, ast.Name) for e in t.elts) and len(t.elts) == len(defaults):
        return tuple(e.id for e in t.elts)
    return defaults


def instantiate_backend_unit(prop):
    from vf.interp import LoopSpec
    t = lambda ctx: z3.BoolVal(True)
    return Unit(f'{prop}.instantiate_backend', MAIN_PY, '_instantiate_backend', inst_backend_setup, inst_backend_post(prop),
                loops={'For#1': LoopSpec(t, modifies=['value'] + [('heap', sym.DictC(STR, Opt(ANY)), f) for f in ('has', 'val', 'n', 'order')],
                                         name='For#1', types={'value': Opt(ANY)})},
                local_types={'kwonly': sym.Dict(STR, Opt(ANY))}, prop=prop)


# ------------------------------------------------------------------ _cmd_handler: the effective options reach the command that was asked for
_REPO_METHODS = ('init', 'benchmark', 'upload_objects', 'download_objects', 'list_objects', 'delete_objects', 'unlock', 'add_key', 'snapshot',
                 'restore', 'delete_snapshots', 'clean', 'list_files', 'list_snapshots', 'close')
_ARG_NAMES = ('concurrent', 'quiet', 'cache_directory', 'password', 'key', 'key_output_file', 'name', 'path', 'rate_limit', 'object', 'new_password',
              'note', 'snapshot', 'columns')
_REGEX_ARGS = ('object_regex', 'snapshot_regex', 'file_regex')
_BOOL_ARGS = ('yes', 'no_header', 'shared', 'clone', 'skip_existing')


class _RX:
    """expected value: the combined form of a regex argument (or None when it was not given)"""

    def __init__(self, arg):
        self.arg = arg


def _cmd_expected(action, A, B, settings):
    """the documented meaning of each command line action, written from the README (not from the code): which repository operation runs,
    with which of the effective options.  A: non-boolean argument markers, B: the boolean flags of this case."""
    unlock = ('unlock', {'password': A['password'], 'key': A['key']})
    if action == 'init':
        return [('init', {'password': A['password'], 'settings': settings, 'key_output_path': A['key_output_file']})]
    if action == 'benchmark':
        return [('benchmark', {0: A['name'], 1: settings})]
    if action == 'upload-objects':
        return [('upload_objects', {0: A['path'], 'rate_limit': A['rate_limit'], 'skip_existing': B['skip_existing']})]
    if action == 'download-objects':
        return [('download_objects', {'path': A['path'], 'object_regex': _RX('object_regex'), 'rate_limit': A['rate_limit'], 'skip_existing': B['skip_existing']})]
    if action == 'list-objects':
        return [('list_objects', {'object_regex': _RX('object_regex')})]
    if action == 'delete-objects':
        return [('delete_objects', {0: A['object'], 'confirm': not B['yes']})]
    if action == 'add-key':
        shared = B['shared'] or B['clone']
        # a shared key and a clone need the CURRENT key (repository unlocked first); a clone keeps the current password
        return ([unlock] if shared else []) + [('add_key', {'password': A['password'] if B['clone'] else A['new_password'], 'settings': settings,
                                                             'key_output_path': A['key_output_file'], 'shared': shared})]
    if action == 'snapshot':
        return [unlock, ('snapshot', {'paths': A['path'], 'note': A['note'], 'rate_limit': A['rate_limit']})]
    if action == 'restore':
        return [unlock, ('restore', {'path': A['path'], 'snapshot_regex': _RX('snapshot_regex'), 'file_regex': _RX('file_regex'), 'rate_limit': A['rate_limit']})]
    if action == 'delete':
        return [unlock, ('delete_snapshots', {0: A['snapshot'], 'confirm': not B['yes']})]
    if action == 'clean':
        return [unlock, ('clean', {})]
    if action in ('lf', 'list-files'):
        return [unlock, ('list_files', {'snapshot_regex': _RX('snapshot_regex'), 'file_regex': _RX('file_regex'), 'header': not B['no_header'], 'columns': A['columns']})]
    if action in ('ls', 'list-snapshots'):
        return [unlock, ('list_snapshots', {'snapshot_regex': _RX('snapshot_regex'), 'header': not B['no_header'], 'columns': A['columns']})]
    raise KeyError(action)


_CMD_BOOLS = {'upload-objects': ('skip_existing',), 'download-objects': ('skip_existing',), 'delete-objects': ('yes',), 'add-key': ('shared', 'clone'),
              'delete': ('yes',), 'lf': ('no_header',), 'list-files': ('no_header',), 'ls': ('no_header',), 'list-snapshots': ('no_header',)}
_CMD_REGEX = {'download-objects', 'list-objects', 'restore', 'lf', 'list-files', 'ls', 'list-snapshots'}
_CMD_ACTIONS = ('init', 'benchmark', 'upload-objects', 'download-objects', 'list-objects', 'delete-objects', 'add-key', 'snapshot', 'restore', 'delete',
                'clean', 'lf', 'list-files', 'ls', 'list-snapshots')


def _cmd_cases():
    import itertools
    for action in _CMD_ACTIONS:
        flags = _CMD_BOOLS.get(action, ())
        for combo in itertools.product((False, True), repeat=len(flags)):
            for rx in ((False, True) if action in _CMD_REGEX else (False,)):
                B = {f: False for f in _BOOL_ARGS}
                B.update(dict(zip(flags, combo)))
                label = action + ''.join(f',{f}={int(v)}' for f, v in zip(flags, combo)) + (',regex' if rx else '')
                yield label, action, B, rx


def cmd_handler_setup(action, B, rx):
    def setup(b):
        A = {n: Obj(f'<args.{n}>') for n in _ARG_NAMES}
        R = {n: (Obj(f'<args.{n}>') if rx else None) for n in _REGEX_ARGS}
        args = Obj('args', action=action, **A, **R, **B)
        settings = Obj('<settings>')
        b.A, b.R, b.B, b.settings_marker, b.args = A, R, B, settings, args
        b.bind('args', args)
        b.bind('settings', settings)
        b.bind('backend_type', Obj('<backend_type>'))
        b.bind('connection_string', Obj('<connection_string>'))
        b.backend_type, b.connection_string = b.st.lookup('backend_type'), b.st.lookup('connection_string')
        b.vars_marker = Obj('<vars(args)>')
        b.backend_marker = Obj('<backend>')
        b.combined = {}

        def vars_(interp, st, a, kw):
            st.emit('vars', of=a[0] if a else None)
            yield st, b.vars_marker

        def inst(interp, st, a, kw):
            st.emit('instantiate_backend', args=list(a), kwargs=dict(kw))
            yield st, b.backend_marker

        def combine(interp, st, a, kw):
            st.emit('combine', args=list(a))
            m = Obj(f'<combined {getattr(a[0], "_name", a[0])}>')
            b.combined[id(m)] = a[0] if a else None
            yield st, m

        def method(name):
            def m(interp, st, a, kw):
                st.emit('repo_call', name=name, args=list(a), kwargs=dict(kw))
                yield st, None
            return Model(name, m)

        repo = Obj('<repository>', **{n: method(n) for n in _REPO_METHODS})

        def ctor(interp, st, a, kw):
            st.emit('repo_ctor', args=list(a), kwargs=dict(kw))
            yield st, repo

        b.bind('vars', Model('vars', vars_))
        b.bind('_instantiate_backend', Model('_instantiate_backend', inst))
        b.bind('utils', Obj('utils', combine_regexes=Model('combine_regexes', combine)))
        b.bind('Repository', Model('Repository', ctor))
    return setup


def _param_names(method):
    fn = source.select('replicat/repository.py', f'Repository.{method}')
    a = fn.args
    return [x.arg for x in a.posonlyargs + a.args][1:], [x.arg for x in a.kwonlyargs]


def cmd_handler_post(prop, label, action):
    def post(res):
        b = res.builder

        def same(got, want):
            if isinstance(want, _RX):
                given = b.R[want.arg]
                if given is None:
                    return got is None
                return isinstance(got, Obj) and b.combined.get(id(got)) is given
            if isinstance(want, bool):
                return isinstance(got, bool) and got is want
            return got is want

        for p in res.paths:
            if p.kind not in ('return', 'normal'):
                res.oblige(p, f'{prop}.cmd_handler[{label}].runs_the_command', z3.BoolVal(False))
                continue
            ctor = p.events('repo_ctor')
            inst = p.events('instantiate_backend')
            ok = (len(ctor) == 1 and len(inst) == 1 and ctor[0].data['args'] == [b.backend_marker] if ctor and len(ctor[0].data['args']) == 1 else False)
            if ok:
                kw = ctor[0].data['kwargs']
                ok = (set(kw) == {'concurrent', 'quiet', 'cache_directory'} and kw['concurrent'] is b.A['concurrent'] and kw['quiet'] is b.A['quiet']
                      and kw['cache_directory'] is b.A['cache_directory'])
                ia = inst[0].data['args']
                ok = ok and len(ia) == 3 and ia[0] is b.backend_type and ia[1] is b.connection_string and ia[2] is b.vars_marker and not inst[0].data['kwargs']
                v = p.events('vars')
                ok = ok and len(v) >= 1 and all(e.data['of'] is b.args for e in v)
            # the repository runs with the EFFECTIVE concurrency, verbosity and cache directory, on the backend built from the effective
            # backend options
            res.oblige(p, f'{prop}.cmd_handler[{label}].repository_built_from_the_effective_options', z3.BoolVal(bool(ok)))
            want = _cmd_expected(action, b.A, b.B, b.settings_marker) + [('close', {})]
            got = p.events('repo_call')
            good = len(got) == len(want)
            if good:
                for e, (name, kwargs) in zip(got, want):
                    if e.data['name'] != name:
                        good = False
                        break
                    pos, kwonly = _param_names(name)
                    if len(e.data['args']) > len(pos):
                        good = False
                        break
                    # bind the call to the real signature: positional parameters by position (whatever they are called), keyword-only by name
                    actual = dict(enumerate(e.data['args']))
                    for k, v in e.data['kwargs'].items():
                        key = pos.index(k) if k in pos else k
                        if key in actual:
                            good = False
                        actual[key] = v
                    if not good:
                        break
                    if set(actual) != set(kwargs) or not all(same(actual[k], kwargs[k]) for k in kwargs):
                        good = False
                        break
            # exactly the documented operation(s), in order, each with the effective option values (nothing swapped, dropped or defaulted),
            # then the repository is closed
            res.oblige(p, f'{prop}.cmd_handler[{label}].documented_operation_with_the_effective_arguments', z3.BoolVal(bool(good)),
                       meta={'got': [(e.data['name'], sorted(e.data['kwargs'])) for e in got]})
    return post


def cmd_handler_units(prop, only=None):
    return [Unit(f'{prop}.cmd_handler[{label}]', MAIN_PY, '_cmd_handler', cmd_handler_setup(action, B, rx), cmd_handler_post(prop, label, action), prop=prop)
            for label, action, B, rx in _cmd_cases() if only is None or action in only]


# ------------------------------------------------------------------ main(): a failed command is a failed process
def _runs_command(stmt):
    return any(isinstance(n, ast.Name) and n.id == '_cmd_handler' for n in ast.walk(stmt))


def main_run_setup(b):
    from specs import shared
    b.bind('exceptions', shared.EXCEPTIONS)
    for name in ('backend_type', 'connection_string', 'args', 'custom_settings'):
        b.bind(name, Obj(f'<{name}>'))
    b.bind('logger', Obj('logger', **{n: Model(n, lambda i, s, a, k: iter([(s, None)])) for n in ('debug', 'info', 'warning', 'error', 'exception', 'critical')}))
    coro = Obj('<coroutine _cmd_handler>')
    b.bind('_cmd_handler', Model('_cmd_handler', lambda i, s, a, k: iter([(s, coro)])))

    def run(interp, st, args, kwargs):
        if not args or args[0] is not coro:
            raise sym.Unsupported('asyncio.run of something else')
        for cls in ('ReplicatError', 'DecryptionError', 'OSError', 'AnyError'):
            bad = st.copy()
            bad.emit('command_failed', exc=cls)
            yield bad, Raised(Exc(cls))
        st.emit('command_succeeded')
        yield st, None

    b.bind('asyncio', Obj('asyncio', run=Model('asyncio.run', run)))

    def exit_with(default):
        def m(interp, st, args, kwargs):
            status = kwargs.get('status', args[0] if args else default)
            st.emit('process_exit', status=status)
            yield st, Raised(Exc('SystemExit'))
        return m

    parser = Obj('main_parser', exit=Model('parser.exit', exit_with(0)), prog='replicat',
                 error=Model('parser.error', lambda i, s, a, k: (s.emit('process_exit', status=2), iter([(s, Raised(Exc('SystemExit')))]))[1]))
    parser._lenient = True
    b.bind('main_parser', parser)
    b.bind('sys', Obj('sys', exit=Model('sys.exit', exit_with(0)), stderr=Obj('stderr'), stdout=Obj('stdout')))
    b.bind('print', Model('print', lambda i, s, a, k: iter([(s, None)])))


def main_run_post(prop):
    def post(res):
        n = 0
        for p in res.paths:
            failed = p.events('command_failed')
            exits = p.events('process_exit')
            if failed:
                n += 1
                status = exits[-1].data['status'] if exits else None
                nonzero = bool(exits) and not (status is None or status == 0 or status is False)
                if exits and not isinstance(status, (int, str, type(None), bool)):
                    raise sym.Unsupported('exit status is not a literal')
                # a command that failed (corrupted object, wrong password, backend error) never ends as a successful process: the
                # exception reaches the interpreter (traceback, status 1) or the process exits with a non-zero status
                ok = p.kind == 'raise' and (p.value.cls != 'SystemExit' or nonzero)
                res.oblige(p, f'{prop}.main_run.failed_command_is_a_failed_process', z3.BoolVal(bool(ok)),
                           meta={'exception': failed[0].data['exc'], 'exit_status': repr(status)})
        res.oblige([], f'{prop}.main_run.failure_paths_checked', z3.BoolVal(n >= 3))
    return post


def main_run_unit(prop):
    return Unit(f'{prop}.main_run', MAIN_PY, 'main', main_run_setup, main_run_post(prop), stmt=_runs_command, prop=prop)


# ------------------------------------------------------------------ read_config: the file source (profile over the default section)
def read_config_setup(variant):
    def setup(b):
        from specs import shared
        b.bind('exceptions', shared.EXCEPTIONS)
        mk = b.st.new_py
        b.bind('path', Obj('<config path>'))
        b.bind('profile', {'defaults_only': None, 'profile': 'prof', 'unknown_profile': 'nope', 'invalid_toml': None, 'unreadable': None}[variant])
        b.file_text = sym.const(STR, 'file_text')
        b.D = {'a': Obj('<default a>'), 'b': Obj('<default b>')}
        b.P = {'b': Obj('<profile b>'), 'c': Obj('<profile c>')}
        section_name = source.module_assign(CONFIG_PY, 'DEFAULTS_SECTION').value
        b.section_name = section_name

        def read_text(interp, st, args, kwargs):
            st.emit('read_text', args=list(args), kwargs=dict(kwargs))
            if variant == 'unreadable':
                yield st, Raised(Exc('FileNotFoundError'))
            else:
                yield st, b.file_text

        def path_ctor(interp, st, args, kwargs):
            st.emit('Path', arg=args[0] if args else None)
            yield st, Obj('<Path(path)>', read_text=Model('read_text', read_text))

        def loads(interp, st, args, kwargs):
            st.emit('toml_loads', text=args[0] if args else None)
            if variant == 'invalid_toml':
                yield st, Raised(Exc('TOMLDecodeError'))
            else:
                mk2 = st.new_py
                yield st, mk2('dict', {section_name: mk2('dict', dict(b.D)), 'prof': mk2('dict', dict(b.P)), 'other': mk2('dict', {'a': Obj('<other a>')})})

        b.bind('Path', Model('Path', path_ctor))
        from vf.interp import ExcClass
        b.bind('compat', Obj('compat', toml=Obj('toml', loads=Model('toml.loads', loads), TOMLDecodeError=ExcClass('TOMLDecodeError'))))
    return setup


def read_config_post(prop, variant):
    def post(res):
        b = res.builder
        for p in res.paths:
            rt = p.events('read_text')
            enc = rt[0].data['kwargs'].get('encoding', rt[0].data['args'][1] if rt and len(rt[0].data['args']) > 1 else None) if rt else None
            okenc = len(rt) == 1 and isinstance(enc, str) and enc.lower().replace('_', '-') in ('utf-8', 'utf8')
            # the file means the same bytes -> text in every process locale (the CLI and the environment do): decoded as UTF-8, explicitly
            res.oblige(p, f'{prop}.read_config[{variant}].file_is_decoded_as_utf8_whatever_the_locale', z3.BoolVal(bool(okenc)))
            if variant == 'unreadable':
                res.oblige(p, f'{prop}.read_config[{variant}].missing_file_is_reported', z3.BoolVal(p.kind == 'raise' and p.value.cls == 'FileNotFoundError'))
                continue
            tl = p.events('toml_loads')
            oktext = len(tl) == 1 and tl[0].data['text'] is not None
            # top-level options of the file form the default section (parsed under a synthetic header)
            res.oblige(p, f'{prop}.read_config[{variant}].top_level_options_are_the_default_section', z3.BoolVal(False) if not oktext else
                       sym.lift(tl[0].data['text'], STR).z == z3.Concat(z3.StringVal(f'[{b.section_name}]\n'), b.file_text.z))
            if variant == 'invalid_toml':
                res.oblige(p, f'{prop}.read_config[{variant}].invalid_file_is_an_invalid_config_error', z3.BoolVal(p.kind == 'raise' and p.value.cls == 'InvalidConfig'))
            elif variant == 'unknown_profile':
                res.oblige(p, f'{prop}.read_config[{variant}].unknown_profile_is_a_lookup_error', z3.BoolVal(p.kind == 'raise' and p.value.cls == 'LookupError'))
            else:
                d = res.interp.deref(p.st, ops.resolve(p.st, p.value)) if p.kind == 'return' else None
                want = dict(b.D) if variant == 'defaults_only' else {'a': b.D['a'], 'b': b.P['b'], 'c': b.P['c']}
                ok = isinstance(d, dict) and set(d) == set(want) and all(d[k] is want[k] for k in want)
                # the selected profile over the default section, key by key; other profiles contribute nothing
                res.oblige(p, f'{prop}.read_config[{variant}].profile_over_default_section', z3.BoolVal(bool(ok)))
    return post


def read_config_units(prop):
    return [Unit(f'{prop}.read_config[{v}]', CONFIG_PY, 'read_config', read_config_setup(v), read_config_post(prop, v), prop=prop)
            for v in ('defaults_only', 'profile', 'unknown_profile', 'invalid_toml', 'unreadable')]
