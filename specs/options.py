"""C19 ingredients that are contract-shaped: utils.guess_type, the order of the merging steps in main()."""
from __future__ import annotations

import ast
import z3

from vf import sym, models, ops, source
from vf.sym import SV, INT, BOOL, REAL, STR, BYTES, Opt
from vf.interp import Model, Raised, Exc, Obj
from vf.unit import Unit, Lemma
from vf.ops import MethodModel
from specs.shared import UF, UTILS_PY

MAIN_PY = 'replicat/__main__.py'
ANY = models.opaque_type('PyValue')


def guess_setup(ty):
    def setup(b):
        b.sym('value', ty)

        def literal_eval(interp, st, args, kwargs):
            z = sym.lift(args[0], STR).z
            for exc in ('ValueError', 'SyntaxError'):
                bad = st.copy()
                yield bad, Raised(Exc(exc))
            st.emit('literal_eval', arg=args[0])
            yield st, SV(ANY, UF('literal_eval', STR, ANY)(z))

        b.bind('ast', Obj('ast', literal_eval=Model('literal_eval', literal_eval)))
    return setup


def guess_post(prop, shape):
    def post(res):
        b = res.builder
        v = b.st.lookup('value')
        for p in res.paths:
            # C19.apply_known.guess_type_pre / C19.coercion.same: total on every TOML/CLI/env value
            res.oblige(p, f'{prop}.guess_type[{shape}].never_raises', z3.BoolVal(p.kind == 'return'))
            if p.kind != 'return':
                continue
            if shape != 'str':
                res.oblige(p, f'{prop}.guess_type[{shape}].typed_values_pass_through', z3.BoolVal(p.value is v))
            else:
                le = p.events('literal_eval')
                if le:
                    res.oblige(p, f'{prop}.guess_type[str].result_is_the_literal', z3.BoolVal(isinstance(p.value, SV) and p.value.ty == ANY) if not (
                        isinstance(p.value, SV) and p.value.ty == ANY) else p.value.z == UF('literal_eval', STR, ANY)(sym.lift(le[-1].data['arg'], STR).z))
                else:
                    res.oblige(p, f'{prop}.guess_type[str].falls_back_to_the_text', z3.BoolVal(isinstance(p.value, SV) and p.value.ty == STR))
    return post


def main_order(prop):
    def build(add):
        fn = source.select(MAIN_PY, 'main')
        calls = []
        for n in ast.walk(fn):
            if isinstance(n, ast.Call):
                calls.append((n.lineno, n.col_offset, ast.unparse(n.func)))
            if isinstance(n, ast.Assign) and ast.unparse(n.targets[0]) == 'cfg.repository':
                calls.append((n.lineno, n.col_offset, 'cfg.repository='))
        calls.sort()
        names = [c[2] for c in calls]

        def before(a, b):
            return a in names and b in names and names.index(a) < len(names) - 1 - names[::-1].index(b)

        # C19.main.order: file < environment < -r for the common options; same for backend options; the merged
        # dictionary is installed as parser-level defaults before the command line is parsed again
        add('file_options_before_environment', [], z3.BoolVal(before('cfg.apply_known', 'cfg.apply_env')))
        add('environment_before_cli_repository', [], z3.BoolVal(before('cfg.apply_env', 'cfg.repository=')))
        add('backend_file_options_before_backend_environment', [], z3.BoolVal(before('backend_cfg.apply_known', 'backend_cfg.apply_env')))
        add('backend_loaded_after_repository_is_final', [], z3.BoolVal(before('cfg.repository=', 'utils.load_backend')))
        add('merged_defaults_installed_before_final_parse', [], z3.BoolVal(
            before('backend_cfg.apply_env', 'cli.make_main_parser') and before('cli.make_main_parser', 'main_parser.parse_known_args')))
        mk = [n for n in ast.walk(fn) if isinstance(n, ast.Call) and ast.unparse(n.func) == 'cli.make_main_parser']
        add('defaults_passed_to_main_parser', [], z3.BoolVal(bool(mk) and any(k.arg == 'defaults' and ast.unparse(k.value) == 'defaults' for k in mk[0].keywords)))
    return Lemma(f'{prop}.main_order', build, prop=prop)


# ------------------------------------------------------------------ cli.parser_for_backend: how backend options are declared
CLI_PY = 'replicat/utils/cli.py'
PARAM = models.opaque_type('Parameter')
KIND = models.opaque_type('ParamKind')
KIND.identity = True
ANY.identity = True


def pfb_setup(b):
    from vf.interp import IterSpec
    from vf.sym import Tup
    n = z3.Int('n_params')
    b.assume(n >= 0)
    pname = lambda k: UF('param_name', INT, STR)(k)
    parg = lambda k: UF('param_obj', INT, PARAM)(k)
    KW = sym.const(KIND, 'KEYWORD_ONLY')
    EMPTY = sym.const(ANY, 'Parameter.empty')
    PARAM.attrs = {
        'kind': ops.Property(lambda i, s, v: iter([(s, SV(KIND, UF('param_kind', PARAM, KIND)(v.z)))])),
        'default': ops.Property(lambda i, s, v: iter([(s, SV(ANY, UF('param_default', PARAM, ANY)(v.z)))])),
        'annotation': ops.Property(lambda i, s, v: iter([(s, SV(ANY, UF('param_annotation', PARAM, ANY)(v.z)))])),
        'KEYWORD_ONLY': KW, 'empty': EMPTY,
    }
    b.KW, b.EMPTY = KW, EMPTY

    def items(interp, st, args, kwargs):
        yield st, IterSpec(n, lambda k: (SV(STR, pname(k)), SV(PARAM, parg(k))))

    params = Obj('parameters', items=Model('items', items))
    b.bind('inspect', Obj('inspect', signature=Model('signature', lambda i, s, a, k: iter([(s, Obj('signature', parameters=params))]))))

    def add_argument(interp, st, args, kwargs):
        st.emit('add_argument', args=list(args), kwargs=dict(kwargs))
        yield st, None

    group = Obj('group', add_argument=Model('add_argument', add_argument))
    parser = Obj('parser', add_argument_group=Model('add_argument_group', lambda i, s, a, k: iter([(s, group)])))
    b.bind('argparse', Obj('argparse', ArgumentParser=Model('ArgumentParser', lambda i, s, a, k: iter([(s, parser)]))))
    cls = Obj('cls', display_name=sym.const(STR, 'display_name'))
    b.bind('cls', cls)
    b.sym('missing', ANY)
    b.bind('config', Obj('config', backend_env_option=Model('backend_env_option', lambda i, s, a, k: iter([(s, sym.fresh(STR, 'envname'))]))))
    gt = Model('guess_type', lambda i, s, a, k: iter([(s, sym.fresh(ANY, 'guessed'))]))
    b.bind('guess_type', gt)
    b.gt = gt
    b.bind('isinstance', Model('isinstance', lambda i, s, a, k: iter([(s, sym.fresh(BOOL, 'isinstance'))])))


def pfb_post(prop):
    def post(res):
        b = res.builder
        n = 0
        for p in res.body_paths('For#1'):
            evs = p.st.events
            start = [i for i, e in enumerate(evs) if e.kind == 'loop_body' and e.data.get('loop') == 'For#1'][-1]
            adds = [e for e in evs[start:] if e.kind == 'add_argument']
            arg = p.st.ghost['$start_For#1'].get('arg') if False else p.st.lookup('arg')
            is_kw = UF('param_kind', PARAM, KIND)(arg.z) == b.KW.z
            n += 1
            # one option per keyword-only constructor parameter, none for the others
            res.oblige(p, f'{prop}.parser_for_backend.one_option_per_keyword_only_parameter', z3.If(is_kw, z3.BoolVal(len(adds) == 1), z3.BoolVal(not adds)))
            for e in adds:
                # the text given on the command line is converted by the SAME function that converts the text of the
                # environment variable and of the configuration file (config.py uses utils.guess_type): one meaning per text
                res.oblige(p.pc_at(e), f'{prop}.parser_for_backend.cli_text_converted_like_env_and_file', z3.BoolVal(e.data['kwargs'].get('type') is b.gt))
                dflt = e.data['kwargs'].get('default')
                has_default = UF('param_default', PARAM, ANY)(arg.z) != b.EMPTY.z
                ok = isinstance(dflt, SV)
                res.oblige(p.pc_at(e), f'{prop}.parser_for_backend.default_is_the_constructor_default_or_missing', z3.BoolVal(ok) if not ok else z3.If(
                    has_default, sym.lift(dflt, ANY).z == UF('param_default', PARAM, ANY)(arg.z), sym.lift(dflt, ANY).z == b.st.lookup('missing').z))
        res.oblige([], f'{prop}.parser_for_backend.iterations_checked', z3.BoolVal(n >= 2))
    return post


def parser_for_backend_unit(prop):
    from vf.interp import LoopSpec
    t = lambda ctx: z3.BoolVal(True)
    return Unit(f'{prop}.parser_for_backend', CLI_PY, 'parser_for_backend', pfb_setup, pfb_post(prop),
                loops={'For#1': LoopSpec(t, modifies=['name', 'help', 'default'], name='For#1',
                                         types={'default': ANY, 'help': STR, 'name': STR})},
                local_types={'default': ANY}, prop=prop)


def units(prop):
    return [
        Unit(f'{prop}.guess_type[str]', UTILS_PY, 'guess_type', guess_setup(STR), guess_post(prop, 'str'), prop=prop),
        Unit(f'{prop}.guess_type[int]', UTILS_PY, 'guess_type', guess_setup(INT), guess_post(prop, 'int'), prop=prop),
        Unit(f'{prop}.guess_type[bool]', UTILS_PY, 'guess_type', guess_setup(BOOL), guess_post(prop, 'bool'), prop=prop),
        main_order(prop),
        parser_for_backend_unit(prop),
    ]
