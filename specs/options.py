"""C19 ingredients that are contract-shaped: utils.guess_type, the order of the merging steps in main()."""
from __future__ import annotations

import ast
import z3

from vf import sym, models, ops, source
from vf.sym import SV, INT, BOOL, REAL, STR, BYTES, Opt
from vf.interp import Model, Raised, Exc, Obj
from vf.unit import Unit, Lemma
from vf.ops import MethodModel
from specs.shared import UF, UTILS_PY

MAIN_PY = 'replicat/__main__.py'
ANY = models.opaque_type('PyValue')


def guess_setup(ty):
    def setup(b):
        b.sym('value', ty)

        def literal_eval(interp, st, args, kwargs):
            z = sym.lift(args[0], STR).z
            for exc in ('ValueError', 'SyntaxError'):
                bad = st.copy()
                yield bad, Raised(Exc(exc))
            st.emit('literal_eval', arg=args[0])
            yield st, SV(ANY, UF('literal_eval', STR, ANY)(z))

        b.bind('ast', Obj('ast', literal_eval=Model('literal_eval', literal_eval)))
    return setup


def guess_post(prop, shape):
    def post(res):
        b = res.builder
        v = b.st.lookup('value')
        for p in res.paths:
            # C19.apply_known.guess_type_pre / C19.coercion.same: total on every TOML/CLI/env value
            res.oblige(p, f'{prop}.guess_type[{shape}].never_raises', z3.BoolVal(p.kind == 'return'))
            if p.kind != 'return':
                continue
            if shape != 'str':
                res.oblige(p, f'{prop}.guess_type[{shape}].typed_values_pass_through', z3.BoolVal(p.value is v))
            else:
                le = p.events('literal_eval')
                if le:
                    res.oblige(p, f'{prop}.guess_type[str].result_is_the_literal', z3.BoolVal(isinstance(p.value, SV) and p.value.ty == ANY) if not (
                        isinstance(p.value, SV) and p.value.ty == ANY) else p.value.z == UF('literal_eval', STR, ANY)(sym.lift(le[-1].data['arg'], STR).z))
                else:
                    res.oblige(p, f'{prop}.guess_type[str].falls_back_to_the_text', z3.BoolVal(isinstance(p.value, SV) and p.value.ty == STR))
    return post


def main_order(prop):
    def build(add):
        fn = source.select(MAIN_PY, 'main')
        calls = []
        for n in ast.walk(fn):
            if isinstance(n, ast.Call):
                calls.append((n.lineno, n.col_offset, ast.unparse(n.func)))
            if isinstance(n, ast.Assign) and ast.unparse(n.targets[0]) == 'cfg.repository':
                calls.append((n.lineno, n.col_offset, 'cfg.repository='))
        calls.sort()
        names = [c[2] for c in calls]

        def before(a, b):
            return a in names and b in names and names.index(a) < len(names) - 1 - names[::-1].index(b)

        # C19.main.order: file < environment < -r for the common options; same for backend options; the merged
        # dictionary is installed as parser-level defaults before the command line is parsed again
        add('file_options_before_environment', [], z3.BoolVal(before('cfg.apply_known', 'cfg.apply_env')))
        add('environment_before_cli_repository', [], z3.BoolVal(before('cfg.apply_env', 'cfg.repository=')))
        add('backend_file_options_before_backend_environment', [], z3.BoolVal(before('backend_cfg.apply_known', 'backend_cfg.apply_env')))
        add('backend_loaded_after_repository_is_final', [], z3.BoolVal(before('cfg.repository=', 'utils.load_backend')))
        add('merged_defaults_installed_before_final_parse', [], z3.BoolVal(
            before('backend_cfg.apply_env', 'cli.make_main_parser') and before('cli.make_main_parser', 'main_parser.parse_known_args')))
        mk = [n for n in ast.walk(fn) if isinstance(n, ast.Call) and ast.unparse(n.func) == 'cli.make_main_parser']
        add('defaults_passed_to_main_parser', [], z3.BoolVal(bool(mk) and any(k.arg == 'defaults' and ast.unparse(k.value) == 'defaults' for k in mk[0].keywords)))
    return Lemma(f'{prop}.main_order', build, prop=prop)


def units(prop):
    return [
        Unit(f'{prop}.guess_type[str]', UTILS_PY, 'guess_type', guess_setup(STR), guess_post(prop, 'str'), prop=prop),
        Unit(f'{prop}.guess_type[int]', UTILS_PY, 'guess_type', guess_setup(INT), guess_post(prop, 'int'), prop=prop),
        Unit(f'{prop}.guess_type[bool]', UTILS_PY, 'guess_type', guess_setup(BOOL), guess_post(prop, 'bool'), prop=prop),
        main_order(prop),
    ]
