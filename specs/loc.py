"""Storage-name functions: get_/parse_ chunk & snapshot location, digest -> (name, tag).
Used by C05, C07, C08, C14, C15."""
from __future__ import annotations

import z3

from vf import sym, models, ops
from vf.sym import SV, INT, BOOL, STR, BYTES, Opt
from vf.interp import Model, Raised, Exc, Obj, NTup
from vf.unit import Unit, Lemma
from specs import shared
from specs.shared import REPO_PY, UF, MAC, H

S = z3.StringVal


def hexish(z):
    """what the location functions rely on about hex strings: no '/' and no '-'"""
    return z3.And(z3.Not(z3.Contains(z, S('/'))), z3.Not(z3.Contains(z, S('-'))))


def sub(z, a, ln):
    return z3.SubString(z, a, ln)


def chunk_path_spec(name, tag):
    """documented scheme: data/<tag[0:2]>/<tag[2:4]>/<tag[4:]>-<name>"""
    n = z3.Length(tag)
    return z3.Concat(S('data/'), sub(tag, 0, 2), S('/'), sub(tag, 2, 2), S('/'),
                     sub(tag, 4, n - 4), S('-'), name)


def snapshot_path_spec(name, tag):
    """documented scheme: snapshots/<tag[0:2]>/<tag[2:]>-<name>"""
    n = z3.Length(tag)
    return z3.Concat(S('snapshots/'), sub(tag, 0, 2), S('/'), sub(tag, 2, n - 2), S('-'), name)


def ntup_model(names):
    def fn(interp, st, args, kwargs):
        vals = [kwargs[n] for n in names] if kwargs else list(args)
        yield st, shared.make_ntup(names, vals)
    return Model('LocationParts', fn)


def base_setup(b, props=False):
    me = shared.repo_self(b, props=props, cache=False)
    b.bind('LocationParts', ntup_model(('name', 'tag')))
    return me


# ---- get_chunk_location / get_snapshot_location ------------------------------
def get_setup(min_tag):
    def setup(b):
        base_setup(b)
        name, tag = b.sym('name', STR), b.sym('tag', STR)
        b.assume(hexish(name.z))
        b.assume(hexish(tag.z))
        b.assume(z3.Length(tag.z) >= min_tag)      # weakest length: shorter tags make join drop a component
        b.name, b.tag = name, tag
    return setup


def get_post(spec_fn, prop, label, prefix_attr):
    def post(res):
        b = res.builder
        for p in res.paths:
            if p.kind != 'return':
                res.oblige(p, f'{prop}.{label}.total', z3.BoolVal(False))
                continue
            res.oblige(p, f'{prop}.{label}.path_scheme', sym.lift(p.value, STR).z == spec_fn(b.name.z, b.tag.z))
            # the documented scheme lies under the prefix (lemma on the spec term; with
            # path_scheme this gives C08.confined for every location replicat builds)
            res.oblige([], f'{prop}.{label}.scheme_under_prefix',
                       z3.PrefixOf(S(b.st.lookup('self')._attrs[prefix_attr]), spec_fn(b.name.z, b.tag.z)))
    return post


# ---- parse_*_location (inverse on the documented scheme) ----------------------
def parse_setup(spec_fn, min_tag):
    def setup(b):
        base_setup(b)
        name = sym.const(STR, 'name')
        tag = sym.const(STR, 'tag')
        b.assume(hexish(name.z))
        b.assume(hexish(tag.z))
        b.assume(z3.Length(tag.z) >= min_tag)
        b.bind('location', SV(STR, spec_fn(name.z, tag.z)))
        b.name, b.tag = name, tag
    return setup


def parse_post(prop, label):
    def post(res):
        b = res.builder
        for p in res.paths:
            sig = p.kind + (':' + p.value.cls if p.kind == 'raise' else '')
            if p.kind != 'return':
                # no exceptional path is feasible for well-formed locations
                res.oblige(p, f'{prop}.{label}.no_exception[{sig}]', z3.BoolVal(False))
                continue
            r = p.value
            res.oblige(p, f'{prop}.{label}.inverse_name', sym.lift(r[0], STR).z == b.name.z)
            res.oblige(p, f'{prop}.{label}.inverse_tag', sym.lift(r[1], STR).z == b.tag.z)
    return post


def loc_units(prop):
    return [
        Unit(f'{prop}.get_chunk_location', REPO_PY, 'Repository.get_chunk_location', get_setup(3),
             get_post(chunk_path_spec, prop, 'chunk', 'CHUNK_PREFIX'), prop=prop),
        Unit(f'{prop}.get_snapshot_location', REPO_PY, 'Repository.get_snapshot_location', get_setup(1),
             get_post(snapshot_path_spec, prop, 'snapshot', 'SNAPSHOT_PREFIX'), prop=prop),
        Unit(f'{prop}.parse_chunk_location', REPO_PY, 'Repository.parse_chunk_location',
             parse_setup(chunk_path_spec, 3), parse_post(prop, 'parse_chunk'), prop=prop),
        Unit(f'{prop}.parse_snapshot_location', REPO_PY, 'Repository.parse_snapshot_location',
             parse_setup(snapshot_path_spec, 1), parse_post(prop, 'parse_snapshot'), prop=prop),
    ]


# ---- digest -> (name, tag) ----------------------------------------------------
def parts_setup(b):
    me = base_setup(b, props=True)
    b.sym('digest', BYTES)
    b.me = me


def hexf(z):
    return UF('hex', BYTES, STR)(z)


def chunk_parts_post(prop):
    def post(res):
        b = res.builder
        d = b.st.lookup('digest').z
        for p in res.paths:
            if p.kind != 'return':
                res.oblige(p, f'{prop}.chunk_parts.total', z3.BoolVal(False))
                continue
            view = shared.PropsView(p.st, b.me.props)
            name, tag = sym.lift(p.value[0], STR).z, sym.lift(p.value[1], STR).z
            res.oblige(p, f'{prop}.chunk_parts.name', name == z3.If(view.encrypted, hexf(view.mac(d)), hexf(d)))
            res.oblige(p, f'{prop}.chunk_parts.tag', tag == z3.If(view.encrypted, hexf(view.mac(view.mac(d))), hexf(d)))
            # C05: in an encrypted repository the plain digest never becomes (part of) a name
            res.oblige(p, f'{prop}.chunk_parts.no_plain_digest_when_encrypted',
                       z3.Implies(view.encrypted, z3.And(name == hexf(view.mac(d)), tag == hexf(view.mac(view.mac(d))))))
    return post


def snapshot_parts_post(prop):
    def post(res):
        b = res.builder
        d = b.st.lookup('digest').z
        for p in res.paths:
            if p.kind != 'return':
                res.oblige(p, f'{prop}.snapshot_parts.total', z3.BoolVal(False))
                continue
            view = shared.PropsView(p.st, b.me.props)
            name, tag = sym.lift(p.value[0], STR).z, sym.lift(p.value[1], STR).z
            res.oblige(p, f'{prop}.snapshot_parts.name', name == hexf(d))
            res.oblige(p, f'{prop}.snapshot_parts.tag', tag == z3.If(view.encrypted, hexf(view.mac(d)), hexf(d)))
    return post


def parts_units(prop):
    return [
        Unit(f'{prop}.chunk_digest_to_location_parts', REPO_PY, 'Repository._chunk_digest_to_location_parts',
             parts_setup, chunk_parts_post(prop), prop=prop),
        Unit(f'{prop}.snapshot_digest_to_location_parts', REPO_PY, 'Repository._snapshot_digest_to_location_parts',
             parts_setup, snapshot_parts_post(prop), prop=prop),
    ]


def chunk_loc_setup(b):
    """_chunk_digest_to_location = get_chunk_location o _chunk_digest_to_location_parts (callee contracts)"""
    me = base_setup(b, props=True)
    b.me = me
    d = b.sym('digest', BYTES)

    def parts(interp, st, args, kwargs):
        view = shared.PropsView(st, me.props)
        z = sym.lift(args[0], BYTES).z
        name = z3.If(view.encrypted, hexf(view.mac(z)), hexf(z))
        tag = z3.If(view.encrypted, hexf(view.mac(view.mac(z))), hexf(z))
        yield st, shared.make_ntup(('name', 'tag'), (SV(STR, name), SV(STR, tag)))

    def getloc(interp, st, args, kwargs):
        st.emit('get_chunk_location', name=kwargs['name'], tag=kwargs['tag'])
        yield st, SV(STR, chunk_path_spec(sym.lift(kwargs['name'], STR).z, sym.lift(kwargs['tag'], STR).z))

    me._attrs['_chunk_digest_to_location_parts'] = Model('parts', parts)
    me._attrs['get_chunk_location'] = Model('get_chunk_location', getloc)


def locspec(view, d):
    name = z3.If(view.encrypted, hexf(view.mac(d)), hexf(d))
    tag = z3.If(view.encrypted, hexf(view.mac(view.mac(d))), hexf(d))
    return chunk_path_spec(name, tag)


def chunk_loc_post(prop):
    def post(res):
        b = res.builder
        d = b.st.lookup('digest').z
        for p in res.paths:
            if p.kind != 'return':
                res.oblige(p, f'{prop}.chunk_loc.total', z3.BoolVal(False))
                continue
            view = shared.PropsView(p.st, b.me.props)
            # C07.loc.pure: the location is the spec function of (mac_params, digest) only
            res.oblige(p, f'{prop}.chunk_loc.is_locspec', sym.lift(p.value, STR).z == locspec(view, d))
    return post


def chunk_loc_unit(prop):
    return Unit(f'{prop}.chunk_digest_to_location', REPO_PY, 'Repository._chunk_digest_to_location',
                chunk_loc_setup, chunk_loc_post(prop), prop=prop)
