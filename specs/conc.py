"""C09: connection-slot accounting and lock discipline (the contract-shaped part of scheduling independence)."""
from __future__ import annotations

import z3

from vf import sym, models, ops, source
from vf.sym import SV, INT, BOOL, STR, BYTES, Opt, Ref
from vf.interp import Model, Raised, Exc, Obj, LoopSpec
from vf.unit import Unit, Lemma
from vf.ops import CM, MethodModel
from specs import shared, restore, snapshot
from specs.shared import REPO_PY, UF

SLOTQ = models.opaque_type('SlotQueue')


def slot_env(b):
    me = Obj('self')
    b.bind('self', me)
    b.me = me

    def get(interp, st, args, kwargs):
        s = sym.fresh(INT, 'slot')
        st.emit('slot_get', slot=s)
        st.ghost['slots_held'] = st.ghost.get('slots_held', 0) + 1
        yield st, s

    def put_nowait(interp, st, args, kwargs):
        st.emit('slot_put', slot=args[-1], via_loop=bool(st.ghost.get('via_loop')))
        st.ghost['slots_held'] = st.ghost.get('slots_held', 0) - 1
        yield st, None

    me._attrs['_slots'] = Obj('slots', get=Model('get', get), put_nowait=Model('put_nowait', put_nowait))
    def call_soon_threadsafe(interp, st, args, kwargs):
        st.ghost['via_loop'] = True
        for s2, v in interp.call(st, args[0], list(args[1:]), {}):
            s2.ghost['via_loop'] = False
            yield s2, v

    b.bind('loop', Obj('loop', call_soon_threadsafe=Model('call_soon_threadsafe', call_soon_threadsafe)))

    class Fut:
        def __init__(self, v):
            self.v = v

        def vf_getattr(self, interp, st, name):
            if name == 'result':
                yield st, Model('result', lambda i, s, a, k: iter([(s, self.v)]))
            else:
                raise sym.Unsupported(name)

    b.bind('asyncio', Obj('asyncio', run_coroutine_threadsafe=Model('run_coroutine_threadsafe', lambda i, s, a, k: iter([(s, Fut(a[0]))]))))


def slot_post(prop, label):
    def post(res):
        n = 0
        for p in res.paths:
            gets, puts = p.events('slot_get'), p.events('slot_put')
            sig = ('body_raised' if p.events('body_raised') else 'body_ok') + '->' + p.kind
            if gets:
                n += 1
                # C09.slots.restored: the slot taken is put back on every exit path (normal, exception in the body)
                ok = len(gets) == 1 and len(puts) == 1
                res.oblige(p, f'{prop}.{label}.slot_returned_on_every_exit[{sig}]', z3.BoolVal(ok) if not ok else
                           sym.lift(puts[0].data['slot'], INT).z == gets[0].data['slot'].z)
                if label == 'acquire_slot_threadsafe' and ok:
                    # asyncio queues are not thread-safe: a worker thread must hand the slot back THROUGH the loop
                    res.oblige(p, f'{prop}.{label}.slot_returned_through_the_event_loop[{sig}]', z3.BoolVal(bool(puts[0].data['via_loop'])))
                ys = p.events('yield')
                res.oblige(p, f'{prop}.{label}.body_runs_while_holding_the_slot[{sig}]', z3.BoolVal(
                    len(ys) == 1 and p.st.events.index(gets[0]) < p.st.events.index(ys[0]) < p.st.events.index(puts[0])) if ok else z3.BoolVal(False))
        res.oblige([], f'{prop}.{label}.paths_checked', z3.BoolVal(n >= 2))
    return post


WRAPPERS = ['_exists', '_download', '_upload_data', '_delete', '_clean', '_close']


def wrapper_setup(threadsafe):
    def setup(b):
        me = Obj('self')
        b.bind('self', me)
        b.sym('location', STR)
        b.sym('data', BYTES)
        b.bind('executor', None)
        b.bind('loop', Obj('loop'))
        me._attrs['backend'] = Obj('backend', **{n: Obj('backend.' + n) for n in ('exists', 'download', 'upload', 'delete', 'clean', 'close')})
        cm = restore.slot_cm()
        me._attrs['_acquire_slot'] = Model('_acquire_slot', lambda i, s, a, k: iter([(s, cm)]))
        me._attrs['_acquire_slot_threadsafe'] = Model('_acquire_slot_threadsafe', lambda i, s, a, k: iter([(s, cm)]))

        def run(interp, st, args, kwargs):
            bad = st.copy()
            bad.emit('backend_call_failed', func=args[0])
            yield bad, Raised(Exc('AnyError'))
            st.emit('backend_call', func=args[0], args=list(args[1:]), slots=st.ghost.get('slots_held', 0))
            yield st, sym.fresh(models.opaque_type('Result'), 'result')

        me._attrs['_maybe_run_in_executor'] = Model('_maybe_run_in_executor', run)
        me._attrs['_maybe_run_coroutine_threadsafe'] = Model('_maybe_run_coroutine_threadsafe', run)
    return setup


def wrapper_post(prop, name):
    def post(res):
        n = 0
        for p in res.paths:
            for e in p.events('backend_call'):
                n += 1
                # C09.slots.held_at_transfer
                res.oblige(p.pc_at(e), f'{prop}.{name}.backend_call_holds_a_slot', z3.BoolVal(e.data['slots'] >= 1))
                res.oblige(p.pc_at(e), f'{prop}.{name}.calls_the_matching_backend_method', z3.BoolVal(
                    e.data['func']._name == 'backend.' + name.strip('_').replace('_threadsafe', '').replace('upload_data', 'upload')))
            res.oblige(p, f'{prop}.{name}.slot_released[{p.kind}]', z3.BoolVal(p.st.ghost.get('slots_held', 0) == 0))
        res.oblige([], f'{prop}.{name}.calls_checked', z3.BoolVal(n == 1))
    return post


def c09_download_chunk_post(prop):
    def post(res):
        n = 0
        for p in res.all_paths():
            bad = [nt for nt in p.notes if nt[0] == 'unguarded']
            n += 1
            # C09.restore.guarded + atomic_completion: every access to the per-file pending-digest sets and every
            # mutation of files_digests / files_metadata happens while glock is held; in particular the emptiness
            # test that decides completion is evaluated in the same critical section as the removal and the pop
            res.oblige(p, f'{prop}.download_chunk.shared_bookkeeping_only_under_glock', z3.BoolVal(not bad),
                       meta={'unguarded': [str(x) for x in bad][:6]})
            for e in p.events('download_stream'):
                res.oblige(p.pc_at(e), f'{prop}.download_chunk.download_holds_a_slot', z3.BoolVal(e.data['slots'] >= 1))
            res.oblige(p, f'{prop}.download_chunk.locks_and_slots_released[{p.kind}]', z3.BoolVal(
                not p.st.locks_held and p.st.ghost.get('slots_held', 0) == 0))
        # one critical section per file: remove, test, pop
        for p in res.body_paths('finish_loop'):
            kinds = [e.kind for e in p.st.events if e.kind in ('acquire', 'release', 'dict_del', 'restore_metadata', 'truncate_path')]
            k = kinds[kinds.index('acquire'):] if 'acquire' in kinds else []
            res.oblige(p, f'{prop}.download_chunk.one_critical_section_per_file', z3.BoolVal(k.count('acquire') == 1 and k.count('release') == 1))
            if 'dict_del' in k:
                res.oblige(p, f'{prop}.download_chunk.pop_inside_the_section_metadata_after', z3.BoolVal(
                    k.index('acquire') < k.index('dict_del') < k.index('release') and (
                        'restore_metadata' not in k or k.index('restore_metadata') > k.index('release'))))
        res.oblige([], f'{prop}.download_chunk.paths_checked', z3.BoolVal(n >= 4))
    return post


def lemmas(prop):
    def build(add):
        off, size, off2, size2, x = z3.Ints('off size off2 size2 x')
        # C09.restore.writes_disjoint: consecutive refs of one file (C01.plan: off2 = off + size) write disjoint ranges,
        # so the order of the writer threads does not matter for the bytes
        add('writes_disjoint', [size >= 0, size2 >= 0, off2 >= off + size, off <= x, x < off + size], z3.Not(z3.And(off2 <= x, x < off2 + size2)))
    return Lemma(f'{prop}.lemma', build, prop=prop)


def units(prop):
    out = [
        Unit(f'{prop}.acquire_slot', REPO_PY, 'Repository._acquire_slot', slot_env, slot_post(prop, 'acquire_slot'), contextmanager=True, prop=prop),
        Unit(f'{prop}.acquire_slot_threadsafe', REPO_PY, 'Repository._acquire_slot_threadsafe', slot_env,
             slot_post(prop, 'acquire_slot_threadsafe'), contextmanager=True, prop=prop),
    ]
    for w in WRAPPERS:
        out.append(Unit(f'{prop}.{w}', REPO_PY, f'Repository.{w}', wrapper_setup(False), wrapper_post(prop, w), prop=prop))
        out.append(Unit(f'{prop}.{w}_threadsafe', REPO_PY, f'Repository.{w}_threadsafe', wrapper_setup(True), wrapper_post(prop, w + '_threadsafe'), prop=prop))
    out.append(restore.download_chunk_unit(prop, c09_download_chunk_post(prop), guarded=True))
    out.append(restore.write_ref_unit(prop))
    out.append(snapshot.worker_unit(prop))
    out.append(lemmas(prop))
    return out
