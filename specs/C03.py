"""C03 - Interrupted commands leave a consistent, usable repository."""
from specs import fsutil, retry, gc, snapshot, local, loc

LEVEL = 'proof'
UNITS = [fsutil.scandir_unit('C03'), snapshot.worker_unit('C03'), snapshot.run_unit('C03'), snapshot.producer_unit('C03'), gc.delete_unit('C03'), gc.clean_unit('C03')] + local.units('C03') + loc.loc_units('C03')[2:3] + retry.requires_auth_units('C03')
from specs import families as _families
UNITS = _families.with_families('C03', UNITS)
BOUNDED = [{'name': 'C03.stores', 'script': 'bounded/c13_stores.py', 'timeout': 900, 'bound': 'what a delete / an upload leaves behind on each store: the real S3-compatible, B2 and local adapters against in-memory services (B2 with version stacks and hide markers) over seeded histories of 14 operations, compared with a plain map (same stand-in as C13.stores)'}, {'name': 'C03.faults', 'script': 'bounded/c12_faults.py', 'timeout': 900, 'bound': 'a single backend call that fails for good (OSError, 5xx, 401 on every attempt incl. re-authentication) must SURFACE as an error of the adapter call and of the command - never be reported as done (same stand-in as C12.faults)'}, {'name': 'C03.e2e_crash', 'script': 'bounded/c03_crash.py', 'timeout': 900, 'bound': 'dying backend: the first n mutations of snapshot / delete / clean succeed, every later backend call fails for good, for every n up to the command\'s mutation count (<= 14); 3 files, chunks 8..64, concurrency 2 (thorough: 1 and 2, encrypted too); afterwards list, restore all visible snapshots, new snapshot, clean, chunk set == referenced; plus ONE operating-system call inside the local adapter failing for good during delete / clean (listing snapshots/, listing one of its sub-directories, removing the snapshot object: EMFILE / EPERM): every snapshot still listed afterwards restores exactly; a temporary file left by a kill inside an upload (next to other objects, and alone in a fresh directory of data/ and snapshots/), with orphans present: everything keeps working and clean succeeds'}]
TRUSTED = [
    'vf symbolic executor (/verif/vf): encoding of the Python subset (DESIGN 2.2)',
    'z3 5.1 (API + z3-new CLI), cvc5 1.0.3 (strings)',
]
ASSUMPTIONS = ["a crash between backend mutations leaves the backend equal to a prefix of the command's mutation sequence (for concurrent workers: a subset closed under the gather barriers)", 'os.replace is atomic; a crash inside write_bytes leaves only a *.tmp sibling (NamedTemporaryFile(suffix) names end with the suffix)', 'state of the OS file system after kill -9 inside a system call and S3/B2 server-side atomicity are assumed, not decided', 'backend interface as in C02; asyncio.gather returns only after every awaitable finished, or raises']
MANIFEST = {
    'text': 'Deductive proof that the reference invariant holds after EVERY individual backend mutation: snapshot only adds chunk objects and records a chunk after its object is known to exist, uploads the snapshot object only behind the worker barrier and never after a failure; delete removes named snapshots before any of their chunks and only unreferenced chunks; clean deletes only unreferenced own chunks; the local backend publishes objects solely by atomic replace of a complete *.tmp file that listings skip.',
    'note': 'Trusted: vf engine, SMT solvers, the crash model stated in evidence.assumptions (prefix of mutations), OS/service atomicity.',
    'technique': 'contract-based deductive verification: sidecar contracts + loop invariants on the real functions, VCs by symbolic execution of the AST, discharged by z3/cvc5',
    'design_ref': 'DESIGN.md 6/C03',
}
