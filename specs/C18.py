"""C18 - The snapshot cache never changes what a command does."""
from specs import snapbody, c18

LEVEL = 'proof'
UNITS = c18.UNITS + snapbody.load_units('C18')
from specs import families as _families
UNITS = _families.with_families('C18', UNITS)
BOUNDED = [{'name': 'C18.e2e', 'script': 'bounded/c18_e2e.py', 'timeout': 900, 'bound': 'plain and encrypted repository, owner and shared-key user: listings + restore with the cache disabled vs. warm, every entry cut to 0 / 1 / half / len-1 bytes, one entry missing, an extra stale entry, two entries swapped, cache shared with another key and another repository, stale after a foreign delete; second run on the repaired cache; a client killed just before each of its first 8 file-system mutations under a cold cache directory (audit hook in a child interpreter), then two clients on what it left'}]
TRUSTED = [
    'vf symbolic executor (/verif/vf): encoding of the Python subset (DESIGN 2.2)',
    'z3 5.1 (API + z3-new CLI), cvc5 1.0.3 (strings)',
]
ASSUMPTIONS = [
    'backend.download(name) returns B[name] or raises (assumed backend interface)',
    '_get_cached returns ARBITRARY bytes or raises FileNotFoundError (covers stale/truncated/foreign entries)',
    '_decrypt_snapshot_body is a deterministic function of its argument (C04)',
    'callers pass only listed paths (_load_snapshots, C04 unit)',
    'other OSError kinds from the cache read propagate: not modelled',
]
MANIFEST = {
    'text': 'Deductive proof of the postcondition of the single function that consults the cache: whatever bytes the cache holds, the body returned was decoded from bytes hashing to the expected digest, a bad entry is treated as a miss, and only verified raw objects are stored.',
    'note': 'Trusted: vf engine, SMT solver, A-collision for H.',
    'technique': 'contract-based deductive verification: sidecar contracts + loop invariants on the real functions, VCs by symbolic execution of the AST, discharged by z3/cvc5',
    'design_ref': 'DESIGN.md 6/C18',
}
