"""Contracts for the S3-compatible adapter: SigV4 (C16), pagination (C13), rewinds (C12)."""
from __future__ import annotations

import z3

from vf import sym, models, ops, source
from vf.sym import SV, INT, BOOL, STR, BYTES, Opt, Tup, List, Ref, Cls
from vf.interp import Model, Raised, Exc, Obj, LoopSpec, PyRef, Closure, IterSpec
from vf.unit import Unit, Lemma
from vf.ops import CM, MethodModel, Property
from specs import shared
from specs.shared import UF

S3C_PY = 'replicat/backends/s3c.py'
S = z3.StringVal
NOW = models.opaque_type('DateTime')
REQ = models.opaque_type('Request')


def HMAC(k, m):
    return UF('hmac_sha256', BYTES, BYTES, BYTES)(k, m)


def SHA256HEX(m):
    return UF('sha256_hex', BYTES, STR)(m)


def enc(z):
    return UF('encode_utf8', STR, BYTES)(z)


def hexf(z):
    return UF('hex', BYTES, STR)(z)


def fmt(now, spec):
    return UF(f'fmt_-1_{spec}', NOW, STR)(now)


def quote_path(z):
    return UF('urllib_quote', STR, STR)(z)            # quote(s) with safe='/'


def qenc(z):
    return UF('urlencode_component', STR, STR)(z)     # how urlencode encodes one name or value


def helpers_env(b):
    for nm in ('_get_data_hexdigest', '_hmac_sha256_digest', '_make_signature_key', '_make_canonical_headers',
               '_make_credential_scope', '_make_canonical_request', '_make_string_to_sign'):
        b.bind(nm, Closure(source.select(S3C_PY, nm), 0, nm))
    HASH = models.opaque_type('HashObj')
    HASH.attrs = {'hexdigest': MethodModel('hexdigest', lambda i, s, a, k: iter([(s, SV(STR, UF('hash_hexdigest', HASH, STR)(a[0].z)))])),
                  'digest': MethodModel('digest', lambda i, s, a, k: iter([(s, SV(BYTES, UF('hash_digest', HASH, BYTES)(a[0].z)))]))}

    def sha256(interp, st, args, kwargs):
        h = sym.fresh(HASH, 'sha')
        z = sym.lift(args[0], BYTES).z
        st.assume(UF('hash_hexdigest', HASH, STR)(h.z) == SHA256HEX(z))
        yield st, h

    b.bind('hashlib', Obj('hashlib', sha256=Model('sha256', sha256)))

    def hmac_new(interp, st, args, kwargs):
        h = sym.fresh(HASH, 'mac')
        st.emit('hmac_new', digestmod=args[2] if len(args) > 2 else None)
        st.assume(UF('hash_digest', HASH, BYTES)(h.z) == HMAC(sym.lift(args[0], BYTES).z, sym.lift(args[1], BYTES).z))
        yield st, h

    b.bind('hmac', Obj('hmac', new=Model('hmac.new', hmac_new)))
    b.bind('quote', Model('quote', lambda i, s, a, k: iter([(s, SV(STR, quote_path(sym.lift(a[0], STR).z)))])))

    def urlencode(interp, st, args, kwargs):
        items = interp.concrete_items(st, ops.resolve(st, args[0]))
        if items is None:
            raise sym.Unsupported('urlencode of symbolic sequence')
        st.emit('urlencode', kwargs=dict(kwargs), names=[k for k, _ in items])
        parts = []
        for i, (k, v) in enumerate(items):
            if i:
                parts.append('&')
            parts += [SV(STR, qenc(sym.lift(k, STR).z)), '=', SV(STR, qenc(sym.lift(v, STR).z))]
        yield st, interp.concat_strs(parts)

    b.bind('urlencode', Model('urlencode', urlencode))
    # every reading of the clock is a NEW instant (two readings in one request may straddle a second, or midnight).  A datetime value is
    # an opaque bundle of calendar FIELDS (what formatting prints): `utcnow()` / `now(timezone.utc)` give the UTC fields `u` of the instant,
    # `now()` gives the LOCAL fields `l` of the same instant - unrelated to `u` for the formatter (the zone is any zone) except through the
    # conversions as_utc(l) = u, as_local(u) = l.  The `utcnow` event carries the UTC fields: SigV4 dates are UTC.
    AS_UTC, AS_LOCAL = UF('dt_as_utc', NOW, NOW), UF('dt_as_local', NOW, NOW)
    UTC_ZONE = Obj('timezone.utc')

    def _utc_reading(st):
        u = sym.fresh(NOW, 'now')
        st.assume(AS_UTC(u.z) == u.z)
        st.emit('utcnow', value=u)
        return u

    def _utcnow(interp, st, args, kwargs):
        yield st, _utc_reading(st)

    def _now(interp, st, args, kwargs):
        tz = args[0] if args else kwargs.get('tz')
        u = _utc_reading(st)
        if tz is UTC_ZONE:
            yield st, u
        elif tz is None:
            l = sym.fresh(NOW, 'localnow')
            st.assume(z3.And(AS_UTC(l.z) == u.z, AS_LOCAL(u.z) == l.z, AS_LOCAL(l.z) == l.z))
            yield st, l
        else:
            raise sym.Unsupported('datetime.now(<zone other than timezone.utc>)')

    def _astimezone(interp, st, args, kwargs):
        me_, tz = args[0], (args[1] if len(args) > 1 else kwargs.get('tz'))
        if tz is UTC_ZONE:
            yield st, SV(NOW, AS_UTC(me_.z))
        elif tz is None:
            yield st, SV(NOW, AS_LOCAL(me_.z))
        else:
            raise sym.Unsupported('astimezone(<zone other than timezone.utc>)')

    NOW.attrs['astimezone'] = models.MethodModel('datetime.astimezone', _astimezone)
    b.bind('datetime', Obj('datetime', utcnow=Model('datetime.utcnow', _utcnow), now=Model('datetime.now', _now)))
    b.bind('timezone', Obj('timezone', utc=UTC_ZONE))
    b.bind('UTC', UTC_ZONE)


def self_obj(b):
    me = Obj('self', bucket_name=sym.const(STR, 'bucket'), key_id=sym.const(STR, 'key_id'),
             access_key=sym.const(STR, 'access_key'), region=sym.const(STR, 'region'), host=sym.const(STR, 'host'),
             scheme=sym.const(STR, 'scheme'))
    me._class_source = (S3C_PY, 'S3Compatible')      # methods without a model are the real ones, inlined
    me._lenient = True                                # attributes without a model hold arbitrary state
    me._attrs['url'] = SV(STR, z3.Concat(me.get('scheme').z, S('://'), me.get('host').z))

    def build_request(interp, st, args, kwargs):
        method, url = args
        kw = dict(kwargs)
        headers = interp.deref(st, ops.resolve(st, kw.pop('headers')))
        st.emit('build_request', method=method, url=url, headers=dict(headers), extra=kw)
        yield st, sym.fresh(REQ, 'request')

    me._attrs['_client'] = Obj('client', build_request=Model('build_request', build_request))
    b.bind('self', me)
    return me


def sigv4_spec(me, method, enc_path, canon_query, payload_hash, now, extra=()):
    """AWS Signature Version 4 for S3, written from the published algorithm.  `extra`: further (lower-case name, value ON THE WIRE)
    pairs that are signed besides the three mandatory headers"""
    amzdate = z3.Concat(fmt(now, '%Y%m%dT%H%M%S'), S('Z'))
    date = fmt(now, '%Y%m%d')
    host, region, key_id, secret = (me.get(x).z for x in ('host', 'region', 'key_id', 'access_key'))
    hs = sorted([('host', host), ('x-amz-content-sha256', payload_hash), ('x-amz-date', amzdate)] + list(extra), key=lambda kv: kv[0])
    canonical_headers = z3.Concat(*[t for k, v in hs for t in (S(k + ':'), v, S('\n'))])
    signed = S(';'.join(k for k, _ in hs))
    creq = z3.Concat(method, S('\n'), enc_path, S('\n'), canon_query, S('\n'), canonical_headers, S('\n'), signed, S('\n'), payload_hash)
    scope = z3.Concat(date, S('/'), region, S('/'), S('s3'), S('/'), S('aws4_request'))
    sts = z3.Concat(S('AWS4-HMAC-SHA256'), S('\n'), amzdate, S('\n'), scope, S('\n'), SHA256HEX(enc(creq)))
    k = HMAC(HMAC(HMAC(HMAC(z3.Concat(enc(S('AWS4')) if False else bytes_lit('AWS4'), enc(secret)), enc(date)), enc(region)),
                  bytes_lit('s3')), bytes_lit('aws4_request'))
    sig = hexf(HMAC(k, enc(sts)))
    auth = z3.Concat(S('AWS4-HMAC-SHA256 Credential='), key_id, S('/'), scope, S(', SignedHeaders='), signed, S(', Signature='), sig)
    return auth, amzdate


def bytes_lit(s):
    return sym.bytes_to_zstr(s.encode())


def prepare_setup(shape):
    def setup(b):
        helpers_env(b)
        me = self_obj(b)
        b.me = me
        b.sym('method', STR)
        b.sym('canonical_uri', STR)
        b.sym('payload_digest', STR)
        if shape == 'headers':
            b.bind('headers', b.st.new_py('dict', {'content-length': sym.const(STR, 'cl')}))
        elif shape == 'headers_reused':
            # the function fills in the caller's dict: the dict it is given may be one an EARLIER call (an earlier attempt) has filled in
            b.bind('headers', b.st.new_py('dict', {'content-length': sym.const(STR, 'cl'), 'x-amz-content-sha256': sym.const(STR, 'old_digest'),
                                                   'x-amz-date': sym.const(STR, 'old_date'), 'authorization': sym.const(STR, 'old_authorization')}))
        else:
            b.bind('headers', None)
        if shape == 'noquery':
            b.bind('query', None)
        else:
            q = {'list-type': '2'}
            if shape in ('query3',):
                q['continuation-token'] = sym.const(STR, 'token')
                q['prefix'] = sym.const(STR, 'prefix')
            elif shape == 'query2':
                q['prefix'] = sym.const(STR, 'prefix')
            b.bind('query', b.st.new_py('dict', q))
            b.q = q
        b.bind('kwargs', b.st.new_py('dict', {}))
    return setup


def prepare_post(prop, shape):
    def post(res):
        b = res.builder
        me = b.me
        for p in res.paths:
            br = p.events('build_request')
            if p.kind != 'return' or len(br) != 1:
                res.oblige(p, f'{prop}.sig[{shape}].one_request_built', z3.BoolVal(False))
                continue
            e = br[0]
            url = sym.lift(e.data['url'], STR).z
            hd = e.data['headers']
            method = b.st.lookup('method').z
            enc_path = quote_path(b.st.lookup('canonical_uri').z)
            ph = b.st.lookup('payload_digest').z
            if shape == 'noquery':
                cq = S('')
                wire = z3.Concat(me.get('url').z, enc_path)
            else:
                names = sorted(b.q)
                parts = []
                for i, k in enumerate(names):
                    if i:
                        parts.append(S('&'))
                    parts += [qenc(S(k)), S('='), qenc(sym.lift(b.q[k], STR).z)]
                cq = z3.Concat(*parts)
                wire = z3.Concat(me.get('url').z, enc_path, S('?'), cq)
            now_events = p.events('utcnow')
            # one clock reading feeds both the x-amz-date header and the credential scope
            res.oblige(p, f'{prop}.sig[{shape}].single_clock_reading', z3.BoolVal(len(now_events) == 1))
            if not now_events:
                continue
            now = now_events[0].data['value'].z          # the instant of the (first) clock reading, not a variable name
            auth, amzdate = sigv4_spec(me, method, enc_path, cq, ph, now)
            # C16.sig.structure: the signature is computed over exactly what goes on the wire
            res.oblige(p, f'{prop}.sig[{shape}].wire_url_is_signed_path_and_query', url == wire)
            # SigV4 requires host (and, for S3, the x-amz-* headers) to be signed and allows any further header that is sent to be signed
            # too - with the value that is sent.  `authorization` cannot be among them (it carries the signature)
            import itertools
            others = sorted(k for k in hd if isinstance(k, str) and k.lower() not in ('host', 'x-amz-content-sha256', 'x-amz-date', 'authorization'))
            accepted = []
            for r in range(len(others) + 1):
                for sub in itertools.combinations(others, r):
                    accepted.append(sigv4_spec(me, method, enc_path, cq, ph, now, extra=[(k.lower(), sym.lift(hd[k], STR).z) for k in sub])[0])
            res.oblige(p, f'{prop}.sig[{shape}].authorization_is_sigv4_of_wire_values',
                       z3.Or(*[sym.lift(hd.get('authorization', ''), STR).z == a for a in accepted]))
            res.oblige(p, f'{prop}.sig[{shape}].signed_headers_are_sent', z3.And(
                sym.lift(hd.get('x-amz-date', ''), STR).z == amzdate,
                sym.lift(hd.get('x-amz-content-sha256', ''), STR).z == ph))
            if shape != 'noquery':
                ue = p.events('urlencode')
                # C16.query.sorted: parameters sorted by name
                res.oblige(p, f'{prop}.sig[{shape}].query_sorted_by_name', z3.BoolVal(
                    len(ue) == 1 and ue[0].data['names'] == sorted(ue[0].data['names'])))
                # C16.query.char_encoding: AWS requires %20 for space and %2F for '/' in query components, i.e.
                # urlencode must be used with quote_via=quote (its default quote_plus emits '+'); the per-byte
                # agreement of that configuration with the AWS table is the exhaustive enumeration C16.encoding
                from urllib.parse import quote as _q
                kw = ue[0].data['kwargs'] if ue else {}
                qv = kw.get('quote_via')
                res.oblige(p, f'{prop}.sig[{shape}].query_components_percent_encoded_not_plus', z3.BoolVal(
                    isinstance(qv, Model) and qv.name == 'quote'))
            if shape in ('headers', 'headers_reused'):
                res.oblige(p, f'{prop}.sig[{shape}].caller_headers_kept',
                           sym.lift(hd.get('content-length', ''), STR).z == z3.String('cl'))
    return post


def prepare_units(prop):
    return [Unit(f'{prop}.prepare_request[{sh}]', S3C_PY, 'S3Compatible._prepare_request', prepare_setup(sh),
                 prepare_post(prop, sh), prop=prop) for sh in ('noquery', 'query1', 'query2', 'query3', 'headers', 'headers_reused')]


# ------------------------------------------------------------------ per-method contracts
STREAM = models.opaque_type('PayloadStream')
RESP = models.opaque_type('Response')
EMPTY_SHA = 'sha256hex(b"")'


def method_env(b):
    helpers_env(b)
    me = self_obj(b)
    b.me = me
    b.sym('name', STR)

    def make_request(interp, st, args, kwargs):
        bad = st.copy()
        bad.emit('request_failed')
        yield bad, Raised(Exc('HTTPError'))
        nf = st.copy()
        nf.emit('request_404')
        yield nf, Raised(Exc('HTTPStatusError', attrs={'response': Obj('resp', status_code=404)}))
        st.emit('request', method=args[0], uri=args[1], kwargs=dict(kwargs))
        yield st, sym.fresh(RESP, 'response')

    me._attrs['_make_request'] = Model('_make_request', make_request)
    b.bind('_empty_payload_digest', SV(STR, SHA256HEX(sym.bytes_to_zstr(b''))))
    b.bind('httpx', Obj('httpx', HTTPStatusError=shared.ExcClass('HTTPStatusError'), HTTPError=shared.ExcClass('HTTPError'),
                        codes=Obj('codes', NOT_FOUND=404, FORBIDDEN=403)))

    def seek(interp, st, args, kwargs):
        st.emit('stream_seek', pos=args[1])
        yield st, args[1]

    def truncate(interp, st, args, kwargs):
        bad = st.copy()
        bad.emit('stream_truncate_failed')
        yield bad, Raised(Exc('OSError'))
        st.emit('stream_truncate', size=args[1] if len(args) > 1 else None)
        yield st, None

    def write(interp, st, args, kwargs):
        bad = st.copy()
        bad.emit('stream_write_failed')
        yield bad, Raised(Exc('OSError'))
        st.emit('stream_write', data=args[1])
        yield st, None

    STREAM.attrs = {'seek': MethodModel('seek', seek), 'truncate': MethodModel('truncate', truncate),
                    'write': MethodModel('write', write)}
    b.sym('stream', STREAM)
    b.sym('data', BYTES)
    b.sym('length', INT)
    b.sym('chunk_size', INT)
    b.sym('payload_digest', STR)

    def aiter_chunks(interp, st, args, kwargs):
        st.emit('aiter_chunks', stream=args[0], chunk_size=kwargs.get('chunk_size'))
        yield st, SV(models.opaque_type('AsyncChunks'), UF('aiter_chunks_of', STREAM, INT, models.opaque_type('AsyncChunks'))(
            args[0].z, sym.lift(kwargs.get('chunk_size'), INT).z))

    b.bind('utils', Obj('utils', aiter_chunks=Model('aiter_chunks', aiter_chunks)))


def obj_uri(b):
    return z3.Concat(S('/'), b.me.get('bucket_name').z, S('/'), b.st.lookup('name').z)


def simple_post(prop, label, verb, empty_payload=True):
    def post(res):
        b = res.builder
        n = 0
        for p in res.all_paths():
            for e in p.events('request'):
                n += 1
                pc = p.pc_at(e)
                kw = e.data['kwargs']
                res.oblige(pc, f'{prop}.s3.{label}.verb_and_object_path', z3.And(
                    sym.lift(e.data['method'], STR).z == S(verb), sym.lift(e.data['uri'], STR).z == obj_uri(b)))
                if empty_payload:
                    # body-less verbs declare the hash of the empty payload
                    res.oblige(pc, f'{prop}.s3.{label}.empty_payload_hash', z3.And(
                        sym.lift(kw['payload_digest'], STR).z == SHA256HEX(sym.bytes_to_zstr(b'')),
                        z3.BoolVal('content' not in kw)))
        res.oblige([], f'{prop}.s3.{label}.requests_checked', z3.BoolVal(n >= 1))
    return post


def put_object_post(prop):
    def post(res):
        b = res.builder
        data = b.st.lookup('data').z
        for p in res.paths:
            for e in p.events('request'):
                kw = e.data['kwargs']
                hd = res.interp.deref(p.st, ops.resolve(p.st, kw['headers']))
                # C16.payload.hash_len: declared hash and content-length match the body that is sent
                res.oblige(p.pc_at(e), f'{prop}.s3.put_object.body_hash_length', z3.And(
                    sym.lift(e.data['method'], STR).z == S('PUT'), sym.lift(e.data['uri'], STR).z == obj_uri(b),
                    sym.lift(kw['content'], BYTES).z == data,
                    sym.lift(kw['payload_digest'], STR).z == b.st.lookup('payload_digest').z,
                    sym.lift(hd['content-length'], STR).z == UF('str_of_int', INT, STR)(z3.Length(data))))
    return post


def upload_post(prop):
    def post(res):
        b = res.builder
        n = 0
        for p in res.paths:
            for e in p.events('put_object'):
                n += 1
                a = e.data['args']
                res.oblige(p.pc_at(e), f'{prop}.s3.upload.hash_of_the_data_sent', z3.And(
                    sym.lift(a[0], STR).z == b.st.lookup('name').z, sym.lift(a[1], BYTES).z == b.st.lookup('data').z,
                    sym.lift(a[2], STR).z == SHA256HEX(b.st.lookup('data').z)))
        res.oblige([], f'{prop}.s3.upload.calls_checked', z3.BoolVal(n == 1))
    return post


def upload_setup(b):
    method_env(b)

    def put_object(interp, st, args, kwargs):
        st.emit('put_object', args=list(args), kwargs=dict(kwargs))
        yield st, None

    b.me._attrs['_put_object'] = Model('_put_object', put_object)
    b.me._attrs['_put_object_stream'] = Model('_put_object_stream', lambda i, s, a, k: (
        s.emit('put_object_stream', args=list(a), kwargs=dict(k)), iter([(s, None)]))[1])

    def stream_hexdigest(interp, st, args, kwargs):
        st.emit('stream_hexdigest', stream=args[0])
        yield st, SV(STR, UF('stream_sha256_hex', STREAM, STR)(args[0].z))

    b.bind('_get_stream_hexdigest', Model('_get_stream_hexdigest', stream_hexdigest))


def upload_stream_post(prop):
    def post(res):
        b = res.builder
        for p in res.paths:
            ps = p.events('put_object_stream')
            ok = p.kind in ('normal', 'return') and len(ps) == 1
            res.oblige(p, f'{prop}.s3.upload_stream.one_put', z3.BoolVal(ok))
            if not ok:
                continue
            a, kw = ps[0].data['args'], ps[0].data['kwargs']
            # digest over the whole stream (which leaves it at offset 0: unit stream_hexdigest), same stream sent
            res.oblige(p, f'{prop}.s3.upload_stream.digest_of_the_stream_sent', z3.And(
                a[1].z == b.st.lookup('stream').z,
                sym.lift(kw['payload_digest'], STR).z == UF('stream_sha256_hex', STREAM, STR)(b.st.lookup('stream').z),
                sym.lift(kw['length'], INT).z == b.st.lookup('length').z,
                sym.lift(kw['chunk_size'], INT).z == b.st.lookup('chunk_size').z))
    return post


def put_stream_post(prop):
    def post(res):
        b = res.builder
        n_exc = 0
        for p in res.paths:
            evs = p.st.events
            kinds = [e.kind for e in evs]
            sig = ','.join(kinds) + '->' + p.kind
            for e in p.events('request'):
                kw = e.data['kwargs']
                hd = res.interp.deref(p.st, ops.resolve(p.st, kw['headers']))
                ac = p.events('aiter_chunks')
                res.oblige(p.pc_at(e), f'{prop}.s3.put_stream.body_is_the_stream_with_declared_length[{sig}]', z3.And(
                    sym.lift(e.data['method'], STR).z == S('PUT'), sym.lift(e.data['uri'], STR).z == obj_uri(b),
                    z3.BoolVal(len(ac) == 1 and ac[0].data['stream'] is b.st.lookup('stream')),
                    # C20: read from the caller's stream in pieces of the chunk size the command chose
                    (sym.lift(ac[0].data['chunk_size'], INT).z == b.st.lookup('chunk_size').z) if len(ac) == 1 and ac[0].data['chunk_size'] is not None else z3.BoolVal(False),
                    sym.lift(kw['payload_digest'], STR).z == b.st.lookup('payload_digest').z,
                    sym.lift(hd['content-length'], STR).z == UF('str_of_int', INT, STR)(b.st.lookup('length').z)))
            if p.kind == 'raise':
                n_exc += 1
                # C12.s3.upload_stream.rewinds
                lk = [e for e in evs if e.kind in ('stream_seek',)]
                res.oblige(p, f'{prop}.s3.put_stream.rewinds_on_failure[{sig}]', z3.BoolVal(bool(lk)) if not lk else
                           z3.And(sym.lift(lk[-1].data['pos'], INT).z == 0, z3.BoolVal(evs[-1] is lk[-1] or kinds[-1] == 'stream_seek')))
        res.oblige([], f'{prop}.s3.put_stream.failure_paths_checked', z3.BoolVal(n_exc >= 2))
    return post


def download_stream_setup(b):
    method_env(b)
    HDRS = models.opaque_type('Headers')
    n_chunks = z3.Int('n_body_chunks')
    b.assume(n_chunks >= 0)

    def hget(interp, st, args, kwargs):
        yield st, sym.fresh(Opt(STR), 'content_length_header')

    HDRS.attrs = {'get': MethodModel('get', hget)}

    def aiter_bytes(interp, st, args, kwargs):
        st.emit('aiter_bytes', size=(args[1] if len(args) > 1 else kwargs.get('chunk_size')))
        it = IterSpec(n_chunks, lambda k: SV(BYTES, UF('body_chunk', INT, BYTES)(k)))
        yield st, it

    RESP.attrs = {'headers': sym.const(HDRS, 'hdrs'), 'aiter_bytes': MethodModel('aiter_bytes', aiter_bytes)}

    def streaming_request(interp, st, args, kwargs):
        st.emit('request', method=args[0], uri=args[1], kwargs=dict(kwargs))
        bad = st.copy()
        bad.emit('request_failed')
        yield bad, Raised(Exc('HTTPError'))
        yield st, CM('streaming', value=sym.fresh(RESP, 'response'))

    b.me._attrs['_make_streaming_request'] = Model('_make_streaming_request', streaming_request)


def download_stream_post(prop):
    def post(res):
        n_exc = 0
        b = res.builder
        for p in res.all_paths():
            for e in p.events('aiter_bytes'):
                # C20: the body is written to the caller's stream in pieces of the chunk size the command chose
                sz = e.data['size']
                res.oblige(p.pc_at(e), f'{prop}.s3.download_stream.writes_in_pieces_of_chunk_size', z3.BoolVal(False) if sz is None else
                           sym.lift(sz, INT).z == b.st.lookup('chunk_size').z)
            evs = p.st.events
            kinds = [e.kind for e in evs]
            sig = ','.join(k for k in kinds if not k.startswith('loop')) + '->' + p.kind
            if p.kind == 'raise' and any(k in ('stream_truncate', 'stream_truncate_failed') for k in kinds):
                n_exc += 1
                lk = [e for e in evs if e.kind.startswith('stream_')]
                res.oblige(p, f'{prop}.s3.download_stream.rewinds_on_failure[{sig}]', z3.BoolVal(
                    lk[-1].kind == 'stream_seek') if lk[-1].kind != 'stream_seek' else sym.lift(lk[-1].data['pos'], INT).z == 0)
            tr = p.events('stream_truncate')
            wr = p.events('stream_write')
            if wr:
                # retry_idempotent: the stream is cut to the announced length before the first body byte is written
                res.oblige(p, f'{prop}.s3.download_stream.truncate_before_write[{sig}]', z3.BoolVal(
                    bool(tr) and kinds.index('stream_truncate') < kinds.index('stream_write')))
        res.oblige([], f'{prop}.s3.download_stream.failure_paths_checked', z3.BoolVal(n_exc >= 2))
    return post


def stream_hexdigest_setup(b):
    helpers_env(b)
    n = z3.Int('n_reads')
    b.assume(n >= 0)
    b.n = n
    k = z3.Int('hk')
    piece = lambda kk: UF('sread', INT, BYTES)(kk)
    pref = lambda kk: UF('spref', INT, BYTES)(kk)
    b.piece, b.pref = piece, pref
    b.assume(pref(0) == S(''))
    b.assume(z3.ForAll([k], z3.Implies(k >= 0, pref(k + 1) == z3.Concat(pref(k), piece(k)))))
    b.ghost('fed', SV(BYTES, S('')))
    HASH = models.opaque_type('Sha256Inc')

    def update(interp, st, args, kwargs):
        st.ghost['fed'] = SV(BYTES, z3.Concat(st.ghost['fed'].z, sym.lift(args[1], BYTES).z))
        yield st, None

    def hexdigest(interp, st, args, kwargs):
        yield st, SV(STR, SHA256HEX(st.ghost['fed'].z))

    HASH.attrs = {'update': MethodModel('update', update), 'hexdigest': MethodModel('hexdigest', hexdigest), 'block_size': 64}
    b.bind('hashlib', Obj('hashlib', sha256=Model('sha256', lambda i, s, a, k_: iter([(s, sym.fresh(HASH, 'hasher'))]))))

    def iter2(interp, st, args, kwargs):
        # iter(callable, sentinel): successive results of the callable up to (excluding) the sentinel;
        # here: the non-empty reads of the stream, whose concatenation is the remaining content
        if len(args) != 2:
            raise sym.Unsupported('iter form')
        st.emit('iter_reads', fn=args[0], sentinel=args[1])
        # one call of the producer, to see what a step does: which stream it reads and with which size
        from vf.interp import Closure as _Cl
        if isinstance(args[0], _Cl):
            for s2, v in interp.call(st, args[0], [], {}):
                yield s2, IterSpec(n, lambda kk: SV(BYTES, piece(kk)))
        else:
            yield st, IterSpec(n, lambda kk: SV(BYTES, piece(kk)))

    b.bind('iter', Model('iter', iter2))

    def seek(interp, st, args, kwargs):
        st.emit('stream_seek', pos=args[1])
        yield st, args[1]

    def read(interp, st, args, kwargs):
        st.emit('stream_read', stream=args[0], size=args[1] if len(args) > 1 else None)
        yield st, b''

    STREAM.attrs = {'seek': MethodModel('seek', seek), 'read': MethodModel('read', read)}
    b.sym('stream', STREAM)
    b.sym('chunk_size', INT)
    b.assume(b.st.lookup('chunk_size').z >= 1)         # callers pass chunk sizes >= 1 (the commands' formula, C20.site)


def stream_hexdigest_post(prop):
    def post(res):
        b = res.builder
        for p in res.paths:
            if p.kind != 'return':
                res.oblige(p, f'{prop}.s3.stream_hexdigest.total', z3.BoolVal(False))
                continue
            sk = p.events('stream_seek')
            # C12.s3.digest_rewinds: hashes exactly the bytes read (= what is sent later) and leaves the stream at 0
            res.oblige(p, f'{prop}.s3.stream_hexdigest.hash_of_all_bytes_read', sym.lift(p.value, STR).z == SHA256HEX(b.pref(b.n)))
            res.oblige(p, f'{prop}.s3.stream_hexdigest.rewinds', z3.BoolVal(len(sk) == 1) if len(sk) != 1 else
                       sym.lift(sk[0].data['pos'], INT).z == 0)
            # the reads that feed the hash use a POSITIVE size and stop at the empty read only: so they cover the whole payload
            # (read(0) returns b'' at once and would end the loop with nothing hashed)
            rd, it = p.events('stream_read'), p.events('iter_reads')
            ok = len(rd) == 1 and len(it) == 1 and rd[0].data['stream'] is b.st.lookup('stream') and it[0].data['sentinel'] == b'' and rd[0].data['size'] is not None
            res.oblige(p, f'{prop}.s3.stream_hexdigest.reads_the_whole_stream_in_positive_sizes', z3.BoolVal(ok) if not ok else
                       sym.lift(rd[0].data['size'], INT).z >= 1)
    return post


def _with_native(u, native):
    u.native = native
    return u


def method_units(prop):
    hex_inv = lambda ctx: z3.And(ctx.k <= ctx.n, ctx.g('fed') == UF('spref', INT, BYTES)(ctx.k))
    t = lambda ctx: z3.BoolVal(True)
    return [
        Unit(f'{prop}.s3.exists', S3C_PY, 'S3Compatible.exists', method_env, simple_post(prop, 'exists', 'HEAD'), prop=prop),
        Unit(f'{prop}.s3.download', S3C_PY, 'S3Compatible.download', lambda b: (method_env(b), setattr(
            RESP, 'attrs', {'aread': MethodModel('aread', lambda i, s, a, k: iter([(s, sym.fresh(BYTES, 'body'))]))}))[0],
            simple_post(prop, 'download', 'GET'), prop=prop),
        Unit(f'{prop}.s3.delete', S3C_PY, 'S3Compatible.delete', method_env, simple_post(prop, 'delete', 'DELETE'), prop=prop),
        Unit(f'{prop}.s3.put_object', S3C_PY, 'S3Compatible._put_object', method_env, put_object_post(prop), prop=prop),
        Unit(f'{prop}.s3.upload', S3C_PY, 'S3Compatible.upload', upload_setup, upload_post(prop), prop=prop),
        Unit(f'{prop}.s3.upload_stream', S3C_PY, 'S3Compatible.upload_stream', upload_setup, upload_stream_post(prop), prop=prop),
        Unit(f'{prop}.s3.put_object_stream', S3C_PY, 'S3Compatible._put_object_stream', method_env, put_stream_post(prop), prop=prop),
        _with_native(Unit(f'{prop}.s3.stream_hexdigest', S3C_PY, '_get_stream_hexdigest', stream_hexdigest_setup, stream_hexdigest_post(prop),
                          loops={'For#1': LoopSpec(hex_inv, modifies=[('ghost', 'fed')], name='For#1')}, prop=prop), ('stream_hexdigest',)),
        Unit(f'{prop}.s3.download_stream', S3C_PY, 'S3Compatible.download_stream', download_stream_setup, download_stream_post(prop),
             loops={'AsyncFor#1': LoopSpec(t, modifies=[], name='AsyncFor#1')}, prop=prop),
    ]


# ------------------------------------------------------------------ _list_objects / list_files (pagination)
def list_objects_setup(b):
    method_env(b)
    b.sym('continuation_token', Opt(STR))
    b.sym('prefix', STR)


def list_objects_post(prop):
    def post(res):
        b = res.builder
        tok, prefix = b.st.lookup('continuation_token'), b.st.lookup('prefix').z
        n = 0
        for p in res.paths:
            for e in p.events('request'):
                n += 1
                q = res.interp.deref(p.st, ops.resolve(p.st, e.data['kwargs']['query']))
                pc = p.pc_at(e)
                # the query is a mapping built by THIS call (list-type plus the caller's token / prefix): state that
                # survives between calls or instances would leak an earlier token or prefix into this request
                res.oblige(pc, f'{prop}.s3.list_objects.query_built_per_call', z3.BoolVal(isinstance(q, dict)))
                if not isinstance(q, dict):
                    continue
                res.oblige(pc, f'{prop}.s3.list_objects.bucket_listing_v2', z3.And(
                    sym.lift(e.data['method'], STR).z == S('GET'),
                    sym.lift(e.data['uri'], STR).z == z3.Concat(S('/'), b.me.get('bucket_name').z),
                    z3.BoolVal(q.get('list-type') == '2')))
                # the caller's token and prefix are forwarded unchanged (an empty prefix is omitted)
                res.oblige(pc, f'{prop}.s3.list_objects.token_forwarded', z3.If(
                    tok.ty.is_none(tok.z), z3.BoolVal('continuation-token' not in q),
                    z3.BoolVal('continuation-token' in q) if 'continuation-token' not in q else
                    ops.unwrap_opt(res.interp, p.st, q['continuation-token'], 't').z == tok.ty.val(tok.z)))
                res.oblige(pc, f'{prop}.s3.list_objects.prefix_forwarded', z3.If(
                    z3.Length(prefix) == 0, z3.BoolVal('prefix' not in q),
                    z3.BoolVal('prefix' in q) if 'prefix' not in q else sym.lift(q['prefix'], STR).z == prefix))
        res.oblige([], f'{prop}.s3.list_objects.requests_checked', z3.BoolVal(n >= 2))
    return post


ELEM = models.opaque_type('XmlElement')


def list_files_setup(b):
    helpers_env(b)
    me = self_obj(b)
    b.me = me
    b.sym('prefix', STR)
    n_ev = z3.Int('n_events')
    b.assume(n_ev >= 0)

    def list_objects(interp, st, args, kwargs):
        bad = st.copy()
        yield bad, Raised(Exc('HTTPError'))
        st.emit('list_objects', kwargs=dict(kwargs))
        yield st, sym.fresh(RESP, 'page')

    me._attrs['_list_objects'] = Model('_list_objects', list_objects)
    RESP.attrs = {'aiter_bytes': MethodModel('aiter_bytes', lambda i, s, a, k: iter(
        [(s, IterSpec(z3.Int('n_data'), lambda kk: SV(BYTES, UF('page_data', INT, BYTES)(kk)), [z3.Int('n_data') >= 0]))]))}
    PARSER = models.opaque_type('XMLPullParser')

    def read_events(interp, st, args, kwargs):
        page = sym.fresh(INT, 'page_id')
        st.emit('read_events', page=page)
        yield st, IterSpec(n_ev, lambda kk: (SV(STR, S('end')), SV(ELEM, UF('xml_event', INT, INT, ELEM)(page.z, kk))))

    PARSER.attrs = {'feed': MethodModel('feed', lambda i, s, a, k: iter([(s, None)])),
                    'read_events': MethodModel('read_events', read_events)}
    b.bind('XMLPullParser', Model('XMLPullParser', lambda i, s, a, k: iter([(s, sym.fresh(PARSER, 'parser'))])))
    ELEM.attrs = {'tag': Property(lambda i, s, v: iter([(s, SV(STR, UF('xml_tag', ELEM, STR)(v.z)))])),
                  'text': Property(lambda i, s, v: iter([(s, SV(Opt(STR), UF('xml_text', ELEM, Opt(STR))(v.z)))]))}


def local_tag(z):
    """the tag without its '{namespace}' part, as computed by rpartition('}')[2] (unique decomposition)"""
    return z


def list_files_post(prop):
    def post(res):
        b = res.builder
        n_req = n_ev = 0
        # outer loop body: each page is requested with the CURRENT token and the caller's prefix
        for p in res.body_paths('While#1') + res.paths:
            for e in p.events('list_objects'):
                n_req += 1
                kw = e.data['kwargs']
                res.oblige(p.pc_at(e), f'{prop}.s3.list_files.page_requested_with_prefix', sym.lift(kw['prefix'], STR).z == b.st.lookup('prefix').z)
                if '$start_While#1' in p.st.ghost:
                    tk = p.st.ghost['$start_While#1']['continuation_token']
                    got = kw['continuation_token']
                    res.oblige(p.pc_at(e), f'{prop}.s3.list_files.page_requested_with_current_token',
                               sym.lift(got, Opt(STR)).z == sym.lift(tk, Opt(STR)).z if got is not None and tk is not None
                               else z3.BoolVal(got is tk))
        # event loop body: yields exactly the Key texts; stops on IsTruncated=false; follows NextContinuationToken
        for p in res.body_paths('For#1'):
            st = p.st
            if p.kind not in ('normal', 'continue'):
                continue
            n_ev += 1
            el = st.lookup('element')
            tag = sym.lift(st.lookup('tag'), STR).z
            text = UF('xml_text', ELEM, Opt(STR))(el.z)
            ys = p.events('yield')
            is_key = tag == S('Key')
            res.oblige(p, f'{prop}.s3.list_files.yields_exactly_keys', z3.BoolVal(bool(ys)) == is_key if False else
                       (is_key if ys else z3.Not(is_key)))
            for y in ys:
                res.oblige(p.pc_at(y), f'{prop}.s3.list_files.yielded_value_is_key_text',
                           sym.lift(y.data['value'], Opt(STR)).z == text)
            start = st.ghost['$start_For#1']
            tr0, tr1 = start['is_truncated'], st.lookup('is_truncated')
            z0 = tr0.z if isinstance(tr0, SV) else z3.BoolVal(tr0)
            z1 = tr1.z if isinstance(tr1, SV) else z3.BoolVal(tr1)
            last_page = z3.And(tag == S('IsTruncated'), z3.Not(Opt(STR).is_none(text)), Opt(STR).val(text) == S('false'))
            # listing stops exactly when the page says IsTruncated=false
            res.oblige(p, f'{prop}.s3.list_files.stops_only_on_istruncated_false', z1 == z3.And(z0, z3.Not(last_page)))
            tk0, tk1 = start['continuation_token'], st.lookup('continuation_token')
            t0z = sym.lift(tk0, Opt(STR)).z if tk0 is not None else Opt(STR).none()
            t1z = sym.lift(tk1, Opt(STR)).z if tk1 is not None else Opt(STR).none()
            # the next page is requested with this page's NextContinuationToken
            res.oblige(p, f'{prop}.s3.list_files.follows_next_continuation_token', t1z == z3.If(
                z3.And(tag == S('NextContinuationToken'), z3.Not(last_page)), text, t0z))
        # between the end of a page and the next request NOTHING else decides about continuing: what the page's IsTruncated /
        # NextContinuationToken elements said is what the next iteration of the page loop sees (a short page is not a last page)
        n_pages = 0
        for p in res.body_paths('While#1'):
            if p.kind not in ('normal', 'continue') or '$exit_For#1' not in p.st.ghost:
                continue
            n_pages += 1
            after_page = p.st.ghost['$exit_For#1']
            for var, ty in (('is_truncated', BOOL), ('continuation_token', Opt(STR))):
                a, c = after_page.get(var), p.st.lookup(var)
                same = (a is c) or (a is not None and c is not None and not isinstance(a, bool) and not isinstance(c, bool)
                                     and isinstance(a, SV) and isinstance(c, SV) and z3.eq(a.z, c.z)) or (isinstance(a, bool) and isinstance(c, bool) and a == c)
                res.oblige(p, f'{prop}.s3.list_files.continuation_decided_by_the_page_alone[{var}]',
                           z3.BoolVal(True) if same else (sym.lift(a, ty).z == sym.lift(c, ty).z if a is not None and c is not None else z3.BoolVal(False)))
        res.oblige([], f'{prop}.s3.list_files.sites_checked', z3.BoolVal(n_req >= 1 and n_ev >= 3 and n_pages >= 1))
    return post


def list_files_loops():
    def inv_outer(ctx):
        return z3.BoolVal(True)

    def inv_events(ctx):
        E = ctx.entry
        st = ctx.st
        # within one page: is_truncated can only go from True to False; it is False only if an
        # IsTruncated=false element was seen (stated per event in the post)
        return z3.Implies(z3.Not(E.lookup('is_truncated').z if isinstance(E.lookup('is_truncated'), SV) else z3.BoolVal(E.lookup('is_truncated'))),
                          z3.BoolVal(True))

    t = lambda ctx: z3.BoolVal(True)
    return {
        'While#1': LoopSpec(t, modifies=['is_truncated', 'continuation_token'], name='While#1',
                            types={'continuation_token': Opt(STR), 'is_truncated': BOOL}),
        'AsyncFor#1': LoopSpec(t, modifies=[], name='AsyncFor#1'),
        'For#1': LoopSpec(t, modifies=['is_truncated', 'continuation_token'], name='For#1'),
    }


def list_units(prop):
    return [
        Unit(f'{prop}.s3.list_objects', S3C_PY, 'S3Compatible._list_objects', list_objects_setup, list_objects_post(prop), prop=prop),
        Unit(f'{prop}.s3.list_files', S3C_PY, 'S3Compatible.list_files', list_files_setup, list_files_post(prop),
             loops=list_files_loops(), local_types={'continuation_token': Opt(STR), 'is_truncated': BOOL}, prop=prop),
    ]


# ------------------------------------------------------------------ constructors: what the signer later reads is what the caller gave
def ctor_setup(b):
    me = Obj('self')
    me._settable = ('bucket_name', 'key_id', 'access_key', 'region', 'host', 'scheme', 'url', '_client')
    b.bind('self', me)
    for nm in ('connection_string', 'key_id', 'access_key', 'region', 'host', 'scheme'):
        b.sym(nm, STR)

    def client(interp, st, args, kwargs):
        st.emit('AsyncClient', kwargs=dict(kwargs))
        yield st, Obj('client')

    b.bind('httpx', Obj('httpx', AsyncClient=Model('AsyncClient', client)))
    b.bind('_raise_for_status_hook', Obj('_raise_for_status_hook'))

    def super_(interp, st, args, kwargs):
        def init(i2, s2, a2, k2):
            s2.emit('super_init', args=list(a2), kwargs=dict(k2))
            yield s2, None
        yield st, Obj('super', __init__=Model('__init__', init))

    b.bind('super', Model('super', super_))


def s3c_ctor_post(prop):
    def post(res):
        b = res.builder
        g = lambda n: b.st.lookup(n).z
        for p in res.paths:
            if p.kind not in ('normal', 'return'):
                res.oblige(p, f'{prop}.s3c.ctor.total', z3.BoolVal(False))
                continue
            last = {}
            for e in p.events('setattr'):
                last[e.data['name']] = e.data['value']
            want = {'bucket_name': g('connection_string'), 'key_id': g('key_id'), 'access_key': g('access_key'), 'region': g('region'),
                    'host': g('host'), 'scheme': g('scheme'), 'url': z3.Concat(g('scheme'), S('://'), g('host'))}
            ok = all(k in last and isinstance(last[k], (SV, str)) for k in want)
            # credentials, region, host and scheme are stored as given; the request URL base is scheme://host (the signed host)
            res.oblige(p, f'{prop}.s3c.ctor.fields_are_the_arguments', z3.BoolVal(ok) if not ok else z3.And(
                *[sym.lift(last[k], STR).z == w for k, w in want.items()]))
            cl = p.events('AsyncClient')
            hooks = cl[0].data['kwargs'].get('event_hooks') if len(cl) == 1 else None
            hooks = res.interp.deref(p.st, ops.resolve(p.st, hooks)) if hooks is not None else None
            ok2 = isinstance(hooks, dict) and 'response' in hooks
            if ok2:
                lst = res.interp.deref(p.st, ops.resolve(p.st, hooks['response']))
                ok2 = isinstance(lst, list) and any(x is b.st.lookup('_raise_for_status_hook') for x in lst)
            # error statuses become exceptions (the retry / propagation contracts of C12 rest on it)
            res.oblige(p, f'{prop}.s3c.ctor.error_statuses_raise', z3.BoolVal(bool(ok2)))
            # ... and the client never makes requests up by itself (redirects followed by httpx are unsigned or carry the old signature)
            kw = cl[0].data['kwargs'] if len(cl) == 1 else {'follow_redirects': True}
            res.oblige(p, f'{prop}.s3c.ctor.client_sends_only_signed_requests', z3.BoolVal(
                kw.get('follow_redirects', False) is False and kw.get('auth', None) is None))
    return post


def s3_ctor_post(prop):
    def post(res):
        b = res.builder
        g = lambda n: b.st.lookup(n).z
        for p in res.paths:
            si = p.events('super_init')
            ok = p.kind in ('normal', 'return') and len(si) == 1 and len(si[0].data['args']) == 1 and set(si[0].data['kwargs']) == {'key_id', 'access_key', 'region', 'host'}
            res.oblige(p, f'{prop}.s3.ctor.delegates_once', z3.BoolVal(ok))
            if ok:
                kw = si[0].data['kwargs']
                # AWS: the regional endpoint s3.<region>.amazonaws.com, everything else passed through
                res.oblige(p, f'{prop}.s3.ctor.regional_endpoint_and_pass_through', z3.And(
                    sym.lift(si[0].data['args'][0], STR).z == g('connection_string'),
                    sym.lift(kw['key_id'], STR).z == g('key_id'), sym.lift(kw['access_key'], STR).z == g('access_key'),
                    sym.lift(kw['region'], STR).z == g('region'),
                    sym.lift(kw['host'], STR).z == z3.Concat(S('s3.'), g('region'), S('.amazonaws.com'))))
    return post


def ctor_units(prop):
    return [Unit(f'{prop}.s3c.ctor', S3C_PY, 'S3Compatible.__init__', ctor_setup, s3c_ctor_post(prop), prop=prop),
            Unit(f'{prop}.s3.ctor', 'replicat/backends/s3.py', 'S3.__init__', ctor_setup, s3_ctor_post(prop), prop=prop)]


# ------------------------------------------------------------------ _make_request / _make_streaming_request / the response hook:
# only requests built (= signed) by _prepare_request leave the client, and no answer other than success is taken for one
def make_request_setup(b):
    me = Obj('self')
    b.me = me
    b.bind('self', me)
    P = {n: Obj(f'<{n}>') for n in ('method', 'canonical_uri', 'query', 'payload_digest', 'headers')}
    b.P = P
    for n, v in P.items():
        b.bind(n, v)
    b.bind('kwargs', b.st.new_py('dict', {}))
    b.request = Obj('<signed request>')
    b.response = sym.fresh(RESP, 'response')

    def prepare(interp, st, args, kwargs):
        st.emit('prepare', args=list(args), kwargs=dict(kwargs))
        yield st, b.request

    def send(interp, st, args, kwargs):
        bad = st.copy()
        bad.emit('send_failed')
        yield bad, Raised(Exc('HTTPError'))
        st.emit('send', args=list(args), kwargs=dict(kwargs))
        yield st, b.response

    me._attrs['_prepare_request'] = Model('_prepare_request', prepare)
    me._attrs['_client'] = Obj('client', send=Model('send', send))
    RESP.attrs = {'aclose': MethodModel('aclose', lambda i, s, a, k: (s.emit('aclose'), iter([(s, None)]))[1])}


def make_request_post(prop, which):
    def post(res):
        b = res.builder
        n = 0
        for p in res.all_paths() if hasattr(res, 'all_paths') else res.paths:
            for e in p.events('send'):
                n += 1
                pr = p.events('prepare')
                ok = (len(pr) == 1 and len(e.data['args']) == 1 and e.data['args'][0] is b.request and not pr[0].data['args'][2:]
                      and pr[0].data['args'][0] is b.P['method'] and pr[0].data['args'][1] is b.P['canonical_uri']
                      and pr[0].data['kwargs'].get('query') is b.P['query'] and pr[0].data['kwargs'].get('payload_digest') is b.P['payload_digest']
                      and pr[0].data['kwargs'].get('headers') is b.P['headers'])
                res.oblige(p.pc_at(e), f'{prop}.s3.{which}.sends_the_request_prepare_request_signed', z3.BoolVal(bool(ok)))
                kw = e.data['kwargs']
                # the client itself never builds a request: a followed redirect is a request httpx makes up (Authorization stripped or
                # copied from the old path), and authentication is entirely in the signed headers
                allowed = {'stream'} if which == 'make_streaming_request' else set()
                plain = set(kw) <= allowed | {'follow_redirects', 'auth'} and kw.get('follow_redirects', False) is False and kw.get('auth', None) is None
                res.oblige(p.pc_at(e), f'{prop}.s3.{which}.no_request_is_made_up_by_the_client', z3.BoolVal(bool(plain)))
        res.oblige([], f'{prop}.s3.{which}.send_sites_checked', z3.BoolVal(n >= 1))
    return post


def hook_setup(b):
    b.bind('httpx', Obj('httpx', HTTPStatusError=shared.ExcClass('HTTPStatusError'), HTTPError=shared.ExcClass('HTTPError')))
    R2 = models.opaque_type('HookResponse')
    b.R2 = R2

    def raise_for_status(interp, st, args, kwargs):
        # httpx: raises HTTPStatusError for every answer that is not a success (1xx, 3xx, 4xx, 5xx)
        bad = st.copy()
        bad.emit('not_a_success')
        yield bad, Raised(Exc('HTTPStatusError', attrs={'response': args[0], 'args': ()}))
        st.emit('success')
        yield st, None

    flag = lambda nm: Property(lambda i, s, v: iter([(s, sym.fresh(BOOL, nm))]))
    R2.attrs = {'raise_for_status': MethodModel('raise_for_status', raise_for_status),
                'aread': MethodModel('aread', lambda i, s, a, k: iter([(s, sym.fresh(BYTES, 'error_body'))])),
                'has_redirect_location': flag('has_redirect_location'), 'is_redirect': flag('is_redirect'), 'is_success': flag('is_success'),
                'is_error': flag('is_error'), 'status_code': Property(lambda i, s, v: iter([(s, sym.fresh(INT, 'status_code'))])),
                'is_client_error': flag('is_client_error'), 'is_server_error': flag('is_server_error')}
    b.bind('response', sym.fresh(R2, 'response'))


def hook_post(prop):
    def post(res):
        n = 0
        for p in res.paths:
            rs, ok = p.events('not_a_success'), p.events('success')
            if p.kind in ('return', 'normal'):
                n += 1
                # the hook lets a response through only after raise_for_status accepted it: redirects, client and server errors
                # all surface as HTTPStatusError (what the retry and the 404 / 403 handling of the adapter are written against)
                res.oblige(p, f'{prop}.s3.hook.only_successful_answers_pass', z3.BoolVal(bool(ok) and not rs))
            elif rs:
                res.oblige(p, f'{prop}.s3.hook.failure_is_the_status_error', z3.BoolVal(p.kind == 'raise' and p.value.cls == 'HTTPStatusError'))
        res.oblige([], f'{prop}.s3.hook.paths_checked', z3.BoolVal(n >= 1))
    return post


def request_units(prop):
    return [Unit(f'{prop}.s3.make_request', S3C_PY, 'S3Compatible._make_request', make_request_setup, make_request_post(prop, 'make_request'), prop=prop),
            Unit(f'{prop}.s3.make_streaming_request', S3C_PY, 'S3Compatible._make_streaming_request', make_request_setup,
                 make_request_post(prop, 'make_streaming_request'), contextmanager=True, prop=prop),
            Unit(f'{prop}.s3.raise_for_status_hook', S3C_PY, '_raise_for_status_hook', hook_setup, hook_post(prop), prop=prop)]
