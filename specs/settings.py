"""C17: accepted settings imply the preconditions of every later use (adapter constructors, init ordering)."""
from __future__ import annotations

import z3

from vf import sym, models, ops, source
from vf.sym import SV, INT, BOOL, REAL, STR, BYTES, Opt
from vf.interp import Model, Raised, Exc, Obj, LoopSpec
from vf.unit import Unit, Lemma
from vf.ops import MethodModel
from specs import shared
from specs.shared import ADAPTERS_PY, UF


class Settable(Obj):
    """`self` of a constructor: attribute stores are recorded"""

    def __init__(self):
        super().__init__('self')
        self.stored = {}

    def vf_getattr(self, interp, st, name):
        if ('attr', name) in st.ghost:
            yield st, st.ghost[('attr', name)]
        elif name in self._attrs:
            yield st, self._attrs[name]
        else:
            raise sym.Unsupported(f'self.{name} read before assignment')


def _setattr_hook():
    from vf import ops as _ops
    orig = _ops.setattr_

    def setattr_(interp, st, o, name, v):
        if isinstance(o, Settable):
            st.ghost[('attr', name)] = v
            st.emit('setattr', name=name, value=v)
            return
        return orig(interp, st, o, name, v)
    _ops.setattr_ = setattr_


_setattr_hook()


def ctor_setup(params, extra=None):
    def setup(b):
        me = Settable()
        b.bind('self', me)
        b.me = me
        for name, ty in params.items():
            b.sym(name, ty)
        HL = Obj('hashlib', blake2b=Obj('blake2b', MAX_DIGEST_SIZE=64, SALT_SIZE=16, MAX_KEY_SIZE=64))
        b.bind('hashlib', HL)
        def getattr_(interp, st, args, kwargs):
            st.emit('attribute_lookup', obj=args[0], name=args[1], nargs=len(args))
            yield st, Obj('hashclass')

        b.HL = HL
        b.bind('getattr', Model('getattr', getattr_))
        b.bind('super', Model('super', lambda i, s, a, k: iter([(s, Obj('super', __init__=Model('init', lambda i2, s2, a2, k2: iter([(s2, None)]))))])))
        if extra:
            extra(b)
    return setup


def chunker_ctor_post(prop, shape):
    def post(res):
        b = res.builder
        mn, mx = b.st.lookup('min_length'), b.st.lookup('max_length')
        if shape != 'int':
            res.oblige([], f'{prop}.chunker_ctor[{shape}].rejected_on_every_path', z3.BoolVal(all(p.kind == 'raise' for p in res.paths)))
        for p in res.paths:
            if p.kind in ('normal', 'return'):
                if shape != 'int':
                    # C17.chunker.productive: non-integer lengths are never accepted
                    res.oblige(p, f'{prop}.chunker_ctor[{shape}].non_integers_rejected', z3.BoolVal(False))
                else:
                    # accepted => 1 <= min <= max: the premise under which the chunker is lossless (C10)
                    res.oblige(p, f'{prop}.chunker_ctor[int].accepted_implies_productive_bounds',
                               z3.And(1 <= mn.z, mn.z <= mx.z))
                    st_ = {e.data['name']: e.data['value'] for e in p.events('setattr')}
                    res.oblige(p, f'{prop}.chunker_ctor[int].stores_the_validated_values', z3.BoolVal(
                        st_.get('min_length') is mn and st_.get('max_length') is mx))
            elif p.kind == 'raise':
                res.oblige(p, f'{prop}.chunker_ctor[{shape}].rejection_is_a_ValueError', z3.BoolVal(p.value.cls == 'ValueError'), tag='helper')
    return post


def blake2b_ctor_post(prop, shape):
    def post(res):
        b = res.builder
        ln = b.st.lookup('length')
        if shape != 'int':
            res.oblige([], f'{prop}.blake2b_ctor[{shape}].rejected_on_every_path', z3.BoolVal(all(p.kind == 'raise' for p in res.paths)))
        for p in res.paths:
            if p.kind in ('normal', 'return'):
                if shape != 'int':
                    res.oblige(p, f'{prop}.blake2b_ctor[{shape}].non_integers_rejected', z3.BoolVal(False))
                else:
                    # C17.dep_pre.blake2b: accepted => hashlib's precondition 1 <= digest_size <= 64
                    res.oblige(p, f'{prop}.blake2b_ctor[int].accepted_implies_hashlib_precondition', z3.And(1 <= ln.z, ln.z <= 64))
    return post


def bits_ctor_post(prop, name, allowed):
    def post(res):
        b = res.builder
        bits = b.st.lookup('bits' if name != 'aes_gcm' else 'key_bits')
        for p in res.paths:
            if p.kind in ('normal', 'return'):
                res.oblige(p, f'{prop}.{name}_ctor.accepted_implies_supported_size', z3.Or(*[bits.z == a for a in allowed]))
                if name in ('sha2', 'sha3'):
                    # the hashlib constructor is resolved AT CONSTRUCTION (no default: a name hashlib does not have raises here), so a
                    # value that merely compares equal to a supported size (256.0, True) is rejected by init before anything is stored
                    lk = p.events('attribute_lookup')
                    ok = len(lk) == 1 and lk[0].data['obj'] is b.HL and lk[0].data['nargs'] == 2
                    prefix = 'sha' if name == 'sha2' else 'sha3_'
                    res.oblige(p, f'{prop}.{name}_ctor.hash_constructor_resolved_at_construction', z3.BoolVal(ok) if not ok else
                               sym.lift(lk[0].data['name'], STR).z == z3.Concat(z3.StringVal(prefix), UF('str_of_int', INT, STR)(bits.z)))
    return post


def ctor_units(prop):
    out = []
    for shape, tys in (('int', (INT, INT)), ('float_min', (REAL, INT)), ('str_max', (INT, STR))):
        out.append(Unit(f'{prop}.gclmulchunker_ctor[{shape}]', ADAPTERS_PY, 'gclmulchunker.__init__',
                        ctor_setup({'min_length': tys[0], 'max_length': tys[1]}), chunker_ctor_post(prop, shape), prop=prop))
        if shape == 'int':
            out[-1].native = ('chunker_ctor',)          # scalar parameters: a counter-model is replayed on the real constructor
    for shape, ty in (('int', INT), ('str', STR), ('float', REAL)):
        out.append(Unit(f'{prop}.blake2b_ctor[{shape}]', ADAPTERS_PY, 'blake2b.__init__', ctor_setup({'length': ty}),
                        blake2b_ctor_post(prop, shape), prop=prop))
        if shape == 'int':
            out[-1].native = ('blake2b_ctor',)
    out.append(Unit(f'{prop}.sha2_ctor', ADAPTERS_PY, 'sha2.__init__', ctor_setup({'bits': INT}), bits_ctor_post(prop, 'sha2', (224, 256, 384, 512)), prop=prop))
    out.append(Unit(f'{prop}.sha3_ctor', ADAPTERS_PY, 'sha3.__init__', ctor_setup({'bits': INT}), bits_ctor_post(prop, 'sha3', (224, 256, 384, 512)), prop=prop))
    out.append(Unit(f'{prop}.aes_gcm_ctor', ADAPTERS_PY, 'aes_gcm.__init__', ctor_setup({'key_bits': INT, 'nonce_bits': INT}),
                    bits_ctor_post(prop, 'aes_gcm', (128, 192, 256)), prop=prop))
    for u in out[-3:]:
        u.native = ('bits_ctor', {'__class__': u.selector.split('.')[0]})
    return out


def key_lemma(prop):
    """C17.key.unlocks_own: from the contracts of _add_key/init (private = ENC(ser(private), KDF_user(w, salt))) and
    _instantiate_key (opens with KDF_user(password, salt)) + A-aead: own password opens, the result is the same private section"""
    def build(add):
        from specs.shared import ENC, DEC
        from specs.keys import user_kdf, KDFCFG
        w, salt, n, sp = z3.Strings('w salt nonce ser_private')
        cfg = z3.Const('cfg', KDFCFG.sort())
        uk = user_kdf(w, salt, cfg)
        stored = ENC()(sp, uk, n)
        add('own_password_opens_own_key', [DEC()(stored, uk) == sp], DEC()(stored, user_kdf(w, salt, cfg)) == sp)
    return Lemma(f'{prop}.lemma.key', build, prop=prop)
