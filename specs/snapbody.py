"""Snapshot loading/encoding: _load_snapshots::_download_snapshot, _decrypt_snapshot_body,
_encrypt_snapshot_body (C02, C04, C05, C06, C14, C15)."""
from __future__ import annotations

import z3

from vf import sym, models, ops
from vf.sym import SV, INT, BOOL, STR, BYTES, Opt
from vf.interp import Model, Raised, Exc, Obj, PyRef
from vf.unit import Unit, Lemma
from vf.ops import MethodModel
from specs import shared
from specs.shared import REPO_PY, UF, H, MAC, KDF, ENC, DEC, snap_name, snap_tag

# JSON values as produced by serialize/deserialize (assumed inverse on the JSON domain, with the
# repo's bytes hook: C14.json.bytes_tag is its own unit)
JV = models.opaque_type('JV')


def jv_bytes(z):
    return UF('jv_bytes', JV, BYTES)(z)


def jv_of_bytes(z):
    return UF('jv_of_bytes', BYTES, JV)(z)


def _jv_coerce(sv, ty):
    if ty == BYTES:
        return SV(BYTES, jv_bytes(sv.z))
    return None


JV.coerce_to = _jv_coerce


def ser(z):
    return UF('ser', JV, BYTES)(z)           # serialize: JSON value -> bytes


def deser(z):
    return UF('deser', BYTES, JV)(z)


def jget(z, key):
    return UF(f'jget_{key}', JV, JV)(z)


def jobj2(a, b):
    return UF('jobj_chunks_data', JV, JV, JV)(a, b)   # {'chunks': a, 'data': b}


REGEX = models.opaque_type('Regex')
MATCH = models.opaque_type('Match')


def re_search(p, s):
    return UF('re_search', REGEX, STR, Opt(MATCH))(p, s)


REGEX.attrs = {'search': MethodModel('search', lambda i, st, a, k: iter(
    [(st, SV(Opt(MATCH), re_search(a[0].z, sym.lift(a[1], STR).z)))]))}


# ------------------------------------------------------------------ _download_snapshot
def dl_setup(b):
    me = shared.repo_self(b)
    b.me = me
    b.sym('path', STR)
    b.sym('snapshot_re', Opt(REGEX))
    b.bind('loop', Obj('loop'))

    def threadsafe(interp, st, args, kwargs):
        st.emit('load', path=args[0], digest=args[1])
        yield st, SV(shared.BODY, UF('loaded_body', STR, BYTES, shared.BODY)(sym.lift(args[0], STR).z, sym.lift(args[1], BYTES).z))

    me._attrs.update({
        'parse_snapshot_location': shared.parse_snapshot_location_model(),
        '_download_snapshot_threadsafe': Model('_download_snapshot_threadsafe', threadsafe),
    })


def dl_post(prop):
    def post(res):
        b = res.builder
        path = b.st.lookup('path').z
        rx = b.st.lookup('snapshot_re')
        fh = UF('fromhex', STR, BYTES)
        name, tag = snap_name(path), snap_tag(path)
        filtered = z3.And(z3.Not(rx.ty.is_none(rx.z)), Opt(MATCH).is_none(re_search(rx.ty.val(rx.z), name)))
        for p in res.paths:
            view = shared.PropsView(p.st, b.me.props)
            foreign = z3.And(view.encrypted, view.mac(fh(name)) != fh(tag))
            loads = p.events('load')
            sig = p.kind + (':' + p.value.cls if p.kind == 'raise' else '') + f'/{len(loads)}'
            for e in loads:
                pc = p.pc_at(e)
                # C04: the digest a body is verified against is the name of the very path being loaded
                res.oblige(pc, f'{prop}.load.expected_digest_is_name[{sig}]', z3.And(
                    sym.lift(e.data['digest'], BYTES).z == fh(name), sym.lift(e.data['path'], STR).z == path))
                # C02/C06: bodies of another key family are never loaded
                res.oblige(pc, f'{prop}.load.own_family_only[{sig}]', z3.Not(foreign))
                # C15: the snapshot filter is applied to the printed name
                res.oblige(pc, f'{prop}.load.filter_on_name[{sig}]', z3.Not(filtered))
            if p.kind == 'return':
                if p.value is None:
                    res.oblige(p, f'{prop}.load.skipped_only_if_filtered_or_foreign[{sig}]', z3.Or(filtered, foreign))
                    res.oblige(p, f'{prop}.load.skip_without_download[{sig}]', z3.BoolVal(not loads))
                else:
                    res.oblige(p, f'{prop}.load.returned_body_is_loaded[{sig}]', z3.BoolVal(len(loads) == 1))
        res.oblige([], f'{prop}.load.paths', z3.BoolVal(len(res.paths) >= 3))
    return post


def download_snapshot_unit(prop):
    return Unit(f'{prop}.download_snapshot', REPO_PY, 'Repository._load_snapshots._download_snapshot', dl_setup,
                dl_post(prop), prop=prop)


# ------------------------------------------------------------------ _decrypt_snapshot_body
def body_setup(b):
    me = shared.repo_self(b)
    b.me = me

    def deserialize(interp, st, args, kwargs):
        z = sym.lift(args[0], BYTES).z
        st.emit('deserialize', data=args[0])
        fail = st.copy()
        yield fail, Raised(Exc('JSONDecodeError'))
        j = deser(z)
        if st.ghost.get('top_level_done'):
            yield st, SV(JV, j)
        else:
            st.ghost['top_level_done'] = True
            yield st, st.new_py('dict', {'chunks': SV(JV, jget(j, 'chunks')), 'data': SV(JV, jget(j, 'data'))})

    def serialize(interp, st, args, kwargs):
        v = ops.resolve(st, args[0])
        if isinstance(v, PyRef) and v.kind == 'dict':
            d = interp.deref(st, v)
            if set(d) != {'chunks', 'data'}:
                raise sym.Unsupported('serialize of dict with other keys')
            z = jobj2(to_jv(interp, st, d['chunks']).z, to_jv(interp, st, d['data']).z)
        else:
            z = to_jv(interp, st, v).z
        st.emit('serialize', value=args[0], jv=SV(JV, z))
        yield st, SV(BYTES, ser(z))

    me._attrs.update({'deserialize': Model('deserialize', deserialize), 'serialize': Model('serialize', serialize)})


def to_jv(interp, st, v):
    v = ops.resolve(st, v)
    if isinstance(v, SV) and v.ty == JV:
        return v
    if isinstance(v, SV) and v.ty == BYTES:
        return SV(JV, jv_of_bytes(v.z))
    raise sym.Unsupported(f'to_jv {v!r}')


def decrypt_body_setup(b):
    body_setup(b)
    b.sym('contents', BYTES)


def decrypt_body_post(prop):
    def post(res):
        b = res.builder
        c = b.st.lookup('contents').z
        j = deser(c)
        data_f, chunks_f = jv_bytes(jget(j, 'data')), jv_bytes(jget(j, 'chunks'))
        Hf = H()
        for p in res.paths:
            view = shared.PropsView(p.st, b.me.props)
            dec = p.events('decrypt_ok') + p.events('decrypt_failed')
            sig = ','.join(e.kind for e in p.st.events if e.kind.startswith('decrypt')) + '->' + p.kind + (
                ':' + p.value.cls if p.kind == 'raise' else '')
            table = [e for e in dec if z3.is_true(z3.simplify(sym.lift(e.data['data'], BYTES).z == chunks_f))]
            priv = [e for e in dec if z3.is_true(z3.simplify(sym.lift(e.data['data'], BYTES).z == data_f))]
            for e in table:
                # the chunk table is bound to the private part: key = KDF(shared, ctx = H(body['data']))
                res.oblige(p.pc_at(e), f'{prop}.body.table_key_bound_to_data[{sig}]',
                           sym.lift(e.data['key'], BYTES).z == view.subkey(Hf(data_f)))
            for e in priv:
                res.oblige(p.pc_at(e), f'{prop}.body.data_key_is_userkey[{sig}]',
                           sym.lift(e.data['key'], BYTES).z == view.userkey)
            for e in dec:
                res.oblige(p.pc_at(e), f'{prop}.body.decrypts_only_own_fields[{sig}]', z3.BoolVal(e in table or e in priv))
            failed_table = [e for e in table if e.kind == 'decrypt_failed']
            failed_priv = [e for e in priv if e.kind == 'decrypt_failed']
            if failed_table:
                # a damaged chunk table is never swallowed
                res.oblige(p, f'{prop}.body.table_failure_propagates[{sig}]', z3.BoolVal(p.kind == 'raise'))
            if p.kind == 'return':
                r = p.value
                d = interp_deref(res, p, r)
                if failed_priv:
                    # C06: a shared-key user of another owner sees the table but not the file data
                    res.oblige(p, f'{prop}.body.foreign_data_is_none[{sig}]', z3.BoolVal(d['data'] is None))
                elif priv:
                    res.oblige(p, f'{prop}.body.data_is_decrypted_private_part[{sig}]',
                               z3.And(view.encrypted, d['data'].z == deser(DEC()(data_f, view.userkey))))
                    res.oblige(p, f'{prop}.body.chunks_is_decrypted_table[{sig}]',
                               d['chunks'].z == deser(DEC()(chunks_f, view.subkey(Hf(data_f)))))
                else:
                    res.oblige(p, f'{prop}.body.unencrypted_passthrough[{sig}]', z3.And(
                        z3.Not(view.encrypted), d['data'].z == jget(j, 'data'), d['chunks'].z == jget(j, 'chunks')))
    return post


def interp_deref(res, p, r):
    return res.interp.deref(p.st, r)


def decrypt_body_unit(prop):
    return Unit(f'{prop}.decrypt_snapshot_body', REPO_PY, 'Repository._decrypt_snapshot_body', decrypt_body_setup,
                decrypt_body_post(prop), prop=prop)


# ------------------------------------------------------------------ _encrypt_snapshot_body
def encrypt_body_setup(b):
    body_setup(b)
    b.st.ghost['top_level_done'] = True
    ch, da = b.sym('sb_chunks', JV, bind=False), b.sym('sb_data', JV, bind=False)
    b.bind('snapshot_body', b.st.new_py('dict', {'chunks': ch, 'data': da}))
    b.ch, b.da = ch, da


def encrypt_body_post(prop):
    def post(res):
        b = res.builder
        Hf = H()
        for p in res.paths:
            view = shared.PropsView(p.st, b.me.props)
            if p.kind != 'return':
                res.oblige(p, f'{prop}.encbody.total', z3.BoolVal(False))
                continue
            encs = p.events('encrypt')
            out = sym.lift(p.value, BYTES).z
            if encs:
                res.oblige(p, f'{prop}.encbody.two_encryptions', z3.BoolVal(len(encs) == 2))
                if len(encs) != 2:
                    continue
                e_data, e_chunks = encs
                E = e_data.data['result'].z
                T = e_chunks.data['result'].z
                # documented scheme (C14.snapshot.body)
                res.oblige(p, f'{prop}.encbody.data_is_enc_of_ser_data_under_userkey', z3.And(
                    view.encrypted,
                    sym.lift(e_data.data['data'], BYTES).z == ser(b.da.z),
                    sym.lift(e_data.data['key'], BYTES).z == view.userkey))
                res.oblige(p, f'{prop}.encbody.table_is_enc_of_ser_chunks_under_subkey_of_H_E', z3.And(
                    sym.lift(e_chunks.data['data'], BYTES).z == ser(b.ch.z),
                    sym.lift(e_chunks.data['key'], BYTES).z == view.subkey(Hf(E))))
                res.oblige(p, f'{prop}.encbody.result_is_ser_of_ciphertexts',
                           out == ser(jobj2(jv_of_bytes(T), jv_of_bytes(E))))
                # C05: distinct nonces for the two ciphertexts; no plaintext in the stored object
                res.oblige(p, f'{prop}.encbody.nonces_distinct_terms',
                           z3.BoolVal(not e_data.data['nonce'].z.eq(e_chunks.data['nonce'].z)))
            else:
                res.oblige(p, f'{prop}.encbody.unencrypted_is_plain_serialization',
                           z3.And(z3.Not(view.encrypted), out == ser(jobj2(b.ch.z, b.da.z))))
    return post


def encrypt_body_unit(prop):
    return Unit(f'{prop}.encrypt_snapshot_body', REPO_PY, 'Repository._encrypt_snapshot_body', encrypt_body_setup,
                encrypt_body_post(prop), prop=prop)


def reader_inverse_lemma(prop):
    """decrypt(encrypt(body)) = body for the owner, from the two contracts + A-aead + json inverse"""
    def build(add):
        ch, da = z3.Consts('ch da', JV.sort())
        uk, sk, kp, n1, n2 = z3.Strings('uk sk kp n1 n2')
        Hf, K, E_, D_ = H(), KDF(), ENC(), DEC()
        E = E_(ser(da), uk, n1)
        T = E_(ser(ch), K(sk, Hf(E), kp), n2)
        stored = ser(jobj2(jv_of_bytes(T), jv_of_bytes(E)))
        j = deser(stored)
        ax = [
            # json round trip (assumed, audited): deser(ser(x)) = x; field access; bytes tagging
            deser(stored) == jobj2(jv_of_bytes(T), jv_of_bytes(E)),
            jget(jobj2(jv_of_bytes(T), jv_of_bytes(E)), 'chunks') == jv_of_bytes(T),
            jget(jobj2(jv_of_bytes(T), jv_of_bytes(E)), 'data') == jv_of_bytes(E),
            jv_bytes(jv_of_bytes(T)) == T, jv_bytes(jv_of_bytes(E)) == E,
            deser(ser(da)) == da, deser(ser(ch)) == ch,
            # A-aead correctness
            D_(E, uk) == ser(da), D_(T, K(sk, Hf(E), kp)) == ser(ch),
        ]
        data_f, chunks_f = jv_bytes(jget(j, 'data')), jv_bytes(jget(j, 'chunks'))
        add('owner_reads_back_data', ax, deser(D_(data_f, uk)) == da)
        add('owner_reads_back_chunks', ax, deser(D_(chunks_f, K(sk, Hf(data_f), kp))) == ch)
    return Lemma(f'{prop}.lemma.reader_inverse', build, prop=prop)


# ------------------------------------------------------------------ _compile_or_none
def compile_setup(b):
    shared.repo_self(b)
    b.sym('pattern', Opt(STR))

    def compile_(interp, st, args, kwargs):
        st.emit('re_compile', args=list(args), kwargs=dict(kwargs))
        pat = ops.unwrap_opt(interp, st, args[0], 'pattern') if isinstance(args[0], SV) and isinstance(args[0].ty, Opt) else args[0]
        yield st, SV(REGEX, UF('re_compile', STR, REGEX)(sym.lift(pat, STR).z))

    re_ = Obj('re', compile=Model('re.compile', compile_))
    re_._lenient = True
    b.bind('re', re_)


def compile_post(prop):
    def post(res):
        pat = res.builder.st.lookup('pattern')
        for p in res.paths:
            ev = p.events('re_compile')
            if p.kind != 'return':
                res.oblige(p, f'{prop}.compile.total', z3.BoolVal(False))
                continue
            # the filter is the caller's regular expression as written: compiled once, with no flags that change what
            # it matches (case, multi-line, ...); None stays None (no filter)
            if ev:
                e = ev[0]
                flags = e.data['args'][1] if len(e.data['args']) > 1 else e.data['kwargs'].get('flags', 0)
                res.oblige(p, f'{prop}.compile.pattern_as_given_without_flags', z3.And(
                    z3.BoolVal(len(ev) == 1 and isinstance(flags, int) and flags == 0 and len(e.data['args']) <= 2),
                    z3.Not(pat.ty.is_none(pat.z)), z3.BoolVal(e.data['args'][0] is pat),
                    z3.BoolVal(isinstance(p.value, SV) and p.value.ty == REGEX)))
            else:
                res.oblige(p, f'{prop}.compile.none_means_no_filter', z3.And(pat.ty.is_none(pat.z), z3.BoolVal(p.value is None)))
    return post


def compile_unit(prop):
    return Unit(f'{prop}.compile_or_none', REPO_PY, 'Repository._compile_or_none', compile_setup, compile_post(prop), prop=prop)
