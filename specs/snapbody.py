"""Snapshot loading/encoding: _load_snapshots::_download_snapshot, _decrypt_snapshot_body,
_encrypt_snapshot_body (C02, C04, C05, C06, C14, C15)."""
from __future__ import annotations

import z3

from vf import sym, models, ops
from vf.sym import SV, INT, BOOL, STR, BYTES, Opt
from vf.interp import Model, Raised, Exc, Obj, PyRef, IterSpec
from vf.unit import Unit, Lemma
from vf.ops import MethodModel
from specs import shared
from specs.shared import REPO_PY, UF, H, MAC, KDF, ENC, DEC, snap_name, snap_tag

# JSON values as produced by serialize/deserialize (assumed inverse on the JSON domain, with the
# repo's bytes hook: C14.json.bytes_tag is its own unit)
JV = models.opaque_type('JV')


def jv_bytes(z):
    return UF('jv_bytes', JV, BYTES)(z)


def jv_of_bytes(z):
    return UF('jv_of_bytes', BYTES, JV)(z)


def _jv_coerce(sv, ty):
    if ty == BYTES:
        return SV(BYTES, jv_bytes(sv.z))
    return None


JV.coerce_to = _jv_coerce


def ser(z):
    return UF('ser', JV, BYTES)(z)           # serialize: JSON value -> bytes


def deser(z):
    return UF('deser', BYTES, JV)(z)


def jget(z, key):
    return UF(f'jget_{key}', JV, JV)(z)


def jobj2(a, b):
    return UF('jobj_chunks_data', JV, JV, JV)(a, b)   # {'chunks': a, 'data': b}


REGEX = models.opaque_type('Regex')
MATCH = models.opaque_type('Match')


def re_search(p, s):
    return UF('re_search', REGEX, STR, Opt(MATCH))(p, s)


REGEX.attrs = {'search': MethodModel('search', lambda i, st, a, k: iter(
    [(st, SV(Opt(MATCH), re_search(a[0].z, sym.lift(a[1], STR).z)))]))}


# ------------------------------------------------------------------ _download_snapshot
def dl_setup(b):
    me = shared.repo_self(b)
    b.me = me
    b.sym('path', STR)
    b.sym('snapshot_re', Opt(REGEX))
    b.bind('loop', Obj('loop'))

    def threadsafe(interp, st, args, kwargs):
        st.emit('load', path=args[0], digest=args[1])
        yield st, SV(shared.BODY, UF('loaded_body', STR, BYTES, shared.BODY)(sym.lift(args[0], STR).z, sym.lift(args[1], BYTES).z))

    me._attrs.update({
        'parse_snapshot_location': shared.parse_snapshot_location_model(),
        '_download_snapshot_threadsafe': Model('_download_snapshot_threadsafe', threadsafe),
    })


def dl_post(prop):
    def post(res):
        b = res.builder
        path = b.st.lookup('path').z
        rx = b.st.lookup('snapshot_re')
        fh = UF('fromhex', STR, BYTES)
        name, tag = snap_name(path), snap_tag(path)
        filtered = z3.And(z3.Not(rx.ty.is_none(rx.z)), Opt(MATCH).is_none(re_search(rx.ty.val(rx.z), name)))
        for p in res.paths:
            view = shared.PropsView(p.st, b.me.props)
            foreign = z3.And(view.encrypted, view.mac(fh(name)) != fh(tag))
            loads = p.events('load')
            sig = p.kind + (':' + p.value.cls if p.kind == 'raise' else '') + f'/{len(loads)}'
            for e in loads:
                pc = p.pc_at(e)
                # C04: the digest a body is verified against is the name of the very path being loaded
                res.oblige(pc, f'{prop}.load.expected_digest_is_name[{sig}]', z3.And(
                    sym.lift(e.data['digest'], BYTES).z == fh(name), sym.lift(e.data['path'], STR).z == path))
                # C02/C06: bodies of another key family are never loaded
                res.oblige(pc, f'{prop}.load.own_family_only[{sig}]', z3.Not(foreign))
                # C15: the snapshot filter is applied to the printed name
                res.oblige(pc, f'{prop}.load.filter_on_name[{sig}]', z3.Not(filtered))
            if p.kind == 'return':
                if p.value is None:
                    res.oblige(p, f'{prop}.load.skipped_only_if_filtered_or_foreign[{sig}]', z3.Or(filtered, foreign))
                    res.oblige(p, f'{prop}.load.skip_without_download[{sig}]', z3.BoolVal(not loads))
                else:
                    res.oblige(p, f'{prop}.load.returned_body_is_loaded[{sig}]', z3.BoolVal(len(loads) == 1))
        res.oblige([], f'{prop}.load.paths', z3.BoolVal(len(res.paths) >= 3))
    return post


def download_snapshot_unit(prop):
    return Unit(f'{prop}.download_snapshot', REPO_PY, 'Repository._load_snapshots._download_snapshot', dl_setup,
                dl_post(prop), prop=prop)


# ------------------------------------------------------------------ _decrypt_snapshot_body
def body_setup(b):
    me = shared.repo_self(b)
    b.me = me

    def deserialize(interp, st, args, kwargs):
        z = sym.lift(args[0], BYTES).z
        st.emit('deserialize', data=args[0])
        fail = st.copy()
        yield fail, Raised(Exc('JSONDecodeError'))
        j = deser(z)
        if st.ghost.get('top_level_done'):
            yield st, SV(JV, j)
        else:
            st.ghost['top_level_done'] = True
            yield st, st.new_py('dict', {'chunks': SV(JV, jget(j, 'chunks')), 'data': SV(JV, jget(j, 'data'))})

    def serialize(interp, st, args, kwargs):
        v = ops.resolve(st, args[0])
        if isinstance(v, PyRef) and v.kind == 'dict':
            d = interp.deref(st, v)
            if set(d) != {'chunks', 'data'}:
                raise sym.Unsupported('serialize of dict with other keys')
            z = jobj2(to_jv(interp, st, d['chunks']).z, to_jv(interp, st, d['data']).z)
        else:
            z = to_jv(interp, st, v).z
        st.emit('serialize', value=args[0], jv=SV(JV, z))
        yield st, SV(BYTES, ser(z))

    me._attrs.update({'deserialize': Model('deserialize', deserialize), 'serialize': Model('serialize', serialize)})


def to_jv(interp, st, v):
    v = ops.resolve(st, v)
    if isinstance(v, SV) and v.ty == JV:
        return v
    if isinstance(v, SV) and v.ty == BYTES:
        return SV(JV, jv_of_bytes(v.z))
    raise sym.Unsupported(f'to_jv {v!r}')


def decrypt_body_setup(b):
    body_setup(b)
    b.sym('contents', BYTES)


def decrypt_body_post(prop):
    def post(res):
        b = res.builder
        c = b.st.lookup('contents').z
        j = deser(c)
        data_f, chunks_f = jv_bytes(jget(j, 'data')), jv_bytes(jget(j, 'chunks'))
        Hf = H()
        for p in res.paths:
            view = shared.PropsView(p.st, b.me.props)
            dec = p.events('decrypt_ok') + p.events('decrypt_failed')
            sig = ','.join(e.kind for e in p.st.events if e.kind.startswith('decrypt')) + '->' + p.kind + (
                ':' + p.value.cls if p.kind == 'raise' else '')
            table = [e for e in dec if z3.is_true(z3.simplify(sym.lift(e.data['data'], BYTES).z == chunks_f))]
            priv = [e for e in dec if z3.is_true(z3.simplify(sym.lift(e.data['data'], BYTES).z == data_f))]
            for e in table:
                # the chunk table is bound to the private part: key = KDF(shared, ctx = H(body['data']))
                res.oblige(p.pc_at(e), f'{prop}.body.table_key_bound_to_data[{sig}]',
                           sym.lift(e.data['key'], BYTES).z == view.subkey(Hf(data_f)))
            for e in priv:
                res.oblige(p.pc_at(e), f'{prop}.body.data_key_is_userkey[{sig}]',
                           sym.lift(e.data['key'], BYTES).z == view.userkey)
            for e in dec:
                res.oblige(p.pc_at(e), f'{prop}.body.decrypts_only_own_fields[{sig}]', z3.BoolVal(e in table or e in priv))
            failed_table = [e for e in table if e.kind == 'decrypt_failed']
            failed_priv = [e for e in priv if e.kind == 'decrypt_failed']
            if failed_table:
                # a damaged chunk table is never swallowed
                res.oblige(p, f'{prop}.body.table_failure_propagates[{sig}]', z3.BoolVal(p.kind == 'raise'))
            if p.kind == 'return':
                r = p.value
                d = interp_deref(res, p, r)
                if failed_priv:
                    # C06: a shared-key user of another owner sees the table but not the file data
                    res.oblige(p, f'{prop}.body.foreign_data_is_none[{sig}]', z3.BoolVal(d['data'] is None))
                elif priv:
                    res.oblige(p, f'{prop}.body.data_is_decrypted_private_part[{sig}]',
                               z3.And(view.encrypted, d['data'].z == deser(DEC()(data_f, view.userkey))))
                    res.oblige(p, f'{prop}.body.chunks_is_decrypted_table[{sig}]',
                               d['chunks'].z == deser(DEC()(chunks_f, view.subkey(Hf(data_f)))))
                else:
                    res.oblige(p, f'{prop}.body.unencrypted_passthrough[{sig}]', z3.And(
                        z3.Not(view.encrypted), d['data'].z == jget(j, 'data'), d['chunks'].z == jget(j, 'chunks')))
    return post


def interp_deref(res, p, r):
    return res.interp.deref(p.st, r)


def decrypt_body_unit(prop):
    return Unit(f'{prop}.decrypt_snapshot_body', REPO_PY, 'Repository._decrypt_snapshot_body', decrypt_body_setup,
                decrypt_body_post(prop), prop=prop)


# ------------------------------------------------------------------ _encrypt_snapshot_body
def encrypt_body_setup(b):
    body_setup(b)
    b.st.ghost['top_level_done'] = True
    ch, da = b.sym('sb_chunks', JV, bind=False), b.sym('sb_data', JV, bind=False)
    b.bind('snapshot_body', b.st.new_py('dict', {'chunks': ch, 'data': da}))
    b.ch, b.da = ch, da


def encrypt_body_post(prop):
    def post(res):
        b = res.builder
        Hf = H()
        for p in res.paths:
            view = shared.PropsView(p.st, b.me.props)
            if p.kind != 'return':
                res.oblige(p, f'{prop}.encbody.total', z3.BoolVal(False))
                continue
            encs = p.events('encrypt')
            out = sym.lift(p.value, BYTES).z
            if encs:
                res.oblige(p, f'{prop}.encbody.two_encryptions', z3.BoolVal(len(encs) == 2))
                if len(encs) != 2:
                    continue
                e_data, e_chunks = encs
                E = e_data.data['result'].z
                T = e_chunks.data['result'].z
                # documented scheme (C14.snapshot.body)
                res.oblige(p, f'{prop}.encbody.data_is_enc_of_ser_data_under_userkey', z3.And(
                    view.encrypted,
                    sym.lift(e_data.data['data'], BYTES).z == ser(b.da.z),
                    sym.lift(e_data.data['key'], BYTES).z == view.userkey))
                res.oblige(p, f'{prop}.encbody.table_is_enc_of_ser_chunks_under_subkey_of_H_E', z3.And(
                    sym.lift(e_chunks.data['data'], BYTES).z == ser(b.ch.z),
                    sym.lift(e_chunks.data['key'], BYTES).z == view.subkey(Hf(E))))
                res.oblige(p, f'{prop}.encbody.result_is_ser_of_ciphertexts',
                           out == ser(jobj2(jv_of_bytes(T), jv_of_bytes(E))))
                # C05: distinct nonces for the two ciphertexts; no plaintext in the stored object
                res.oblige(p, f'{prop}.encbody.nonces_distinct_terms',
                           z3.BoolVal(not e_data.data['nonce'].z.eq(e_chunks.data['nonce'].z)))
            else:
                res.oblige(p, f'{prop}.encbody.unencrypted_is_plain_serialization',
                           z3.And(z3.Not(view.encrypted), out == ser(jobj2(b.ch.z, b.da.z))))
    return post


def encrypt_body_unit(prop):
    return Unit(f'{prop}.encrypt_snapshot_body', REPO_PY, 'Repository._encrypt_snapshot_body', encrypt_body_setup,
                encrypt_body_post(prop), prop=prop)


def reader_inverse_lemma(prop):
    """decrypt(encrypt(body)) = body for the owner, from the two contracts + A-aead + json inverse"""
    def build(add):
        ch, da = z3.Consts('ch da', JV.sort())
        uk, sk, kp, n1, n2 = z3.Strings('uk sk kp n1 n2')
        Hf, K, E_, D_ = H(), KDF(), ENC(), DEC()
        E = E_(ser(da), uk, n1)
        T = E_(ser(ch), K(sk, Hf(E), kp), n2)
        stored = ser(jobj2(jv_of_bytes(T), jv_of_bytes(E)))
        j = deser(stored)
        ax = [
            # json round trip (assumed, audited): deser(ser(x)) = x; field access; bytes tagging
            deser(stored) == jobj2(jv_of_bytes(T), jv_of_bytes(E)),
            jget(jobj2(jv_of_bytes(T), jv_of_bytes(E)), 'chunks') == jv_of_bytes(T),
            jget(jobj2(jv_of_bytes(T), jv_of_bytes(E)), 'data') == jv_of_bytes(E),
            jv_bytes(jv_of_bytes(T)) == T, jv_bytes(jv_of_bytes(E)) == E,
            deser(ser(da)) == da, deser(ser(ch)) == ch,
            # A-aead correctness
            D_(E, uk) == ser(da), D_(T, K(sk, Hf(E), kp)) == ser(ch),
        ]
        data_f, chunks_f = jv_bytes(jget(j, 'data')), jv_bytes(jget(j, 'chunks'))
        add('owner_reads_back_data', ax, deser(D_(data_f, uk)) == da)
        add('owner_reads_back_chunks', ax, deser(D_(chunks_f, K(sk, Hf(data_f), kp))) == ch)
    return Lemma(f'{prop}.lemma.reader_inverse', build, prop=prop)


# ------------------------------------------------------------------ _compile_or_none
def compile_setup(b):
    shared.repo_self(b)
    b.sym('pattern', Opt(STR))

    def compile_(interp, st, args, kwargs):
        st.emit('re_compile', args=list(args), kwargs=dict(kwargs))
        pat = ops.unwrap_opt(interp, st, args[0], 'pattern') if isinstance(args[0], SV) and isinstance(args[0].ty, Opt) else args[0]
        yield st, SV(REGEX, UF('re_compile', STR, REGEX)(sym.lift(pat, STR).z))

    re_ = Obj('re', compile=Model('re.compile', compile_))
    re_._lenient = True
    b.bind('re', re_)


def compile_post(prop):
    def post(res):
        pat = res.builder.st.lookup('pattern')
        for p in res.paths:
            ev = p.events('re_compile')
            if p.kind != 'return':
                res.oblige(p, f'{prop}.compile.total', z3.BoolVal(False))
                continue
            # the filter is the caller's regular expression as written: compiled once, with no flags that change what
            # it matches (case, multi-line, ...); None stays None (no filter)
            if ev:
                e = ev[0]
                flags = e.data['args'][1] if len(e.data['args']) > 1 else e.data['kwargs'].get('flags', 0)
                res.oblige(p, f'{prop}.compile.pattern_as_given_without_flags', z3.And(
                    z3.BoolVal(len(ev) == 1 and isinstance(flags, int) and flags == 0 and len(e.data['args']) <= 2),
                    z3.Not(pat.ty.is_none(pat.z)), z3.BoolVal(e.data['args'][0] is pat),
                    z3.BoolVal(isinstance(p.value, SV) and p.value.ty == REGEX)))
            else:
                res.oblige(p, f'{prop}.compile.none_means_no_filter', z3.And(pat.ty.is_none(pat.z), z3.BoolVal(p.value is None)))
    return post


def compile_unit(prop):
    return Unit(f'{prop}.compile_or_none', REPO_PY, 'Repository._compile_or_none', compile_setup, compile_post(prop), prop=prop)


# ------------------------------------------------------------------ _load_snapshots: the outer generator
# (listing -> one loader job per listed path -> every job's result is delivered once, None results skipped)
import ast as _ast
FUT = models.opaque_type('Future')
FUT.identity = True


def _load_region_pred():
    """everything after the nested loader function: the listing, the job loop and the result loop"""
    seen = {'def': False}

    def pred(stmt):
        if isinstance(stmt, (_ast.FunctionDef, _ast.AsyncFunctionDef)):
            seen['def'] = True
            return False
        return seen['def']
    return pred


def load_outer_setup(b):
    from vf.sym import Dict
    me = shared.repo_self(b)
    b.me = me
    n = z3.Int('n_listed')
    m = z3.Int('n_done')
    b.assume(n >= 0)
    listed = lambda k: UF('listed_path', INT, STR)(k)
    done = lambda k: UF('completed_future', INT, FUT)(k)
    fut_of = lambda p: UF('future_of_path', STR, FUT)(p)
    result = lambda f: UF('future_result', FUT, Opt(shared.BODY))(f)
    b.listed, b.done, b.fut_of, b.result, b.n, b.m = listed, done, fut_of, result, n, m
    LIST_FILES = Obj('backend.list_files')
    me._attrs['backend'] = Obj('backend', list_files=LIST_FILES)
    b.LIST_FILES = LIST_FILES

    def aiter(interp, st, args, kwargs):
        st.emit('listing', func=args[0], args=list(args[1:]), kwargs=dict(kwargs))
        yield st, IterSpec(n, lambda k: SV(STR, listed(k)))

    me._attrs['_aiter'] = Model('_aiter', aiter)
    b.bind('loader', sym.fresh(models.opaque_type('Executor'), 'loader'))
    b.bind('_download_snapshot', sym.fresh(models.opaque_type('LoaderFn'), '_download_snapshot'))

    def run_in_executor(interp, st, args, kwargs):
        st.emit('submit', executor=args[0], fn=args[1], rest=list(args[2:]))
        p = sym.lift(args[2], STR) if len(args) > 2 else sym.fresh(STR, 'nopath')
        yield st, SV(FUT, fut_of(p.z))

    b.bind('loop', Obj('loop', run_in_executor=Model('run_in_executor', run_in_executor)))
    f2p = b.ref('future_to_path', sym.DictC(FUT, STR))
    b.f2p = f2p

    def as_completed(interp, st, args, kwargs):
        st.emit('as_completed', arg=args[0])
        # contract of utils.as_completed (own unit): yields every task of its argument exactly once, when done
        st.assume(m >= 0)
        yield st, IterSpec(m, lambda k: SV(FUT, done(k)))

    ut = Obj('utils', as_completed=Model('as_completed', as_completed))
    ut._lenient = True
    b.bind('utils', ut)

    def on_await(interp, st, v):
        bad = st.copy()
        bad.emit('job_failed', future=v)
        yield bad, Raised(Exc('AnyError'))
        yield st, SV(Opt(shared.BODY), result(v.z))

    FUT.on_await = on_await


def _loop_var(res, loop, default):
    """name of the loop's own variable in the CODE (sidecars must not depend on what the code calls it)"""
    node = getattr(res.interp, 'loop_nodes', {}).get(loop)
    t = getattr(node, 'target', None)
    return t.id if isinstance(t, _ast.Name) else default


def load_outer_post(prop):
    from vf.sym import Dict
    def post(res):
        b = res.builder
        DC = sym.DictC(FUT, STR)
        n1 = n2 = 0
        for p in res.body_paths('AsyncFor#1'):
            n1 += 1
            evs = p.st.events
            start = [i for i, e in enumerate(evs) if e.kind == 'loop_body' and e.data.get('loop') == 'AsyncFor#1'][-1]
            it = evs[start:]
            path = p.st.lookup(_loop_var(res, 'AsyncFor#1', 'path'))
            if not isinstance(path, SV):
                # the job loop does not walk what the backend lists (e.g. paths taken from somewhere else)
                res.oblige(p, f'{prop}.load_outer.one_job_per_listed_path', z3.BoolVal(False))
                continue
            lst = [e for e in evs if e.kind == 'listing']
            walked = p.st.ghost.get('$iter_AsyncFor#1')
            subs = [e for e in it if e.kind == 'submit']
            stores = [e for e in it if e.kind == 'dict_store']
            ok = (len(subs) == 1 and subs[0].data['executor'] is b.st.lookup('loader') and subs[0].data['fn'] is b.st.lookup('_download_snapshot')
                  and len(subs[0].data['rest']) == 1)
            # exactly one loader job per listed path, for THAT path, and it is remembered under its future
            res.oblige(p, f'{prop}.load_outer.one_job_per_listed_path', z3.BoolVal(ok) if not ok else sym.lift(subs[0].data['rest'][0], STR).z == path.z)
            ok2 = len(stores) == 1
            res.oblige(p, f'{prop}.load_outer.job_remembered_under_its_future', z3.BoolVal(ok2) if not ok2 else z3.And(
                sym.lift(stores[0].data['key'], FUT).z == b.fut_of(path.z), sym.lift(stores[0].data['value'], STR).z == path.z))
        for p in res.all_paths():
            for e in p.events('listing'):
                a = e.data['args']
                # the snapshot area of the backend is listed (nothing else decides which snapshots exist)
                res.oblige(p.pc_at(e), f'{prop}.load_outer.lists_the_snapshot_area', z3.And(
                    z3.BoolVal(e.data['func'] is b.LIST_FILES and len(a) == 1 and not e.data['kwargs']),
                    sym.lift(a[0], STR).z == sym.lift(b.me.get('SNAPSHOT_PREFIX'), STR).z if len(a) == 1 else z3.BoolVal(False)))
            for e in p.events('as_completed'):
                res.oblige(p.pc_at(e), f'{prop}.load_outer.waits_for_every_job', z3.BoolVal(
                    isinstance(e.data['arg'], SV) and z3.eq(e.data['arg'].z, b.f2p.z)))
        for p in res.body_paths('AsyncFor#2'):
            n2 += 1
            evs = p.st.events
            start = [i for i, e in enumerate(evs) if e.kind == 'loop_body' and e.data.get('loop') == 'AsyncFor#2'][-1]
            it = evs[start:]
            task = p.st.lookup(_loop_var(res, 'AsyncFor#2', 'task'))
            r = b.result(task.z)
            ys = [e for e in it if e.kind == 'yield']
            failed = [e for e in it if e.kind == 'job_failed']
            if failed:
                # a failed loader job (corrupted snapshot, backend error) fails the whole load
                res.oblige(p, f'{prop}.load_outer.job_failure_propagates', z3.BoolVal(p.kind == 'raise'))
                continue
            if p.kind == 'raise':
                continue
            isnone = Opt(shared.BODY).is_none(r)
            # every job that produced a body is yielded once, with the path it was started for; None (filtered) is skipped
            res.oblige(p, f'{prop}.load_outer.yields_iff_body', z3.If(isnone, z3.BoolVal(not ys), z3.BoolVal(len(ys) == 1)))
            for y in ys:
                v = y.data['value']
                okv = isinstance(v, tuple) and len(v) == 2
                h = p.st.heap
                res.oblige(p.pc_at(y), f'{prop}.load_outer.yields_path_of_the_job_and_its_body', z3.BoolVal(okv) if not okv else z3.And(
                    sym.lift(v[0], STR).z == z3.Select(h.read(DC, 'val', b.f2p.z), task.z),
                    (v[1].z == r) if isinstance(v[1], SV) and v[1].ty == Opt(shared.BODY) else sym.lift(v[1], shared.BODY).z == Opt(shared.BODY).val(r)))
        res.oblige([], f'{prop}.load_outer.iterations_checked', z3.BoolVal(n1 >= 1 and n2 >= 2))
    return post


def load_outer_unit(prop):
    from vf.interp import LoopSpec
    t = lambda ctx: z3.BoolVal(True)
    DC = sym.DictC(FUT, STR)
    mods = [('heap', DC, 'has'), ('heap', DC, 'val'), ('heap', DC, 'n'), ('heap', DC, 'order')]
    return Unit(f'{prop}.load_snapshots_outer', REPO_PY, 'Repository._load_snapshots', load_outer_setup, load_outer_post(prop),
                loops={'AsyncFor#1': LoopSpec(t, modifies=mods, name='AsyncFor#1'), 'AsyncFor#2': LoopSpec(t, modifies=[], name='AsyncFor#2')},
                stmt=_load_region_pred(), prop=prop)


# ------------------------------------------------------------------ utils.as_completed
def as_completed_setup(b):
    n = z3.Int('n_tasks')
    b.assume(n >= 0)
    b.n = n
    TASK = models.opaque_type('Task')

    def add_done_callback(interp, st, args, kwargs):
        st.emit('add_done_callback', task=args[0], callback=args[1])
        yield st, None

    TASK.attrs = {'add_done_callback': MethodModel('add_done_callback', add_done_callback)}
    b.bind('tasks', IterSpec(n, lambda k: SV(TASK, UF('task_at', INT, TASK)(k))))
    PUT = Model('put_nowait', lambda i, s, a, k: iter([(s, None)]))
    b.PUT = PUT

    def get(interp, st, args, kwargs):
        st.emit('queue_get')
        yield st, sym.fresh(TASK, 'finished_task')

    def queue_ctor(interp, st, args, kwargs):
        st.emit('queue_created', args=list(args), kwargs=dict(kwargs))
        yield st, Obj('queue', put_nowait=PUT, get=Model('get', get))

    b.bind('asyncio', Obj('asyncio', Queue=Model('Queue', queue_ctor)))


def as_completed_post(prop):
    def post(res):
        b = res.builder
        n1 = n2 = 0
        for p in res.body_paths('For#1'):
            n1 += 1
            evs = p.st.events
            start = [i for i, e in enumerate(evs) if e.kind == 'loop_body' and e.data.get('loop') == 'For#1'][-1]
            cbs = [e for e in evs[start:] if e.kind == 'add_done_callback']
            task = p.st.lookup('task')
            ok = len(cbs) == 1 and cbs[0].data['callback'] is b.PUT
            # every task announces its completion on the queue (non-blocking put of the task itself)
            res.oblige(p, f'{prop}.as_completed.every_task_reports_to_the_queue', z3.BoolVal(ok) if not ok else cbs[0].data['task'].z == task.z)
        for p in res.body_paths('For#2'):
            n2 += 1
            evs = p.st.events
            start = [i for i, e in enumerate(evs) if e.kind == 'loop_body' and e.data.get('loop') == 'For#2'][-1]
            it = evs[start:]
            gets = [e for e in it if e.kind == 'queue_get']
            ys = [e for e in it if e.kind == 'yield']
            # one completed task is taken from the queue and yielded per task: as many results as tasks, none dropped
            res.oblige(p, f'{prop}.as_completed.one_result_per_task', z3.BoolVal(len(gets) == 1 and len(ys) == 1 and p.kind in ('normal', 'continue')))
        for p in res.all_paths():
            for e in p.events('queue_created'):
                # an unbounded queue: put_nowait from a done-callback can never fail with QueueFull
                res.oblige(p.pc_at(e), f'{prop}.as_completed.queue_unbounded', z3.BoolVal(not e.data['args'] and not e.data['kwargs']))
        res.oblige([], f'{prop}.as_completed.iterations_checked', z3.BoolVal(n1 >= 1 and n2 >= 1))
    return post


def as_completed_unit(prop):
    from vf.interp import LoopSpec
    from specs.shared import UTILS_PY
    t = lambda ctx: z3.BoolVal(True)
    return Unit(f'{prop}.as_completed', UTILS_PY, 'as_completed', as_completed_setup, as_completed_post(prop),
                loops={'For#1': LoopSpec(t, modifies=[], name='For#1'), 'For#2': LoopSpec(t, modifies=[], name='For#2')}, prop=prop)


def load_units(prop):
    return [load_outer_unit(prop), as_completed_unit(prop)]
