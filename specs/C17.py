"""C17 - Accepted settings always yield a usable repository and working keys."""
from specs import settings, keys, options, misc

LEVEL = 'proof'
UNITS = settings.ctor_units('C17') + [keys.init_unit('C17'), keys.add_key_inner_unit('C17'), keys.add_key_unit('C17'),
                                     keys.instantiate_key_unit('C17'), keys.unlock_unit('C17'), settings.key_lemma('C17')] + keys.make_key_units('C17') + misc.aead_ctor_units('C17') + misc.primitive_units('C17') + keys.config_units('C17') + keys.from_config_units('C17') + keys.validate_units('C17') + options.cmd_handler_units('C17', only=('init', 'add-key'))
from specs import families as _families
UNITS = _families.with_families('C17', UNITS)
BOUNDED = [
    {'name': 'C17.lattice', 'script': 'bounded/c17_lattice.py', 'timeout': 900,
     'bound': '50 settings dictionaries: 3 hashes x valid/invalid sizes, 2 ciphers x key/nonce sizes, 2 KDFs x parameters (incl. non-powers of 2, 0), '
              'chunker bounds incl. 0, negative, float, string, min>max, unknown keys/adapters, mistyped sections; accepted => fresh Repository unlocks, '
              'snapshots and restores 3 files; rejected => backend empty; add-key chains (independent/shared, depth 3): every key x every password; the restore runs in a THIRD fresh Repository object; the key chain includes an empty and a 71-byte password; two keys added with the SAME password (and KDF settings) as the key the adding object was unlocked with'},
]
TRUSTED = [
    'vf symbolic executor (/verif/vf)', 'z3 5.1, cvc5 1.0.3',
]
ASSUMPTIONS = [
    'hashlib.blake2b requires 1 <= digest_size <= 64; hashlib sha2/sha3 exist for 224/256/384/512; AESGCM keys are 128/192/256 bits (documented dependency preconditions)',
    'aes_gcm.nonce_bits and scrypt(n, r, p) are NOT validated by the constructors: every encrypted init/add-key exercises encrypt and derive BEFORE the config upload (proved), so a bad value raises with the backend untouched',
    'resource exhaustion for huge KDF costs and chunk lengths >= 2**62 are out of scope',
    'A-aead for the key round trip; KDF injective in the password (assumed)',
]
MANIFEST = {
    'text': 'Deductive proof that acceptance implies the preconditions of later use: the chunker and hash constructors accept only integer, in-range parameters (all other types are rejected on every path), every failure of init precedes its only backend mutation, KDF and cipher are exercised before the config upload, and a key produced by init/add-key opens with its own password (lemma over the writer and reader contracts).',
    'note': 'Trusted: vf engine, SMT solver, documented preconditions of hashlib/cryptography. The composition "fresh process can back up and restore" is covered by the bounded settings lattice on the real code.',
    'technique': 'contract-based deductive verification: sidecar contracts on the real functions, VCs by symbolic execution of the AST, discharged by z3/cvc5',
    'design_ref': 'DESIGN.md 6/C17',
}
