"""Contracts for Repository.delete_snapshots and Repository.clean (shared by
C02, C03, C06, C08, C15, C18)."""
from __future__ import annotations

import z3

from vf import sym, models, ops
from vf.sym import SV, INT, BOOL, STR, BYTES, Opt, List, Set
from vf.interp import Model, Raised, Exc, Obj, LoopSpec, IterSpec
from vf.unit import Unit, Lemma
from specs import shared
from specs.shared import REPO_PY, UF, Loaded, snap_name, SNAPDATA, BODY


def loc(z):
    """contract of _chunk_digest_to_location for the unlocked props (unit C14.chunk_loc)"""
    return UF('loc', BYTES, STR)(z)


def delete_model(tag='delete'):
    def fn(interp, st, args, kwargs):
        fail = st.copy()
        fail.emit('delete_failed', location=args[0])
        yield fail, Raised(Exc('AnyError'))
        st.emit('delete', location=args[0])
        yield st, None
    return Model('_delete', fn)


# ------------------------------------------------------------------ delete_snapshots
def delete_setup(b):
    me = shared.repo_self(b)
    b.me = me
    L = Loaded()
    b.L = L
    snaps = b.ref('snapshots', sym.ListC(STR))
    b.snaps0 = models.list_elems(b.st, snaps)          # set view of the requested names
    b.assume(b.st.heap.read(sym.ListC(STR), 'len', snaps.z) >= 0)
    b.sym('confirm', BOOL)
    # premise (C08: the snapshot area contains only objects written by replicat; A-collision):
    # distinct loaded paths have distinct names
    i, j = z3.Ints('ni nj')
    b.assume(z3.ForAll([i, j], z3.Implies(z3.And(0 <= i, i < j, j < L.n),
                                          snap_name(L.path(i)) != snap_name(L.path(j)))))

    def loc_model(interp, st, args, kwargs):
        yield st, SV(STR, loc(sym.lift(args[0], BYTES).z))

    def delete_cached(interp, st, args, kwargs):
        st.emit('delete_cached', location=args[0])
        yield st, None

    def info_brief(interp, st, args, kwargs):
        v = ops.unwrap_opt(interp, st, args[0], 'info_brief_arg')
        yield st, SV(STR, UF('info_brief', SNAPDATA, STR)(v.z))

    def input_model(interp, st, args, kwargs):
        st.emit('prompt')
        yield st, sym.fresh(STR, 'answer')

    me._attrs.update({
        '_load_snapshots': shared.load_snapshots_model(b, L),
        'parse_snapshot_location': shared.parse_snapshot_location_model(),
        '_chunk_digest_to_location': Model('loc', loc_model),
        '_delete': delete_model(),
        '_delete_cached': Model('_delete_cached', delete_cached),
        '_format_snapshot_info_brief': Model('info_brief', info_brief),
    })
    b.bind('input', Model('input', input_model))
    b.bind('asyncio', models.ASYNCIO)
    b.bind('tqdm', models.tqdm_model())


DELETE_LOCALS = {
    'chunks_to_delete': Set(BYTES), 'chunks_to_keep': Set(BYTES),
    'snapshots_locations': Set(STR), 'danger_message_parts': List(STR),
}


def _sets(ctx):
    st = ctx.st
    h = st.heap
    g = lambda nm, cls: h.read(cls, 'm', ctx.v(nm))
    return (g('chunks_to_delete', sym.SetC(BYTES)), g('chunks_to_keep', sym.SetC(BYTES)),
            g('snapshots_locations', sym.SetC(STR)), g('remaining_names', sym.SetC(STR)))


def delete_inv(b):
    L = b.L

    def inv(ctx):
        ctd, ctk, locs, rem = _sets(ctx)
        k = ctx.k
        S0 = b.snaps0
        i = z3.Int('inv_i')
        d = z3.Const('inv_d', z3.StringSort())
        s = z3.Const('inv_s', z3.StringSort())
        named = lambda ii: z3.Select(S0, snap_name(L.path(ii)))
        seen = lambda ii: z3.And(0 <= ii, ii < k)
        return z3.And(
            k <= L.n,
            # (a) everything referenced by a processed snapshot is in the right set
            z3.ForAll([i, d], z3.Implies(z3.And(seen(i), z3.Select(L.chunks(i), d)),
                                         z3.If(named(i), z3.Select(ctd, d), z3.Select(ctk, d)))),
            # (b) the sets contain nothing else
            z3.ForAll([d], z3.Implies(z3.Select(ctd, d),
                                      z3.Exists([i], z3.And(seen(i), named(i), z3.Select(L.chunks(i), d))))),
            z3.ForAll([d], z3.Implies(z3.Select(ctk, d),
                                      z3.Exists([i], z3.And(seen(i), z3.Not(named(i)), z3.Select(L.chunks(i), d))))),
            # snapshot locations: exactly the processed named paths
            z3.ForAll([i], z3.Implies(z3.And(seen(i), named(i)), z3.Select(locs, L.path(i)))),
            z3.ForAll([s], z3.Implies(z3.Select(locs, s),
                                      z3.Exists([i], z3.And(seen(i), named(i), L.path(i) == s)))),
            # remaining = requested minus seen names (three implications; avoids a nested equivalence)
            z3.ForAll([s], z3.Implies(z3.Select(rem, s), z3.Select(S0, s))),
            z3.ForAll([i], z3.Implies(seen(i), z3.Not(z3.Select(rem, snap_name(L.path(i)))))),
            z3.ForAll([s], z3.Implies(z3.And(z3.Select(S0, s), z3.Not(z3.Select(rem, s))),
                                      z3.Exists([i], z3.And(seen(i), snap_name(L.path(i)) == s)))),
            # every processed named snapshot was readable (else we raised)
            z3.ForAll([i], z3.Implies(z3.And(seen(i), named(i)), L.readable(i))),
        )
    return inv


def site_label(e, by_type):
    """which deletion phase a quantified call belongs to: decided by WHAT it ranges over (digests / locations), not by the name of the
    function handed to gather (a wrapper or a renamed closure is the same phase)"""
    v = e.data.get('var')
    if by_type and isinstance(v, SV) and v.ty in by_type:
        return by_type[v.ty]
    return e.data['label']


DELETE_SITES = {BYTES: '_delete_chunk', STR: '_delete_snapshot'}
CLEAN_SITES = {STR: '_delete_chunk'}


def delete_events(p, by_type=None):
    """-> (list of (kind, location z3, cond pcs, phase_index)), in trace order"""
    out = []
    phase = 0
    last_group = None
    for e in p.st.events:
        if e.kind == 'forall':
            # calls handed to ONE asyncio.gather run concurrently: they share a phase
            g = e.data.get('group')
            if g is None or g != last_group:
                phase += 1
            last_group = g
            for sp in e.data['paths']:
                for se in sp['events']:
                    if se.kind in ('delete', 'delete_cached'):
                        out.append({'kind': se.kind, 'loc': sym.lift(se.data['location'], STR).z, 'var': e.data['var'],
                                    'member': e.data['member'], 'cond': sp['pc'], 'phase': phase, 'label': site_label(e, by_type),
                                    'partial': e.data['partial']})
        elif e.kind in ('delete', 'delete_cached'):
            out.append({'kind': e.kind, 'loc': sym.lift(e.data['location'], STR).z, 'var': None, 'phase': phase,
                        'label': 'direct', 'cond': [], 'partial': False})
    return out


def make_delete_post(prop):
    def post(res):
        b = res.builder
        L, S0 = b.L, b.snaps0
        i = z3.Int('pi')
        d = z3.Const('pd', z3.StringSort())
        named = lambda ii: z3.Select(S0, snap_name(L.path(ii)))
        inrange = lambda ii: z3.And(0 <= ii, ii < L.n)
        for n_p, p in enumerate(res.paths):
            evs = delete_events(p, DELETE_SITES)
            dels = [e for e in evs if e['kind'] == 'delete']
            sig = ','.join(f"{e['label']}" for e in dels) + '->' + p.kind
            # no deletion happens inside the loading loop or before the checks
            k_exit = [e for e in p.st.events if e.kind == 'loop_exit']
            in_body = any(e.kind == 'loop_body' for e in p.st.events)
            if in_body and not k_exit:
                # path that left from inside the loop (raise): must not have deleted anything
                res.oblige(p, f'{prop}.delete.nothing_deleted_while_loading', z3.BoolVal(not dels))
                continue
            for e in dels:
                x = e['var']
                if e['label'] == '_delete_chunk':
                    pc = p.st.pc + list(e['cond'])
                    # the digest being deleted
                    xd = x.z
                    # C02.keeps_referenced: no loaded snapshot that is not named references it
                    res.oblige(pc, f'{prop}.delete.keeps_referenced[{sig}]',
                               z3.ForAll([i], z3.Implies(z3.And(inrange(i), z3.Not(named(i))),
                                                         z3.Not(z3.Select(L.chunks(i), xd)))))
                    res.oblige(pc, f'{prop}.delete.chunk_location_is_loc_of_digest[{sig}]', e['loc'] == loc(xd))
                    # only chunks of named (own, readable) snapshots
                    res.oblige(pc, f'{prop}.delete.only_chunks_of_named[{sig}]',
                               z3.Exists([i], z3.And(inrange(i), named(i), L.readable(i), z3.Select(L.chunks(i), xd))))
                    # phase order (C03): chunk deletions come after the snapshot-deletion barrier
                    res.oblige(pc, f'{prop}.delete.phase_order[{sig}]',
                               z3.BoolVal(any(o['label'] == '_delete_snapshot' and o['phase'] < e['phase'] and not o['partial']
                                              for o in evs if o['kind'] == 'delete')
                                          or not any(o['label'] == '_delete_snapshot' for o in evs)))
                elif e['label'] == '_delete_snapshot':
                    pc = p.st.pc + list(e['cond'])
                    res.oblige(pc, f'{prop}.delete.only_named_snapshots[{sig}]',
                               z3.Exists([i], z3.And(inrange(i), named(i), L.readable(i), L.path(i) == e['loc'])))
                    # every requested name was found, readable (all_or_nothing / unknown_refused / refuses_foreign)
                    s = z3.Const('ps', z3.StringSort())
                    res.oblige(pc, f'{prop}.delete.all_requested_available[{sig}]',
                               z3.ForAll([s], z3.Implies(z3.Select(S0, s), z3.Exists(
                                   [i], z3.And(inrange(i), snap_name(L.path(i)) == s, L.readable(i))))))
                else:
                    res.oblige(p, f'{prop}.delete.unexpected_delete_site[{sig}]', z3.BoolVal(False))
            if p.kind in ('return', 'normal'):
                fa = {site_label(e, DELETE_SITES): e for e in p.st.events if e.kind == 'forall'}
                if not dels and not fa:
                    # returned without deleting: only the interactive refusal
                    res.oblige(p, f'{prop}.delete.noop_only_when_declined[{sig}]',
                               z3.BoolVal(any(e.kind == 'prompt' for e in p.st.events)))
                    continue
                # completeness (C08): the quantified deletions range over exactly the computed sets
                if '_delete_chunk' in fa and '_delete_snapshot' in fa:
                    ch, sn = fa['_delete_chunk'], fa['_delete_snapshot']
                    succ = lambda f, lab: [sp for sp in f.data['paths'] if any(se.kind == 'delete' for se in sp['events']) and not sp['raised']]
                    # every element of the set is deleted on every successful sub-path
                    res.oblige(p, f'{prop}.delete.every_subpath_deletes[{sig}]',
                               z3.BoolVal(len(succ(ch, 0)) == len(ch.data['paths']) and len(succ(sn, 0)) == len(sn.data['paths'])))
                    res.oblige(p, f'{prop}.delete.complete_chunks[{sig}]', z3.ForAll([d], z3.Select(ch.data['member'], d) == z3.And(
                        z3.Exists([i], z3.And(inrange(i), named(i), z3.Select(L.chunks(i), d))),
                        z3.Not(z3.Exists([i], z3.And(inrange(i), z3.Not(named(i)), z3.Select(L.chunks(i), d)))))))
                    s = z3.Const('ps2', z3.StringSort())
                    res.oblige(p, f'{prop}.delete.complete_snapshots[{sig}]', z3.ForAll([s], z3.Select(sn.data['member'], s) == z3.Exists(
                        [i], z3.And(inrange(i), named(i), L.path(i) == s))))
                else:
                    res.oblige(p, f'{prop}.delete.both_phases_present[{sig}]', z3.BoolVal(False))
            # cache eviction follows each snapshot deletion (helper: not required by C18)
            for e in [x for x in evs if x['kind'] == 'delete_cached']:
                res.oblige(p.st.pc + list(e['cond']), f'{prop}.delete.evicts_same_location[{sig}]',
                           z3.BoolVal(e['label'] == '_delete_snapshot'), tag='helper')
                # precondition of the cache primitives (they only `assert` it): never called without a cache directory
                cd = b.me.get('_cache_directory')
                res.oblige(p.st.pc + list(e['cond']), f'{prop}.delete.cache_touched_only_with_a_cache_directory[{sig}]', z3.Not(cd.ty.is_none(cd.z)))
        # raising paths: ReplicatError before any deletion when something requested is missing/foreign
        for p in res.raises('ReplicatError'):
            res.oblige(p, f'{prop}.delete.refusal_precedes_deletes', z3.BoolVal(not delete_events(p, DELETE_SITES)))
    return post


def delete_unit(prop):
    holder = {}

    def setup(b):
        delete_setup(b)
        holder['b'] = b
        u.loops['AsyncFor#1'].inv = delete_inv(b)

    u = Unit(f'{prop}.delete_snapshots', REPO_PY, 'Repository.delete_snapshots', setup, make_delete_post(prop),
             loops={'AsyncFor#1': LoopSpec(None, modifies=[
                 ('heap', sym.SetC(BYTES), 'm'), ('heap', sym.SetC(STR), 'm'),
                 ('heap', sym.ListC(STR), 'arr'), ('heap', sym.ListC(STR), 'len')], name='load_loop')},
             local_types=DELETE_LOCALS, prop=prop)
    return u


# ------------------------------------------------------------------ clean
def chunk_name(z):
    """contract of parse_chunk_location(location).name / .tag (proved in C08.loc)"""
    return UF('chunk_name', STR, STR)(z)


def chunk_tag(z):
    return UF('chunk_tag', STR, STR)(z)


class Listing:
    def __init__(self, nm='Lst'):
        self.n = z3.Int(f'{nm}_n')
        self.A = z3.Const(f'{nm}_names', z3.ArraySort(z3.IntSort(), z3.StringSort()))

    def at(self, j):
        return z3.Select(self.A, j)


def clean_setup(b):
    me = shared.repo_self(b)
    L = Loaded()
    b.L = L
    Lst = Listing()
    b.Lst = Lst
    prefix = me._attrs['CHUNK_PREFIX']
    j, j2 = z3.Ints('lj1 lj2')
    b.assume(Lst.n >= 0)
    # backend interface [A]: the listing returns live names that start with the prefix, each once
    b.assume(z3.ForAll([j], z3.Implies(z3.And(0 <= j, j < Lst.n), z3.PrefixOf(z3.StringVal(prefix), Lst.at(j)))))
    b.assume(z3.ForAll([j, j2], z3.Implies(z3.And(0 <= j, j < j2, j2 < Lst.n), Lst.at(j) != Lst.at(j2))))

    def loc_model(interp, st, args, kwargs):
        yield st, SV(STR, loc(sym.lift(args[0], BYTES).z))

    def parse_chunk(interp, st, args, kwargs):
        z = sym.lift(args[0], STR).z
        st.emit('parse_chunk_location', location=args[0])
        yield st, shared.make_ntup(('name', 'tag'), (SV(STR, chunk_name(z)), SV(STR, chunk_tag(z))))

    def aiter(interp, st, args, kwargs):
        st.emit('list_files', func=args[0], prefix=args[1] if len(args) > 1 else '')
        yield st, IterSpec(Lst.n, lambda k: SV(STR, Lst.at(k)))

    def backend_clean(interp, st, args, kwargs):
        st.emit('backend_clean')
        yield st, None

    me._attrs.update({
        '_load_snapshots': shared.load_snapshots_model(b, L),
        '_chunk_digest_to_location': Model('loc', loc_model),
        'parse_chunk_location': Model('parse_chunk_location', parse_chunk),
        '_delete': delete_model(),
        '_aiter': Model('_aiter', aiter),
        '_clean': Model('_clean', backend_clean),
        'backend': Obj('backend', list_files=Obj('backend.list_files')),
    })
    b.bind('asyncio', models.ASYNCIO)
    b.bind('tqdm', models.tqdm_model())


def tag_ok(view, l):
    hx, fh = UF('hex', BYTES, STR), UF('fromhex', STR, BYTES)
    return view.mac(fh(chunk_name(l))) == fh(chunk_tag(l))


def clean_inv(b, me):
    Lst = b.Lst

    def inv(ctx):
        st = ctx.st
        td = st.heap.read(sym.SetC(STR), 'm', ctx.v('to_delete'))
        refl = st.heap.read(sym.SetC(STR), 'm', ctx.v('referenced_locations'))
        view = shared.PropsView(st, me.props)
        k = ctx.k
        j = z3.Int('cj')
        l = z3.Const('cl', z3.StringSort())
        sel = lambda x: z3.And(z3.Not(z3.Select(refl, x)), z3.Or(z3.Not(view.encrypted), tag_ok(view, x)))
        return z3.And(
            k <= Lst.n,
            z3.ForAll([j], z3.Implies(z3.And(0 <= j, j < k, sel(Lst.at(j))), z3.Select(td, Lst.at(j)))),
            z3.ForAll([l], z3.Implies(z3.Select(td, l), z3.And(sel(l), z3.Exists([j], z3.And(0 <= j, j < k, Lst.at(j) == l))))),
        )
    return inv


def make_clean_post(prop, me_holder):
    def post(res):
        b = res.builder
        L, Lst = b.L, b.Lst
        me = me_holder['me']
        i, j = z3.Ints('qi qj')
        d = z3.Const('qd', z3.StringSort())
        l = z3.Const('ql', z3.StringSort())
        inrange = lambda ii: z3.And(0 <= ii, ii < L.n)
        referenced = lambda x: z3.Exists([i, d], z3.And(inrange(i), z3.Select(L.chunks(i), d), loc(d) == x))
        for p in res.paths:
            view = shared.PropsView(p.st, me.props)
            evs = delete_events(p, CLEAN_SITES)
            dels = [e for e in evs if e['kind'] == 'delete']
            sig = ','.join(e['label'] for e in dels) + '->' + p.kind
            exited = [e for e in p.st.events if e.kind == 'loop_exit']
            if not exited:
                res.oblige(p, f'{prop}.clean.nothing_deleted_before_scan_ends[{sig}]', z3.BoolVal(not dels))
                continue
            # the listing that is scanned is the chunk area
            for e in p.events('list_files'):
                res.oblige(p.pc_at(e), f'{prop}.clean.lists_chunk_prefix', sym.lift(e.data['prefix'], STR).z == z3.StringVal(me._attrs['CHUNK_PREFIX']))
            for e in dels:
                pc = p.st.pc + list(e['cond'])
                if e['label'] != '_delete_chunk' or e['var'] is None:
                    res.oblige(p, f'{prop}.clean.unexpected_delete_site[{sig}]', z3.BoolVal(False))
                    continue
                x = e['var'].z
                res.oblige(pc, f'{prop}.clean.deletes_the_selected_location[{sig}]', e['loc'] == x)
                res.oblige(pc, f'{prop}.clean.keeps_referenced[{sig}]', z3.Not(referenced(x)))
                res.oblige(pc, f'{prop}.clean.own_only[{sig}]', z3.Implies(view.encrypted, tag_ok(view, x)))
                res.oblige(pc, f'{prop}.clean.confined_to_listed_chunks[{sig}]', z3.And(
                    z3.Exists([j], z3.And(0 <= j, j < Lst.n, Lst.at(j) == x)),
                    z3.PrefixOf(z3.StringVal(me._attrs['CHUNK_PREFIX']), x)))
            if p.kind in ('return', 'normal'):
                fa = [e for e in p.st.events if e.kind == 'forall']
                sel = lambda x: z3.And(z3.Not(referenced(x)), z3.Or(z3.Not(view.encrypted), tag_ok(view, x)),
                                       z3.Exists([j], z3.And(0 <= j, j < Lst.n, Lst.at(j) == x)))
                if fa:
                    f = fa[0]
                    res.oblige(p, f'{prop}.clean.every_subpath_deletes[{sig}]', z3.BoolVal(
                        all(any(se.kind == 'delete' for se in sp['events']) and not sp['raised'] for sp in f.data['paths']) and len(fa) == 1))
                    # exactness (C08): the set handed to the deleter is exactly the selected one
                    res.oblige(p, f'{prop}.clean.exact[{sig}]', z3.ForAll([l], z3.Select(f.data['member'], l) == sel(l)))
                else:
                    # returned without deleting: nothing was selectable
                    res.oblige(p, f'{prop}.clean.noop_only_if_nothing_selected[{sig}]', z3.ForAll([l], z3.Not(sel(l))))
    return post


def clean_unit(prop):
    holder = {}

    def setup(b):
        clean_setup(b)
        holder['me'] = b.st.lookup('self')
        u.loops['AsyncFor#1'].inv = clean_inv(b, holder['me'])

    u = Unit(f'{prop}.clean', REPO_PY, 'Repository.clean', setup, make_clean_post(prop, holder),
             loops={'AsyncFor#1': LoopSpec(None, modifies=[('heap_at', sym.SetC(STR), 'm', ['to_delete'])], name='scan_loop')},
             local_types={'to_delete': Set(STR)}, prop=prop)
    return u
