"""C11 - Chunk boundaries are content-defined and re-synchronise after edits."""
from specs import keys, misc, chunker, snapshot

LEVEL = 'proof'
UNITS = [chunker.next_cut_frame('C11'), chunker.c10_lemmas('C11'), chunker.call_unit('C11'), snapshot.stream_unit('C11'), snapshot.head_unit('C11'), snapshot.flatten_unit('C11'), misc.chunkify_unit('C11')] + keys.make_key_units('C11')
from specs import families as _families
UNITS = _families.with_families('C11', UNITS)
BOUNDED = [
    {'name': 'C11.resync', 'script': 'bounded/c11_resync.py', 'timeout': 600,
     'bound': 'statistical: 16 (thorough: 300) seeded high-entropy streams of 24-64 KiB, min=64, max=1024, one aligned insert/delete/overwrite each; '
              're-synchronisation demanded within 8*max after the edit; two random keys must differ; shared-suffix streams compared from the first common boundary; repository level with three files: one byte appended to an earlier file (sizes around 1 MiB / 2 MiB, not multiples of 4) must leave the chunks of the unchanged 3 MiB file alone; 2300 small files: a one-byte file added at the front of the stream must not re-chunk files beyond stream rank 200'},
]
TRUSTED = ['vf symbolic executor + cvc front end', 'z3 5.1, cvc5 1.0.3']
ASSUMPTIONS = [
    'NOT APPLICABLE PART: "re-synchronises within a bounded distance" and "different keys give different boundaries" are probabilistic statements about the CLMUL hash on high-entropy data; no contract over next_cut implies them (false for adversarial data). They are covered only by the bounded statistical stand-in C11.resync.',
    'suffix determinism is a corollary of the C10 contracts (decision in the non-tail regime reads only buffer[0:roundup4(max)) and no state)',
]
MANIFEST = {
    'text': 'Deductive proof of the deterministic half: boundary decisions outside the tail zone are a function of the local window, parameters and key only (no state, no dependence on size/final), every file starts on an alignment boundary in the snapshot stream, both key halves flow into the hash. The probabilistic half (re-sync distance, key sensitivity) is a labelled bounded statistical stand-in.',
    'note': 'Trusted: vf engine + C++ front end. Re-synchronisation distance and key sensitivity are not decidable by contracts (probabilistic); see assumptions.',
    'technique': 'contract-based deductive verification: sidecar contracts + loop invariants on the real functions (Python AST and a mini C++ front end), VCs by symbolic execution, discharged by z3/cvc5',
    'design_ref': 'DESIGN.md 6/C11',
}
