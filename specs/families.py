"""Families of contracts, by mechanism.  A property module names the families its statement rests on and gets EVERY unit of those
families (on top of the units it lists itself), so that a change anywhere inside a mechanism is seen by every property that
depends on the mechanism - not only by the properties whose author happened to list that function (rounds 7 and 8 of the seeded
changes: 40 % of the misses were "the contract exists, but under another property")."""
from __future__ import annotations


def _snapshot(p):
    from specs import snapshot, misc, fsutil
    return ([snapshot.head_unit(p), snapshot.flatten_unit(p), snapshot.stream_unit(p), snapshot.producer_start_unit(p), snapshot.locals_unit(p), snapshot.producer_unit(p),
             snapshot.worker_unit(p), snapshot.chunk_done_unit(p), snapshot.run_unit(p), snapshot.tail_unit(p), misc.chunkify_unit(p)]
            + fsutil.units(p) + misc.metadata_units(p))


def _restore(p):
    from specs import restore, misc
    return ([restore.select_unit(p), restore.plan_unit(p), restore.download_chunk_unit(p, restore.c04_download_chunk_post(p)), restore.write_ref_unit(p),
             restore.write_part_unit(p), restore.restore_tail_unit(p)] + misc.metadata_units(p) + misc.ts_to_dt_units(p))


def _load(p):
    from specs import snapbody, c18
    return ([snapbody.download_snapshot_unit(p), snapbody.decrypt_body_unit(p), snapbody.encrypt_body_unit(p), snapbody.reader_inverse_lemma(p),
             snapbody.compile_unit(p)] + snapbody.load_units(p) + c18.units(p))


def _gc(p):
    from specs import gc
    return [gc.delete_unit(p), gc.clean_unit(p)]


def _loc(p):
    from specs import loc
    return loc.loc_units(p) + loc.parts_units(p) + [loc.chunk_loc_unit(p)]


def _keys(p):
    from specs import keys, settings
    return ([keys.unlock_unit(p), keys.init_unit(p), keys.add_key_inner_unit(p), keys.add_key_unit(p), keys.instantiate_key_unit(p), settings.key_lemma(p)]
            + keys.make_key_units(p) + keys.config_units(p) + keys.from_config_units(p) + keys.validate_units(p) + settings.ctor_units(p))


def _adapters(p):
    from specs import misc
    return (misc.aead_units(p) + misc.aead_ctor_units(p) + misc.primitive_units(p) + misc.hashlib_adapter_units(p) + misc.json_units(p))


def _chunker(p):
    from specs import chunker
    return [chunker.next_cut_unit(p), chunker.c10_lemmas(p), chunker.call_unit(p)]


def _local(p):
    from specs import local
    return local.units(p) + local.small_units(p)


def _s3(p):
    from specs import s3, streams
    return s3.request_units(p) + s3.prepare_units(p) + s3.method_units(p) + s3.list_units(p) + s3.ctor_units(p) + streams.units(p)


def _b2(p):
    from specs import b2, streams
    return b2.units(p) + [b2.upload_url_unit(p)] + streams.units(p)


def _listing(p):
    """what delete / clean learn about the repository from a backend: the three listings"""
    from specs import s3, b2, local, fsutil
    return [fsutil.scandir_unit(p)] + s3.list_units(p) + [u for u in b2.units(p) if u.name.endswith('list_files')] + \
        [u for u in local.units(p) if u.name.endswith('list_files')] + local.small_units(p)


def _retry(p):
    from specs import retry
    return [retry.retry_finite(p)] + retry.requires_auth_units(p) + retry.giveup_units(p)


def _process(p):
    from specs import options
    return [options.main_run_unit(p)]


FAMILIES = {'snapshot': _snapshot, 'restore': _restore, 'load': _load, 'gc': _gc, 'loc': _loc, 'keys': _keys, 'adapters': _adapters,
            'chunker': _chunker, 'local': _local, 's3': _s3, 'b2': _b2, 'listing': _listing, 'retry': _retry, 'process': _process}

# which mechanisms the statement of each property rests on
DEPENDS = {
    'C01': ('snapshot', 'restore', 'load', 'loc', 'adapters'),
    'C02': ('snapshot', 'gc', 'load', 'loc', 'listing'),
    'C03': ('snapshot', 'gc', 'load', 'loc', 'local', 'listing', 's3', 'b2'),
    'C04': ('restore', 'load', 'adapters', 'process'),
    'C05': ('snapshot', 'keys', 'adapters', 'loc', 'load'),
    'C06': ('keys', 'load', 'gc', 'adapters', 'snapshot'),
    'C07': ('snapshot', 'loc', 'adapters', 'retry', 'gc', 'load', 'listing'),
    'C08': ('gc', 'load', 'loc', 'listing'),
    'C09': ('snapshot', 'restore', 'retry'),
    'C10': (),          # the chunker units are listed by the property modules themselves (C10 carries the known finding D4)
    'C11': (),
    'C12': ('local', 's3', 'b2', 'retry', 'process'),
    'C13': ('local', 's3', 'b2', 'retry'),
    'C14': ('snapshot', 'load', 'loc', 'keys', 'adapters'),
    'C15': ('restore', 'load', 'gc'),
    'C16': ('s3',),
    'C17': ('keys', 'adapters'),
    'C18': ('load', 'gc'),
    'C19': (),
    'C20': (),
}


def with_families(prop, units):
    """the property's own units plus every unit of the families it depends on (first occurrence of a unit name wins)"""
    out, seen = [], set()
    for u in list(units) + [u for f in DEPENDS.get(prop, ()) for u in FAMILIES[f](prop)]:
        if u.name in seen:
            continue
        seen.add(u.name)
        out.append(u)
    return out
