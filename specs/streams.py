"""utils.iter_chunks / aiter_chunks / async_gen_wrapper: how a payload stream is cut into pieces for the HTTP adapters."""
from __future__ import annotations

import z3

from vf import sym, models, ops
from vf.sym import SV, INT, BOOL, STR, BYTES
from vf.interp import Model, Raised, Exc, Obj, LoopSpec, IterSpec, Closure
from vf.unit import Unit
from vf.ops import MethodModel
from specs.shared import UF, UTILS_PY

FILE = models.opaque_type('PayloadFile')
ITEM = models.opaque_type('Item')


def iter_chunks_setup(b):
    b.sym('chunk_size', INT)

    def read(interp, st, args, kwargs):
        st.emit('file_read', file=args[0], size=args[1] if len(args) > 1 else kwargs.get('size'))
        yield st, sym.fresh(BYTES, 'piece')

    FILE.attrs = {'read': MethodModel('read', read)}
    b.sym('file', FILE)

    def iter_(interp, st, args, kwargs):
        st.emit('iter_with_sentinel', nargs=len(args), sentinel=args[1] if len(args) > 1 else None)
        # one call of the producer, to see what each step of the iterator does
        if args and isinstance(args[0], Closure):
            for s2, v in interp.call(st, args[0], [], {}):
                yield s2, Obj('iterator')
        else:
            yield st, Obj('iterator')

    b.bind('iter', Model('iter', iter_))


def iter_chunks_post(prop):
    def post(res):
        b = res.builder
        for p in res.paths:
            it = p.events('iter_with_sentinel')
            rd = p.events('file_read')
            ok = p.kind == 'return' and len(it) == 1 and len(rd) == 1 and it[0].data['nargs'] == 2
            # every step reads at most chunk_size bytes from THE file; the sequence ends at the first empty read (b'') -
            # so the pieces are exactly the stream's bytes from its current position, none dropped, none larger than asked
            res.oblige(p, f'{prop}.iter_chunks.reads_chunk_size_until_empty', z3.BoolVal(ok) if not ok else z3.And(
                z3.BoolVal(rd[0].data['file'] is b.st.lookup('file') and it[0].data['sentinel'] == b''),
                sym.lift(rd[0].data['size'], INT).z == b.st.lookup('chunk_size').z))
    return post


def gen_wrapper_setup(b):
    n = z3.Int('n_items')
    b.assume(n >= 0)
    b.bind('it', IterSpec(n, lambda k: SV(ITEM, UF('item_at', INT, ITEM)(k))))
    b.bind('asyncio', Obj('asyncio', sleep=Model('sleep', lambda i, s, a, k: iter([(s, None)]))))


def gen_wrapper_post(prop):
    def post(res):
        n = 0
        for p in res.body_paths('For#1'):
            n += 1
            evs = p.st.events
            start = [i for i, e in enumerate(evs) if e.kind == 'loop_body' and e.data.get('loop') == 'For#1'][-1]
            ys = [e for e in evs[start:] if e.kind == 'yield']
            v = p.st.lookup('value')
            ok = len(ys) == 1 and isinstance(ys[0].data['value'], SV) and p.kind in ('normal', 'continue')
            # every item of the wrapped iterable is yielded once, unchanged, in order
            res.oblige(p, f'{prop}.async_gen_wrapper.yields_each_item_once', z3.BoolVal(ok) if not ok else ys[0].data['value'].z == v.z)
        res.oblige([], f'{prop}.async_gen_wrapper.iterations_checked', z3.BoolVal(n >= 1))
    return post


def aiter_chunks_setup(b):
    b.sym('chunk_size', INT)
    b.sym('file', FILE)
    n = z3.Int('n_pieces')
    b.assume(n >= 0)

    def iter_chunks(interp, st, args, kwargs):
        st.emit('iter_chunks', args=list(args), kwargs=dict(kwargs))
        yield st, Obj('pieces')

    def wrapper(interp, st, args, kwargs):
        st.emit('wrapped', arg=args[0])
        yield st, IterSpec(n, lambda k: SV(BYTES, UF('piece_at', INT, BYTES)(k)))

    b.bind('iter_chunks', Model('iter_chunks', iter_chunks))
    b.bind('async_gen_wrapper', Model('async_gen_wrapper', wrapper))


def aiter_chunks_post(prop):
    def post(res):
        b = res.builder
        n = 0
        for p in res.all_paths():
            for e in p.events('iter_chunks'):
                a, kw = e.data['args'], e.data['kwargs']
                cs = kw.get('chunk_size', a[1] if len(a) > 1 else None)
                res.oblige(p.pc_at(e), f'{prop}.aiter_chunks.same_file_same_chunk_size', z3.BoolVal(False) if cs is None or not a else z3.And(
                    z3.BoolVal(a[0] is b.st.lookup('file')), sym.lift(cs, INT).z == b.st.lookup('chunk_size').z))
        for p in res.body_paths('AsyncFor#1'):
            n += 1
            evs = p.st.events
            start = [i for i, e in enumerate(evs) if e.kind == 'loop_body' and e.data.get('loop') == 'AsyncFor#1'][-1]
            ys = [e for e in evs[start:] if e.kind == 'yield']
            v = p.st.lookup('chunk')
            ok = len(ys) == 1 and isinstance(ys[0].data['value'], SV)
            res.oblige(p, f'{prop}.aiter_chunks.yields_each_piece_once', z3.BoolVal(ok) if not ok else ys[0].data['value'].z == v.z)
        res.oblige([], f'{prop}.aiter_chunks.iterations_checked', z3.BoolVal(n >= 1))
    return post


def units(prop):
    t = lambda ctx: z3.BoolVal(True)
    return [
        Unit(f'{prop}.iter_chunks', UTILS_PY, 'iter_chunks', iter_chunks_setup, iter_chunks_post(prop), prop=prop),
        Unit(f'{prop}.async_gen_wrapper', UTILS_PY, 'async_gen_wrapper', gen_wrapper_setup, gen_wrapper_post(prop),
             loops={'For#1': LoopSpec(t, modifies=[], name='For#1')}, prop=prop),
        Unit(f'{prop}.aiter_chunks', UTILS_PY, 'aiter_chunks', aiter_chunks_setup, aiter_chunks_post(prop),
             loops={'AsyncFor#1': LoopSpec(t, modifies=[], name='AsyncFor#1')}, prop=prop),
    ]
