"""replicat/utils/fs.py under contract: the walk that turns path arguments into the list of files of a snapshot.

File-system model: `os.scandir(d)` is a context manager whose value iterates over the finitely many entries of d
(an arbitrary, unknown sequence per directory); `entry.is_dir(follow_symlinks=f)` / `entry.is_file(...)` are
uninterpreted functions of (entry, f).  Termination of the walk (finiteness of the tree) is NOT proved."""
from __future__ import annotations

import z3

from vf import sym, models, ops
from vf.sym import SV, INT, BOOL, STR, Opt, List
from vf.interp import Model, Raised, Exc, Obj, LoopSpec, IterSpec
from vf.unit import Unit
from vf.ops import CM, MethodModel
from specs.shared import UF

FS_PY = 'replicat/utils/fs.py'
ENTRY = models.opaque_type('DirEntry')


def _flag(name):
    def m(interp, st, args, kwargs):
        fl = kwargs.get('follow_symlinks', args[1] if len(args) > 1 else True)
        st.emit(name, entry=args[0], follow=fl)
        yield st, SV(BOOL, UF(name, ENTRY, BOOL, BOOL)(args[0].z, sym.lift(fl, BOOL).z))
    return MethodModel(name, m)


ENTRY.attrs = {'is_dir': _flag('is_dir'), 'is_file': _flag('is_file')}


def scandir_setup(b):
    b.sym('follow_symlinks', BOOL)
    stack_ty = List(ENTRY)
    n_entries = lambda d: UF('n_entries', ENTRY, INT)(d)

    def scandir(interp, st, args, kwargs):
        d = sym.lift(args[0], ENTRY)
        # the directory cannot be listed (EACCES, EIO, vanished ...)
        bad = st.copy()
        bad.emit('scandir_refused', dir=d)
        yield bad, Raised(Exc('PermissionError'))
        st.emit('scandir', dir=d)
        n = n_entries(d.z)
        st.assume(n >= 0)
        it = IterSpec(n, lambda k: SV(ENTRY, UF('entry_of', ENTRY, INT, ENTRY)(d.z, k)))
        yield st, CM('scandir', value=it)

    os_ = Obj('os', scandir=Model('os.scandir', scandir))
    os_._lenient = True
    b.bind('os', os_)
    b.sym('path', ENTRY)


def scandir_post(prop):
    def post(res):
        b = res.builder
        fs = b.st.lookup('follow_symlinks')
        n_outer = n_inner = 0
        for p in res.body_paths('While#1'):
            # generic iteration of `while stack`: the directory popped from the stack is listed - every time, whatever was
            # listed before (a directory reachable by two routes belongs to the tree under both)
            n_outer += 1
            evs = p.st.events
            start = [i for i, e in enumerate(evs) if e.kind == 'loop_body' and e.data.get('loop') == 'While#1'][-1]
            it = evs[start:]
            pops = [e for e in it if e.kind == 'list_pop']
            scans = [e for e in it if e.kind == 'scandir']
            refused = [e for e in it if e.kind == 'scandir_refused']
            if refused:
                # a directory that cannot be listed ends the walk with that error: the result is the whole tree or a failure, never a
                # silently incomplete listing (delete and clean decide what is unreferenced from the listing of snapshots/)
                res.oblige(p, f'{prop}.scandir.unlistable_directory_is_an_error', z3.BoolVal(p.kind == 'raise'))
                continue
            ok = len(pops) == 1 and len(scans) == 1
            res.oblige(p, f'{prop}.scandir.popped_directory_is_listed', z3.BoolVal(ok) if not ok else
                       sym.lift(scans[0].data['dir'], ENTRY).z == sym.lift(pops[0].data['value'], ENTRY).z)
        for p in res.body_paths('For#1'):
            n_inner += 1
            evs = p.st.events
            start = [i for i, e in enumerate(evs) if e.kind == 'loop_body' and e.data.get('loop') == 'For#1'][-1]
            it = evs[start:]
            entry = p.st.lookup('entry')
            is_dir = UF('is_dir', ENTRY, BOOL, BOOL)(entry.z, fs.z)
            is_file = UF('is_file', ENTRY, BOOL, BOOL)(entry.z, fs.z)
            pushes = [e for e in it if e.kind == 'list_append']
            yields = [e for e in it if e.kind == 'yield']
            # every sub-directory entry is pushed (so it will be listed), every file entry is yielded, nothing else is
            res.oblige(p, f'{prop}.scandir.subdirectory_pushed', z3.Implies(is_dir, z3.BoolVal(
                len(pushes) == 1 and isinstance(pushes[0].data['value'], SV) and z3.eq(pushes[0].data['value'].z, entry.z))))
            res.oblige(p, f'{prop}.scandir.file_yielded', z3.Implies(z3.And(z3.Not(is_dir), is_file), z3.BoolVal(
                len(yields) == 1 and isinstance(yields[0].data['value'], SV) and z3.eq(yields[0].data['value'].z, entry.z))))
            res.oblige(p, f'{prop}.scandir.nothing_else_yielded_or_pushed', z3.And(
                z3.Implies(z3.BoolVal(bool(yields)), z3.And(z3.Not(is_dir), is_file)),
                z3.Implies(z3.BoolVal(bool(pushes)), is_dir)))
            for e in it:
                if e.kind in ('is_dir', 'is_file'):
                    res.oblige(p.pc_at(e), f'{prop}.scandir.symlink_policy_forwarded', sym.lift(e.data['follow'], BOOL).z == fs.z)
        res.oblige([], f'{prop}.scandir.iterations_checked', z3.BoolVal(n_outer >= 1 and n_inner >= 2))
    return post


def scandir_unit(prop):
    t = lambda ctx: z3.BoolVal(True)
    return Unit(f'{prop}.iterative_scandir', FS_PY, 'iterative_scandir', scandir_setup, scandir_post(prop),
                loops={'While#1': LoopSpec(t, modifies=[('heap', sym.ListC(ENTRY), 'arr'), ('heap', sym.ListC(ENTRY), 'len')], name='While#1'),
                       'For#1': LoopSpec(t, modifies=[('heap', sym.ListC(ENTRY), 'arr'), ('heap', sym.ListC(ENTRY), 'len')], name='For#1')},
                local_types={'stack': List(ENTRY)}, prop=prop)


# ------------------------------------------------------------------ flatten_paths
PATHV = models.opaque_type('PathObj')


def flatten_setup(b):
    SEQ = models.opaque_type('PathArgs')
    n = z3.Int('n_path_args')
    b.assume(n >= 0)
    b.bind('paths', IterSpec(n, lambda k: SV(PATHV, UF('path_arg', INT, PATHV)(k))))

    def flag(name):
        def m(interp, st, args, kwargs):
            yield st, SV(BOOL, UF('path_' + name, PATHV, BOOL)(args[0].z))
        return MethodModel(name, m)

    PATHV.attrs = {'is_dir': flag('is_dir'), 'is_file': flag('is_file')}

    def path_ctor(interp, st, args, kwargs):
        yield st, sym.lift(args[0], PATHV)          # Path(p) of a Path is that path

    P = Model('Path', path_ctor)
    b.bind('Path', P)
    b.P = P

    def scan(interp, st, args, kwargs):
        st.emit('walk', root=args[0], kwargs=dict(kwargs), nargs=len(args))
        yield st, Obj('walk_of', root=args[0])

    b.bind('iterative_scandir', Model('iterative_scandir', scan))


def flatten_post(prop):
    def post(res):
        b = res.builder
        n = 0
        for p in res.body_paths('For#1'):
            n += 1
            evs = p.st.events
            start = [i for i, e in enumerate(evs) if e.kind == 'loop_body' and e.data.get('loop') == 'For#1'][-1]
            it = evs[start:]
            path = p.st.lookup('path')
            is_dir = UF('path_is_dir', PATHV, BOOL)(path.z)
            is_file = UF('path_is_file', PATHV, BOOL)(path.z)
            walks = [e for e in it if e.kind == 'walk']
            yf = [e for e in it if e.kind == 'yield_from']
            ys = [e for e in it if e.kind == 'yield']
            # a directory argument contributes every file of the walk below it (directory symlinks followed), as paths
            okd = (len(walks) == 1 and len(yf) == 1 and not ys and isinstance(yf[0].data['value'], models.MapVal)
                   and yf[0].data['value'].f is b.P and getattr(yf[0].data['value'].over, '_name', None) == 'walk_of'
                   and walks[0].data['kwargs'].get('follow_symlinks') is True and walks[0].data['nargs'] == 1)
            res.oblige(p, f'{prop}.flatten_paths.directory_argument_is_walked_following_symlinks', z3.Implies(is_dir, z3.And(
                z3.BoolVal(bool(okd)), sym.lift(walks[0].data['root'], PATHV).z == path.z if okd else z3.BoolVal(False))))
            # a file argument is yielded itself; anything else contributes nothing
            okf = len(ys) == 1 and not yf and not walks and isinstance(ys[0].data['value'], SV)
            res.oblige(p, f'{prop}.flatten_paths.file_argument_is_yielded', z3.Implies(z3.And(z3.Not(is_dir), is_file), z3.And(
                z3.BoolVal(bool(okf)), ys[0].data['value'].z == path.z if okf else z3.BoolVal(False))))
            res.oblige(p, f'{prop}.flatten_paths.nothing_else', z3.Implies(z3.And(z3.Not(is_dir), z3.Not(is_file)),
                                                                         z3.BoolVal(not ys and not yf)))
        res.oblige([], f'{prop}.flatten_paths.iterations_checked', z3.BoolVal(n >= 3))
    return post


def flatten_unit(prop):
    t = lambda ctx: z3.BoolVal(True)
    return Unit(f'{prop}.flatten_paths', FS_PY, 'flatten_paths', flatten_setup, flatten_post(prop),
                loops={'For#1': LoopSpec(t, modifies=[], name='For#1')}, prop=prop)


def units(prop):
    return [scandir_unit(prop), flatten_unit(prop)]
