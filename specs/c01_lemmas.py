"""C01 lemmas over the contracts only (no code): tiling, round trip, every file recorded."""
from __future__ import annotations

import z3

from vf import sym
from vf.unit import Lemma
from vf import report
from specs.snapshot import inter_len


def clamp(x, lo, hi):
    return z3.If(x < lo, lo, z3.If(x > hi, hi, x))


def build(add):
    fs, fe, cs, ce, x, total = z3.Ints('fs fe cs ce x total')
    base = [0 <= fs, fs <= fe, 0 <= cs, cs < ce]
    # C01.lemma.tile_step: in counter order the file offsets of a file's refs are the partial sums
    add('tile_step', base, clamp(ce, fs, fe) - clamp(cs, fs, fe) == inter_len(fs, fe, cs, ce))
    # recorded range (contract C01.done.attribution) and planned offsets (C01.plan.*)
    r0 = z3.If(fs > cs, fs - cs, 0)
    r1 = z3.If(fe < ce, fe, ce) - cs
    off_c = clamp(cs, fs, fe) - fs          # = sum of the sizes of the refs of earlier chunks (tile_step telescoped)
    inside = [fs <= x, x < fe, cs <= x, x < ce]
    # byte x of the stream is byte (x - cs) of the chunk; the ref [r0, r1) covers it ...
    add('roundtrip.ref_covers_position', base + inside, z3.And(r0 <= x - cs, x - cs < r1))
    # ... and it is written to file position x - fs
    add('roundtrip.lands_at_file_position', base + inside, off_c + (x - cs) - r0 == x - fs)
    # a chunk that does not contain x writes nothing at file position x - fs
    cs2, ce2 = z3.Ints('cs2 ce2')
    r0b = z3.If(fs > cs2, fs - cs2, 0)
    r1b = z3.If(fe < ce2, fe, ce2) - cs2
    offb = clamp(cs2, fs, fe) - fs
    y = z3.Int('y')
    add('roundtrip.no_other_ref_writes_there', [0 <= fs, fs <= fe, 0 <= cs2, cs2 < ce2, fs <= x, x < fe,
                                                z3.Or(x < cs2, x >= ce2), r0b <= y, y < r1b],
        offb + y - r0b != x - fs)
    # total size = file size once the chunks reach the end of the file
    add('roundtrip.sizes_sum_to_file_length', [0 <= fs, fs <= fe, total >= fe],
        clamp(total, fs, fe) - clamp(0, fs, fe) == fe - fs)
    # C01.snapshot.every_file_recorded: with a non-empty stream some chunk touches every file
    # (chunk_of(p): the chunk containing stream position p -- the tiling of [0,total) by consecutive
    # non-empty chunks, C01.producer.consecutive, is used as a function: assumption A-tiling)
    csum = z3.Function('l_csum', z3.IntSort(), z3.IntSort())
    chunk_of = z3.Function('l_chunk_of', z3.IntSort(), z3.IntSort())
    p = z3.Int('p')
    tiling = z3.ForAll([p], z3.Implies(z3.And(0 <= p, p < total), z3.And(
        csum(chunk_of(p)) <= p, p < csum(chunk_of(p) + 1))))
    c = z3.Int('c')
    touches = lambda cc: z3.And(fs <= csum(cc + 1), fe >= csum(cc))
    wit = z3.If(fs < total, chunk_of(fs), chunk_of(total - 1))
    goal = touches(wit)
    hyp = [0 <= fs, fs <= fe, fe <= total, tiling]
    # an all-empty tree (total == 0 with files present) produces no chunk at all: finding D3, which is
    # demonstrated on the real code by the bounded stand-in C01.e2e (class D3), not by this lemma
    add('every_file_recorded[non-empty stream]', hyp + [total > 0], goal)


def lemmas(prop):
    return Lemma(f'{prop}.lemma', build, prop=prop)
