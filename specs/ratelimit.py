"""C20 - The bandwidth limit is respected and transparent to the data (single stream: proved)."""
from __future__ import annotations

import ast as _ast
import z3

from vf import sym, models, ops, source
from vf.sym import SV, INT, BOOL, REAL, STR, BYTES, Opt, Ref, Cls
from vf.interp import Model, Raised, Exc, Obj, LoopSpec, Closure
from vf.unit import Unit, Lemma
from vf.ops import CM, MethodModel, Property
from specs import shared
from specs.shared import REPO_PY, UTILS_PY, UF

RLIO = Cls('RateLimitedIO', {'read_limit': REAL, 'write_limit': REAL,
                             '_read_sleep_amortised': REAL, '_write_sleep_amortised': REAL})


def class_const(name):
    node = source.class_attr(UTILS_PY, 'RateLimitedIO', name)
    return node.value


def wrapper_setup(kind):
    def setup(b):
        rl = b.ref('limiter', RLIO, bind=False)
        h = b.st.heap
        lim_f = 'read_limit' if kind == 'read' else 'write_limit'
        debt_f = '_read_sleep_amortised' if kind == 'read' else '_write_sleep_amortised'
        L = h.read(RLIO, lim_f, rl.z)
        debt0 = h.read(RLIO, debt_f, rl.z)
        b.assume(L > 0)
        b.assume(debt0 <= 0.25)
        b.L, b.debt0, b.rl, b.debt_f = L, debt0, rl, debt_f
        RLIO.consts = {
            'PAUSE_THRESHOLD_SECONDS': class_const('PAUSE_THRESHOLD_SECONDS'),
            'PAUSE_LIMIT': class_const('PAUSE_LIMIT'),
            '_read_lock': models.lock_cm('_read_lock'), '_write_lock': models.lock_cm('_write_lock'),
            'pause_reads': shared._real_method(UTILS_PY, 'RateLimitedIO.pause_reads'),
            'pause_writes': shared._real_method(UTILS_PY, 'RateLimitedIO.pause_writes'),
        }
        # ghost clock: time passes (>= 0) between any two observations
        b.ghost('clock', SV(REAL, z3.Real('t0')))
        b.ghost('sent', SV(REAL, z3.RealVal(0)))
        b.t0 = z3.Real('t0')

        def tick(st):
            d = z3.Real(sym.fresh_name('dt'))
            st.assume(d >= 0)
            st.ghost['clock'] = SV(REAL, st.ghost['clock'].z + d)

        def perf_counter(interp, st, args, kwargs):
            tick(st)
            st.emit('perf_counter', value=st.ghost['clock'])
            yield st, st.ghost['clock']

        def sleep(interp, st, args, kwargs):
            x = sym.lift(args[0], REAL).z
            over = z3.Real(sym.fresh_name('overshoot'))
            st.assume(over >= 0)
            st.ghost['clock'] = SV(REAL, st.ghost['clock'].z + x + over)
            st.emit('sleep', seconds=SV(REAL, x), overshoot=SV(REAL, over))
            yield st, None

        b.bind('time', Obj('time', perf_counter=Model('perf_counter', perf_counter), sleep=Model('sleep', sleep)))
        d = sym.const(INT, 'd')            # bytes moved by the underlying call
        b.assume(d.z >= 0)
        b.assume(z3.ToReal(d.z) * 4 <= L)   # premise: request sizes up to L/4 (the chunk size the commands choose)
        b.d = d
        data = sym.const(BYTES, 'payload')
        b.assume(z3.Length(data.z) == d.z)
        b.data = data

        def file_read(interp, st, args, kwargs):
            tick(st)
            st.ghost['sent'] = SV(REAL, st.ghost['sent'].z + z3.ToReal(d.z))
            st.emit('file_read', size=args[0] if args else None)
            yield st, data

        def file_write(interp, st, args, kwargs):
            tick(st)
            st.ghost['sent'] = SV(REAL, st.ghost['sent'].z + z3.ToReal(d.z))
            st.emit('file_write', data=args[0])
            yield st, d

        f = Obj('file', read=Model('file.read', file_read), write=Model('file.write', file_write))
        me_ = Obj('self', _file=f, _rate_limiter=rl)
        me_._class_source = (UTILS_PY, '_RateLimitedFileWrapper')          # extracted helpers: the real methods, inlined
        b.bind('self', me_)
        if kind == 'read':
            b.sym('size', INT)
        else:
            b.bind('data', data)
    return setup


def wrapper_post(prop, kind):
    def post(res):
        b = res.builder
        L, debt0 = b.L, b.debt0
        for p in res.paths:
            sig = ('sleep' if p.events('sleep') else 'nosleep') + '->' + p.kind
            if p.kind != 'return':
                res.oblige(p, f'{prop}.{kind}.total[{sig}]', z3.BoolVal(False))
                continue
            st = p.st
            debt1 = st.heap.read(RLIO, b.debt_f, b.rl.z)
            t1, sent = st.ghost['clock'].z, st.ghost['sent'].z
            calls = p.events('file_read' if kind == 'read' else 'file_write')
            # C20.io.transparent: exactly the wrapped call, result/argument passed through untouched
            if kind == 'read':
                res.oblige(p, f'{prop}.read.transparent[{sig}]', z3.And(
                    z3.BoolVal(len(calls) == 1 and p.value is b.data),
                    z3.BoolVal(len(calls) == 1 and calls[0].data['size'] is b.st.lookup('size'))))
            else:
                res.oblige(p, f'{prop}.write.transparent[{sig}]', z3.BoolVal(
                    len(calls) == 1 and calls[0].data['data'] is b.data and p.value is b.d))
            # C20.pause.step: the potential L*t - sent + L*debt does not decrease, debt stays <= 0.25
            res.oblige(p, f'{prop}.{kind}.potential_non_decreasing[{sig}]',
                       L * (t1 - b.t0) - sent + L * (debt1 - debt0) >= 0)
            res.oblige(p, f'{prop}.{kind}.debt_bounded_above[{sig}]', debt1 <= 0.25)
            sl = p.events('sleep')
            if sl:
                # excess = time that really passed around the sleep beyond the requested pause (sleep overshoot +
                # scheduling delay); the amortised debt never drops below -excess, nor below its old value
                evs = p.st.events
                before = [e for e in evs[:evs.index(sl[-1])] if e.kind == 'perf_counter'][-1].data['value'].z
                excess = t1 - before - sl[-1].data['seconds'].z
                res.oblige(p, f'{prop}.{kind}.debt_bounded_below_by_sleep_excess[{sig}]', z3.And(excess >= 0, debt1 >= -excess))
                # several streams share the debt: the wall-clock interval a stream credits against it (between the clock
                # reading before the sleep and the one after it) lies inside its own critical section, so the intervals
                # credited by different streams are disjoint and their sum is real time (time spent waiting for the lock
                # is another stream's credited sleep and must not be credited twice)
                lock = '_read_lock' if kind == 'read' else '_write_lock'
                i_sl = evs.index(sl[-1])
                pcs_before = [e for e in evs[:i_sl] if e.kind == 'perf_counter']
                pcs_after = [e for e in evs[i_sl:] if e.kind == 'perf_counter']
                res.oblige(p, f'{prop}.{kind}.credited_interval_inside_critical_section[{sig}]', z3.BoolVal(
                    bool(pcs_before) and bool(pcs_after) and lock in pcs_before[-1].locks and lock in pcs_after[0].locks
                    and lock in sl[-1].locks))
            else:
                res.oblige(p, f'{prop}.{kind}.debt_not_lowered_without_sleep[{sig}]', debt1 >= debt0)
            # every mutation of the shared amortised-sleep field happens under the limiter's lock
            res.oblige(p, f'{prop}.{kind}.lock_released[{sig}]', z3.BoolVal(not st.locks_held))
    return post


def window_lemma(prop):
    def build(add):
        # from `potential non-decreasing` for every operation between t1 and t2 (same limiter, ONE stream):
        L, t1, t2, s1, s2, d1, d2, dmax = z3.Reals('L t1 t2 s1 s2 debt1 debt2 dmax')
        hyp = [L > 0, t1 <= t2, L * t2 - s2 + L * d2 >= L * t1 - s1 + L * d1, d2 <= 0.25, d1 >= -dmax, dmax >= 0]
        add('window', hyp, s2 - s1 <= L * (t2 - t1) + L * (0.25 + dmax))
        # C20.repo.chunk_size: the chunk size the commands choose respects the premise d <= L/4
        rl, c = z3.Ints('rate_limit concurrent')
        q = z3.Int('q')
        add('chunk_size_at_most_quarter', [rl >= 4, c >= 1, q == rl / (c * 16)],
            z3.If(q > 1, q, 1) * 4 <= rl)
    return Lemma(f'{prop}.lemma', build, prop=prop)


# ---- the four call sites that create the limiter and choose the chunk size --------------------------------
def _is_rate_if(s):
    return isinstance(s, _ast.If) and 'rate_limit' in _ast.unparse(s.test)


def site_setup(b):
    me = shared.repo_self(b, props=False, cache=False)
    b.sym('rate_limit', Opt(INT))
    rl = b.st.lookup('rate_limit')
    b.assume(z3.Implies(z3.Not(rl.ty.is_none(rl.z)), rl.ty.val(rl.z) >= 1))

    RL = models.opaque_type('RateLimiterObj')
    RL.lenient = True
    # the limiter's class constants, read from the source (literal values)
    RL.attrs = {}
    for nm in ('PAUSE_THRESHOLD_SECONDS', 'PAUSE_LIMIT'):
        try:
            RL.attrs[nm] = class_const(nm)
        except Exception:
            pass

    def mk(interp, st, args, kwargs):
        st.emit('RateLimitedIO', limit=args[0])
        yield st, sym.fresh(RL, 'rl')

    b.bind('utils', Obj('utils', RateLimitedIO=Model('RateLimitedIO', mk)))
    b.bind('DEFAULT_STREAM_CHUNK_SIZE', source.module_assign('replicat/backends/base.py', 'DEFAULT_STREAM_CHUNK_SIZE').value)


def site_post(prop, var):
    def post(res):
        b = res.builder
        rl = b.st.lookup('rate_limit')
        conc = b.st.lookup('self').get('_concurrent').z
        for p in res.paths:
            if p.kind not in ('normal', 'return'):
                res.oblige(p, f'{prop}.site.total', z3.BoolVal(False))
                continue
            v = p.st.lookup(var)
            mk = p.events('RateLimitedIO')
            if mk:
                r = rl.ty.val(rl.z)
                q = r / (conc * 16)
                # premise of the single-stream proof: the commands choose request sizes d <= L/4 (for L >= 4)
                res.oblige(p, f'{prop}.site.chunk_size_at_most_quarter_of_limit', z3.Implies(r >= 4, z3.And(
                    sym.lift(v, INT).z >= 1, sym.lift(v, INT).z * 4 <= r)))
                res.oblige(p, f'{prop}.site.limiter_gets_the_limit', ops.unwrap_opt(res.interp, p.st, mk[0].data['limit'], 'limit').z == r)
                res.oblige(p, f'{prop}.site.chunk_size_formula', sym.lift(v, INT).z == z3.If(q > 1, q, 1), tag='helper')
            else:
                res.oblige(p, f'{prop}.site.unlimited_only_without_rate_limit', rl.ty.is_none(rl.z))
    return post


def site_units(prop):
    out = []
    for fn, var in (('snapshot', 'upload_chunk_size'), ('restore', 'download_chunk_size'),
                    ('upload_objects', 'upload_chunk_size'), ('download_objects', 'download_chunk_size')):
        out.append(Unit(f'{prop}.site.{fn}', REPO_PY, f'Repository.{fn}', site_setup, site_post(prop, var),
                        stmt=(_is_rate_if, lambda s: True), prop=prop))
    return out


def forward_setup(cls_kind):
    def setup(b):
        calls = []

        def mk(name):
            def fn(interp, st, args, kwargs):
                r = sym.fresh(INT, name + '_result')
                st.emit('forwarded', name=name, args=list(args), kwargs=dict(kwargs), result=r)
                yield st, r
            return Model(name, fn)
        f = Obj('inner', seek=mk('seek'), tell=mk('tell'), truncate=mk('truncate'))
        if cls_kind == 'limited':
            b.bind('self', Obj('self', _file=f))
            b.bind('args', (sym.const(INT, 'a0'),))
            b.bind('kwargs', b.st.new_py('dict', {}))
        else:
            b.bind('self', Obj('self', _stream=f))
            b.bind('args', (sym.const(INT, 'a0'),))
            b.bind('kwargs', b.st.new_py('dict', {}))
            b.sym('size', Opt(INT))
    return setup


def forward_post(prop, name):
    def post(res):
        for p in res.paths:
            fw = p.events('forwarded')
            ok = p.kind == 'return' and len(fw) == 1 and fw[0].data['name'] == name
            # C20.forward / C12.wrappers.forward: the call acts on the wrapped stream and its result is returned
            res.oblige(p, f'{prop}.forward.{name}', z3.BoolVal(ok) if not ok else p.value.z == fw[0].data['result'].z)
    return post


def forward_units(prop):
    out = []
    for name in ('seek', 'tell', 'truncate'):
        out.append(Unit(f'{prop}.limited.{name}', UTILS_PY, f'_RateLimitedFileWrapper.{name}', forward_setup('limited'),
                        forward_post(prop, name), prop=prop))
    for name in ('seek', 'truncate'):
        out.append(Unit(f'{prop}.tqdm.{name}', UTILS_PY, f'TQDMIOBase.{name}', forward_setup('tqdm'),
                        forward_post(prop, name), prop=prop))
    return out


def units(prop):
    return [
        Unit(f'{prop}.read', UTILS_PY, '_RateLimitedFileWrapper.read', wrapper_setup('read'), wrapper_post(prop, 'read'), prop=prop),
        Unit(f'{prop}.write', UTILS_PY, '_RateLimitedFileWrapper.write', wrapper_setup('write'), wrapper_post(prop, 'write'), prop=prop),
        window_lemma(prop),
    ] + site_units(prop) + forward_units(prop)
